/-
  C09 helper lemmas: `find_pattern_in_string_iter` over any chunking = "what follows the first occurrence".
-/
import PydapModel.Stream
namespace Pydap.Stream

theorem isPrefixOf_append_of_le (p x y : Bytes) (h : p.length ≤ x.length) :
    p.isPrefixOf (x ++ y) = p.isPrefixOf x := by
  rw [Bool.eq_iff_iff, List.isPrefixOf_iff_prefix, List.isPrefixOf_iff_prefix]
  constructor
  · intro h1
    exact List.prefix_of_prefix_length_le h1 (List.prefix_append x y) h
  · intro h1
    exact h1.trans (List.prefix_append x y)

theorem isPrefixOf_false_of_short (p x : Bytes) (h : x.length < p.length) : p.isPrefixOf x = false := by
  cases hh : p.isPrefixOf x with
  | false => rfl
  | true =>
    have := (List.isPrefixOf_iff_prefix.mp hh).length_le
    omega

theorem afterFirst_short (p : Bytes) : ∀ x : Bytes, x.length < p.length → afterFirst p x = none := by
  intro x
  induction x with
  | nil =>
    intro h
    have : p ≠ [] := by intro hp; subst hp; simp at h
    simp [afterFirst, this]
  | cons a t ih =>
    intro h
    have h1 := isPrefixOf_false_of_short p (a :: t) h
    have h2 : t.length < p.length := by simp at h; omega
    simp [afterFirst, h1, ih h2]

theorem afterFirst_cons_none {p : Bytes} {a : UInt8} {t : Bytes} (h : afterFirst p (a :: t) = none) :
    p.isPrefixOf (a :: t) = false ∧ afterFirst p t = none := by
  unfold afterFirst at h
  cases hh : p.isPrefixOf (a :: t) with
  | true => simp [hh] at h
  | false => simp [hh] at h; exact ⟨rfl, h⟩

/-- a match found in `x` is still the first match after more bytes arrive -/
theorem afterFirst_append_some (p : Bytes) (hp : p ≠ []) (y : Bytes) :
    ∀ (x s : Bytes), afterFirst p x = some s → afterFirst p (x ++ y) = some (s ++ y) := by
  intro x
  induction x with
  | nil => intro s h; simp [afterFirst, hp] at h
  | cons a t ih =>
    intro s h
    cases hh : p.isPrefixOf (a :: t) with
    | true =>
      have hle : p.length ≤ (a :: t).length := (List.isPrefixOf_iff_prefix.mp hh).length_le
      have h2 : p.isPrefixOf (a :: (t ++ y)) = true := by
        have := isPrefixOf_append_of_le p (a :: t) y hle
        rw [List.cons_append] at this
        rw [this, hh]
      have hs : s = (a :: t).drop p.length := by
        unfold afterFirst at h; simp [hh] at h; exact h.symm
      rw [List.cons_append]
      unfold afterFirst
      rw [if_pos h2, hs, ← List.cons_append, List.drop_append_of_le_length hle]
    | false =>
      have h1 : afterFirst p t = some s := by
        unfold afterFirst at h; simpa [hh] using h
      by_cases hle : p.length ≤ (a :: t).length
      · have h2 : p.isPrefixOf (a :: (t ++ y)) = false := by
          have := isPrefixOf_append_of_le p (a :: t) y hle
          rw [List.cons_append] at this
          rw [this, hh]
        rw [List.cons_append]
        unfold afterFirst
        simp [h2, ih s h1]
      · exfalso
        have : t.length < p.length := by simp at hle; omega
        rw [afterFirst_short p t this] at h1
        cases h1

theorem afterFirst_drop_none (p : Bytes) : ∀ (k : Nat) (x : Bytes), afterFirst p x = none →
    afterFirst p (x.drop k) = none := by
  intro k
  induction k with
  | zero => intro x h; simpa using h
  | succ k ih =>
    intro x h
    cases x with
    | nil => simpa using h
    | cons a t => simpa using ih t (afterFirst_cons_none h).2

/-- the overlap kept by the loop (`last_chunk[-length:]`) is enough -/
theorem afterFirst_keep_tail (p y : Bytes) : ∀ x : Bytes, afterFirst p x = none →
    afterFirst p (x.drop (x.length - p.length) ++ y) = afterFirst p (x ++ y) := by
  intro x
  induction x with
  | nil => intro _; simp
  | cons a t ih =>
    intro h
    obtain ⟨h1, h2⟩ := afterFirst_cons_none h
    by_cases hle : p.length ≤ t.length
    · have e1 : (a :: t).length - p.length = (t.length - p.length) + 1 := by simp; omega
      have h3 : p.isPrefixOf (a :: (t ++ y)) = false := by
        have := isPrefixOf_append_of_le p (a :: t) y (by simp; omega)
        rw [List.cons_append] at this
        rw [this, h1]
      rw [e1, List.drop_succ_cons, ih h2, List.cons_append]
      conv => rhs; unfold afterFirst
      simp [h3]
    · have e1 : (a :: t).length - p.length = 0 := by simp; omega
      rw [e1, List.drop_zero]

/-- generalised invariant of the loop of `find_pattern_in_string_iter` -/
theorem findPatternFrom_spec (p : Bytes) (hp : p ≠ []) : ∀ (cs : List Bytes) (last : Bytes),
    afterFirst p last = none →
    (findPatternFrom p last cs).map (fun x => x.1 ++ x.2.flatten) = afterFirst p (last ++ cs.flatten) := by
  intro cs
  induction cs with
  | nil => intro last h; simp [findPatternFrom, h]
  | cons c cs ih =>
    intro last h
    cases hc : afterFirst p (last ++ c) with
    | some s =>
      have := afterFirst_append_some p hp cs.flatten (last ++ c) s hc
      simp [findPatternFrom, hc]
      rw [← List.append_assoc, this]
    | none =>
      have hk := afterFirst_drop_none p ((last ++ c).length - p.length) (last ++ c) hc
      have := ih _ hk
      simp only [findPatternFrom, hc]
      rw [this, afterFirst_keep_tail p cs.flatten (last ++ c) hc]
      simp [List.append_assoc]

theorem findPattern_spec (p : Bytes) (hp : p ≠ []) (cs : List Bytes) :
    (findPattern p cs).map (fun x => x.1 ++ x.2.flatten) = afterFirst p cs.flatten := by
  have h0 : afterFirst p [] = none := by simp [afterFirst, hp]
  simpa [findPattern] using findPatternFrom_spec p hp cs [] h0

/-! ## `afterFirst` is "the suffix after the leftmost occurrence" -/

theorem afterFirst_some_iff_aux (p : Bytes) : ∀ (b s : Bytes), afterFirst p b = some s →
    ∃ pre, b = pre ++ p ++ s ∧ ∀ pre' s', b = pre' ++ p ++ s' → pre.length ≤ pre'.length := by
  intro b
  induction b with
  | nil =>
    intro s h
    by_cases hp : p = []
    · subst hp; simp [afterFirst] at h; subst h
      exact ⟨[], by simp, by intros; simp⟩
    · simp [afterFirst, hp] at h
  | cons a t ih =>
    intro s h
    cases hh : p.isPrefixOf (a :: t) with
    | true =>
      have hs : s = (a :: t).drop p.length := by
        unfold afterFirst at h; simp [hh] at h; exact h.symm
      obtain ⟨r, hr⟩ := List.isPrefixOf_iff_prefix.mp hh
      refine ⟨[], ?_, by intros; simp⟩
      rw [hs, ← hr]; simp
    | false =>
      have h1 : afterFirst p t = some s := by
        unfold afterFirst at h; simpa [hh] using h
      obtain ⟨pre, e, hmin⟩ := ih s h1
      refine ⟨a :: pre, by simp [e], ?_⟩
      intro pre' s' e'
      cases pre' with
      | nil =>
        exfalso
        have : p <+: a :: t := ⟨s', by simpa using e'.symm⟩
        rw [← List.isPrefixOf_iff_prefix] at this
        rw [this] at hh; cases hh
      | cons a' pre'' =>
        simp at e'
        have := hmin pre'' s' (by simpa using e'.2)
        simp; omega

theorem afterFirst_none_iff (p b : Bytes) : afterFirst p b = none ↔ ¬ ∃ pre s, b = pre ++ p ++ s := by
  constructor
  · intro h
    induction b with
    | nil =>
      rintro ⟨pre, s, e⟩
      have : p = [] := by
        have := congrArg List.length e; simp at this
        exact List.eq_nil_of_length_eq_zero (by omega)
      subst this; simp [afterFirst] at h
    | cons a t ih =>
      obtain ⟨h1, h2⟩ := afterFirst_cons_none h
      rintro ⟨pre, s, e⟩
      cases pre with
      | nil =>
        have : p <+: a :: t := ⟨s, by simpa using e.symm⟩
        rw [← List.isPrefixOf_iff_prefix] at this
        rw [this] at h1; cases h1
      | cons a' pre' =>
        simp at e
        exact ih h2 ⟨pre', s, by simpa using e.2⟩
  · intro h
    cases hh : afterFirst p b with
    | none => rfl
    | some s =>
      obtain ⟨pre, e, _⟩ := afterFirst_some_iff_aux p b s hh
      exact absurd ⟨pre, s, e⟩ h

end Pydap.Stream
