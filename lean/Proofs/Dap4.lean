/-
  Lemmas about the DAP4 decoding model (`PydapModel/Dap4.lean`).
-/
import PydapModel.Dap4
namespace Pydap.Dap4

theorem pad3_length (l : List Bool) : 3 ≤ (pad3 l).length := by
  simp [pad3]; omega

set_option maxRecDepth 100000 in
/-- on a little-endian host the string trick reads bit 0 / 1 / 2 of the chunk type, for every value the
    8-bit field can take (complete finite table) -/
theorem decodeChunkType_little : ∀ t, t < 256 →
    decodeChunkType true t = ⟨t % 2 == 1, t / 2 % 2 == 1, t / 4 % 2 == 1⟩ := by
  decide

theorem decode_flagsByte (last error little : Bool) :
    decodeChunkType true (flagsByte last error little) = ⟨last, error, little⟩ := by
  cases last <;> cases error <;> cases little <;> decide

theorem flagsByte_lt (last error little : Bool) : flagsByte last error little < 256 := by
  cases last <;> cases error <;> cases little <;> decide

theorem toNat_ofNat_lt (n : Nat) (h : n < 256) : (UInt8.ofNat n).toNat = n := by
  simp [Nat.mod_eq_of_lt h]

theorem header_size (flags size : Nat) (hf : flags < 256) (hs : size < 16777216) :
    chunkSize (be32 (UInt8.ofNat flags) (UInt8.ofNat (size / 65536 % 256)) (UInt8.ofNat (size / 256 % 256))
      (UInt8.ofNat (size % 256))) = size := by
  simp only [be32, chunkSize]
  rw [toNat_ofNat_lt flags hf, toNat_ofNat_lt _ (Nat.mod_lt _ (by decide)),
      toNat_ofNat_lt _ (Nat.mod_lt _ (by decide)), toNat_ofNat_lt _ (Nat.mod_lt _ (by decide))]
  omega

theorem header_type (flags size : Nat) (hf : flags < 256) (hs : size < 16777216) :
    chunkType (be32 (UInt8.ofNat flags) (UInt8.ofNat (size / 65536 % 256)) (UInt8.ofNat (size / 256 % 256))
      (UInt8.ofNat (size % 256))) = flags := by
  simp only [be32, chunkType]
  rw [toNat_ofNat_lt flags hf, toNat_ofNat_lt _ (Nat.mod_lt _ (by decide)),
      toNat_ofNat_lt _ (Nat.mod_lt _ (by decide)), toNat_ofNat_lt _ (Nat.mod_lt _ (by decide))]
  omega

/-! ### chunk reassembly -/

def SmallChunks (cs : List Bytes) : Prop := ∀ c ∈ cs, c.length < 16777216

theorem chunkEncode_cons2 (little : Bool) (c d : Bytes) (cs : List Bytes) :
    chunkEncode little (c :: d :: cs)
      = chunkHeader (flagsByte false false little) c.length ++ c ++ chunkEncode little (d :: cs) := rfl

/-- one non-final chunk is peeled off -/
theorem chunkBodies_step (little : Bool) (f : Nat) (c tail : Bytes) (h : c.length < 16777216) :
    chunkBodies true (f + 1) (chunkHeader (flagsByte false false little) c.length ++ c ++ tail)
      = (chunkBodies true f tail).map (c :: ·) := by
  simp only [chunkHeader, List.cons_append, List.nil_append, chunkBodies]
  rw [header_size _ _ (flagsByte_lt _ _ _) h, header_type _ _ (flagsByte_lt _ _ _) h, decode_flagsByte]
  simp
  try omega

/-- the final chunk ends the loop; whatever follows is ignored -/
theorem chunkBodies_last (little : Bool) (f : Nat) (c tail : Bytes) (h : c.length < 16777216) :
    chunkBodies true (f + 1) (chunkHeader (flagsByte true false little) c.length ++ c ++ tail) = .ok [c] := by
  simp only [chunkHeader, List.cons_append, List.nil_append, chunkBodies]
  rw [header_size _ _ (flagsByte_lt _ _ _) h, header_type _ _ (flagsByte_lt _ _ _) h, decode_flagsByte]
  simp
  try omega

theorem chunkBodies_encode (little : Bool) (cs : List Bytes) (hne : cs ≠ []) (hs : SmallChunks cs)
    (junk : Bytes) (f : Nat) (hf : cs.length ≤ f) :
    chunkBodies true f (chunkEncode little cs ++ junk) = .ok cs := by
  induction cs generalizing f with
  | nil => exact absurd rfl hne
  | cons c cs ih =>
    cases f with
    | zero => simp at hf
    | succ f =>
      have hc : c.length < 16777216 := hs c (by simp)
      cases cs with
      | nil => simpa [chunkEncode] using chunkBodies_last little f c junk hc
      | cons d cs =>
        rw [chunkEncode_cons2, List.append_assoc, chunkBodies_step little f c _ hc,
            ih (by simp) (fun x hx => hs x (by simp [hx])) f (by simpa using hf)]
        rfl

theorem chunkEncode_length_ge (little : Bool) (cs : List Bytes) : cs.length ≤ (chunkEncode little cs).length := by
  induction cs with
  | nil => simp
  | cons c cs ih =>
    cases cs with
    | nil => simp [chunkEncode, chunkHeader]
    | cons d cs =>
      rw [chunkEncode_cons2]
      simp only [List.length_append, List.length_cons] at ih ⊢
      simp [chunkHeader]; omega

theorem stream2bytearray_encode (little : Bool) (cs : List Bytes) (hs : SmallChunks cs) (junk : Bytes)
    (hne : cs ≠ []) :
    stream2bytearray true (chunkEncode little cs ++ junk) = .ok cs.flatten := by
  unfold stream2bytearray
  rw [chunkBodies_encode little cs hne hs junk _ (by
    have := chunkEncode_length_ge little cs
    simp only [List.length_append]; omega)]
  rfl

/-- no data at all is not a response any more: the loop's `else` raises -/
theorem stream2bytearray_empty : stream2bytearray true [] = .error .eofError := rfl

/-! ### byte order -/

theorem leBytes_length (w v : Nat) : (leBytes w v).length = w := by
  induction w generalizing v with
  | zero => rfl
  | succ w ih => simp [leBytes, ih]

theorem fromLE_leBytes (w v : Nat) : fromLE (leBytes w v) = v % 256 ^ w := by
  induction w generalizing v with
  | zero => simp [leBytes, fromLE, Nat.mod_one]
  | succ w ih =>
    simp only [leBytes, fromLE, ih]
    rw [toNat_ofNat_lt _ (Nat.mod_lt _ (by decide)), Nat.pow_succ', Nat.mod_mul]

theorem encodeItem_length (little : Bool) (w v : Nat) : (encodeItem little w v).length = w := by
  cases little <;> simp [encodeItem, beBytes, leBytes_length]

theorem decode_encodeItem (little : Bool) (w v : Nat) :
    decodeItem little (encodeItem little w v) = v % 256 ^ w := by
  cases little <;> simp [decodeItem, encodeItem, fromBE, beBytes, fromLE_leBytes]

/-- reading an item in the *other* byte order gives the byte-reversed value: the flag matters -/
theorem decode_swapped (little : Bool) (w v : Nat) :
    decodeItem (!little) (encodeItem little w v) = fromLE (leBytes w v).reverse := by
  cases little <;> simp [decodeItem, encodeItem, fromBE, beBytes]

/-! ### sequential layout -/

theorem items_flatMap (little : Bool) (w : Nat) (vs : List Nat) (rest : Bytes) :
    items w vs.length (vs.flatMap (encodeItem little w) ++ rest) = vs.map (encodeItem little w) := by
  induction vs with
  | nil => rfl
  | cons v vs ih =>
    simp only [List.length_cons, items, List.flatMap_cons, List.map_cons, List.append_assoc]
    rw [List.take_left' (encodeItem_length little w v), List.drop_left' (encodeItem_length little w v), ih]

theorem flatMap_encode_length (little : Bool) (w : Nat) (vs : List Nat) :
    (vs.flatMap (encodeItem little w)).length = vs.length * w := by
  induction vs with
  | nil => simp
  | cons v vs ih => simp [List.flatMap_cons, encodeItem_length, ih, Nat.add_mul, Nat.add_comm]

/-- what pydap stores as the `checksum` attribute: the sender's CRC word read in the other byte order -/
def swapped (little : Bool) (ck : Nat) : Nat := decodeItem (!little) (encodeItem little 4 ck)

def SentOk (s : Sent) : Prop := (∀ v ∈ s.values, v < 256 ^ s.itemsize) ∧ s.checksum < 256 ^ 4

theorem unpackVars_serialise (little : Bool) (ss : List Sent) (h : ∀ s ∈ ss, SentOk s) :
    unpackVars little (ss.map Sent.layout) (serialise little ss)
      = .ok (ss.map fun s => ⟨s.values, some (swapped little s.checksum)⟩) := by
  induction ss with
  | nil => rfl
  | cons s ss ih =>
    have hs := h s (by simp)
    simp only [List.map_cons, serialise, unpackVars, Sent.layout]
    have hlen := flatMap_encode_length little s.itemsize s.values
    have hck := encodeItem_length little 4 s.checksum
    rw [List.append_assoc, List.take_left' hlen]
    simp only [hlen, ne_eq, not_true_eq_false, ↓reduceIte]
    rw [List.drop_left' hlen, List.take_left' hck]
    simp only [hck, ↓reduceIte]
    have hd : List.drop (s.values.length * s.itemsize + 4)
        (List.flatMap (encodeItem little s.itemsize) s.values ++ (encodeItem little 4 s.checksum ++ serialise little ss))
        = serialise little ss := by
      rw [← List.append_assoc]
      exact List.drop_left' (by simp [hlen, hck])
    rw [hd, ih (fun x hx => h x (by simp [hx]))]
    have e := items_flatMap little s.itemsize s.values []
    simp only [List.append_nil] at e
    rw [e]
    have : List.map (decodeItem little) (List.map (encodeItem little s.itemsize) s.values) = s.values := by
      rw [List.map_map]
      conv => rhs; rw [← List.map_id s.values]
      apply List.map_congr_left
      intro v hv
      show decodeItem little (encodeItem little s.itemsize v) = v
      rw [decode_encodeItem]; exact Nat.mod_eq_of_lt (hs.1 v hv)
    rw [this]
    rfl

/-! ### the whole response -/

theorem safeDmrAndData_encode (last error little : Bool) (dmr data : Bytes) (h : dmr.length < 16777216) :
    safeDmrAndData true (chunkHeader (flagsByte last error little) dmr.length ++ dmr ++ data)
      = .ok ⟨dmr, data, little⟩ := by
  simp only [chunkHeader, List.cons_append, List.nil_append, safeDmrAndData]
  rw [header_size _ _ (flagsByte_lt _ _ _) h, header_type _ _ (flagsByte_lt _ _ _) h, decode_flagsByte]
  simp
  try omega

theorem unpackResponse_encode (little : Bool) (layoutsOf : Bytes → Except Err (List Layout))
    (dmr : Bytes) (ss : List Sent) (chunks : List Bytes)
    (hd : dmr.length < 16777216) (hl : layoutsOf dmr = .ok (ss.map Sent.layout))
    (hs : ∀ s ∈ ss, SentOk s) (hc : SmallChunks chunks) (hne : chunks ≠ [])
    (hp : chunks.flatten = serialise little ss) :
    unpackResponse true layoutsOf (encodeResponse little dmr chunks)
      = .ok (dmr, little, ss.map fun s => ⟨s.values, some (swapped little s.checksum)⟩) := by
  unfold unpackResponse encodeResponse
  rw [safeDmrAndData_encode false false little dmr _ hd]
  have h2 := stream2bytearray_encode little chunks hc [] hne
  rw [List.append_nil] at h2
  simp only [bind, Except.bind, hl, h2, hp, unpackVars_serialise little ss hs]
  rfl

end Pydap.Dap4
