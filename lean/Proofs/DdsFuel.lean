import Proofs.DdsPrintable
namespace Pydap.Dds
open Pydap
/-! ### fuel adequacy for arbitrary input: with fuel ≥ text length the parser's result does not depend on fuel -/

theorem lstrip_len (t : Text) : (lstrip t).length ≤ t.length := by
  unfold lstrip
  induction t with
  | nil => simp
  | cons c cs ih =>
    rw [List.dropWhile_cons]
    split
    · simp only [List.length_cons]; omega
    · simp

theorem matchLit_len (lit buf r : Text) (h : matchLit lit buf = some r) : r.length + lit.length = buf.length := by
  induction lit generalizing buf with
  | nil => simp [matchLit] at h; subst h; simp
  | cons l ls ih =>
    cases buf with
    | nil => simp [matchLit] at h
    | cons c cs =>
      simp only [matchLit] at h
      split at h
      · have := ih cs h; simp only [List.length_cons]; omega
      · cases h

theorem consumeLit_len (lit buf r : Text) (h : consumeLit lit buf = .ok r) : r.length + lit.length ≤ buf.length := by
  unfold consumeLit at h
  cases hm : matchLit lit buf with
  | none => rw [hm] at h; cases h
  | some x =>
    rw [hm] at h
    injection h with h; subst h
    have := matchLit_len lit buf x hm
    have := lstrip_len x
    omega

theorem dropWhile_len {α} (p : α → Bool) (l : List α) : (l.takeWhile p).length + (l.dropWhile p).length = l.length := by
  induction l with
  | nil => simp
  | cons a as ih =>
    rw [List.takeWhile_cons, List.dropWhile_cons]
    split
    · simp only [List.length_cons]; omega
    · simp

theorem consumeClass_len (p : Char → Bool) (buf tok r : Text) (h : consumeClass p buf = .ok (tok, r)) :
    r.length + 1 ≤ buf.length := by
  unfold consumeClass at h
  split at h
  · cases h
  · rename_i hne
    injection h with h
    injection h with h1 h2
    subst h2
    have := dropWhile_len p buf
    have := lstrip_len (buf.dropWhile p)
    have : 1 ≤ (buf.takeWhile p).length := by
      cases hh : buf.takeWhile p with
      | nil => simp [hh] at hne
      | cons a as => simp
    omega


theorem dimensions_len : ∀ (fuel : Nat) (buf : Text) (sh : List Int) (nm : List Text) (r : Text),
    dimensions fuel buf = .ok (sh, nm, r) → r.length ≤ buf.length := by
  intro fuel
  induction fuel with
  | zero =>
    intro buf sh nm r h
    simp only [dimensions] at h
    split at h
    · injection h with h; injection h with _ h; injection h with _ h; subst h; exact Nat.le_refl _
    · cases h
  | succ f ih =>
    intro buf sh nm r h
    simp only [dimensions] at h
    split at h
    · injection h with h; injection h with _ h; injection h with _ h; subst h; exact Nat.le_refl _
    · cases h1 : consumeLit ['['] buf with
      | error e => rw [h1] at h; cases h
      | ok b1 =>
        have l1 := consumeLit_len _ _ _ h1
        rw [h1] at h; simp only at h
        cases h2 : consumeClass isNameRe b1 with
        | error e => rw [h2] at h; cases h
        | ok p =>
          obtain ⟨tok, b2⟩ := p
          have l2 := consumeClass_len _ _ _ _ h2
          rw [h2] at h; simp only at h
          split at h
          · cases h3 : consumeLit ['='] b2 with
            | error e => rw [h3] at h; cases h
            | ok b3 =>
              have l3 := consumeLit_len _ _ _ h3
              rw [h3] at h; simp only at h
              cases h4 : consumeClass Pydap.isDigit b3 with
              | error e => rw [h4] at h; cases h
              | ok p4 =>
                obtain ⟨tok2, b4⟩ := p4
                have l4 := consumeClass_len _ _ _ _ h4
                rw [h4] at h; simp only at h
                cases h5 : pyInt tok2 with
                | error e => rw [h5] at h; cases h
                | ok n =>
                  rw [h5] at h; simp only at h
                  cases h6 : consumeLit [']'] b4 with
                  | error e => rw [h6] at h; cases h
                  | ok b5 =>
                    have l6 := consumeLit_len _ _ _ h6
                    rw [h6] at h; simp only at h
                    cases h7 : dimensions f b5 with
                    | error e => rw [h7] at h; cases h
                    | ok q =>
                      obtain ⟨sh', nm', b6⟩ := q
                      have l7 := ih b5 sh' nm' b6 h7
                      rw [h7] at h; simp only at h
                      injection h with h; injection h with _ h; injection h with _ h; subst h
                      simp only [List.length_cons, List.length_nil] at *; omega
          · cases h5 : pyInt tok with
            | error e => rw [h5] at h; cases h
            | ok n =>
              rw [h5] at h; simp only at h
              cases h6 : consumeLit [']'] b2 with
              | error e => rw [h6] at h; cases h
              | ok b5 =>
                have l6 := consumeLit_len _ _ _ h6
                rw [h6] at h; simp only at h
                cases h7 : dimensions f b5 with
                | error e => rw [h7] at h; cases h
                | ok q =>
                  obtain ⟨sh', nm', b6⟩ := q
                  have l7 := ih b5 sh' nm' b6 h7
                  rw [h7] at h; simp only at h
                  injection h with h; injection h with _ h; injection h with _ h; subst h
                  simp only [List.length_cons, List.length_nil] at *; omega


/-- one iteration of `dimensions` with the recursive call abstracted -/
def dimStep (rec : Text → Except Err (List Int × List Text × Text)) (buf : Text) :
    Except Err (List Int × List Text × Text) :=
  if peekLit [';'] buf then .ok ([], [], buf) else
  match consumeLit ['['] buf with
  | .error e => .error e
  | .ok b1 =>
  match consumeClass isNameRe b1 with
  | .error e => .error e
  | .ok (tok, b2) =>
  if peekLit ['='] b2 then
    match consumeLit ['='] b2 with
    | .error e => .error e
    | .ok b3 =>
    match consumeClass Pydap.isDigit b3 with
    | .error e => .error e
    | .ok (tok2, b4) =>
    match pyInt tok2 with
    | .error e => .error e
    | .ok n =>
    match consumeLit [']'] b4 with
    | .error e => .error e
    | .ok b5 =>
    match rec b5 with
    | .error e => .error e
    | .ok (sh, nm, b6) => .ok (n :: sh, tok :: nm, b6)
  else
    match pyInt tok with
    | .error e => .error e
    | .ok n =>
    match consumeLit [']'] b2 with
    | .error e => .error e
    | .ok b5 =>
    match rec b5 with
    | .error e => .error e
    | .ok (sh, nm, b6) => .ok (n :: sh, nm, b6)

theorem dimensions_succ (f : Nat) (buf : Text) : dimensions (f + 1) buf = dimStep (dimensions f) buf := by
  rw [dimensions]; rfl

theorem dimStep_congr (rec1 rec2 : Text → Except Err (List Int × List Text × Text)) (buf : Text)
    (h : ∀ b, b.length + 1 ≤ buf.length → rec1 b = rec2 b) : dimStep rec1 buf = dimStep rec2 buf := by
  unfold dimStep
  by_cases hp : peekLit [';'] buf = true
  · rw [if_pos hp, if_pos hp]
  · rw [if_neg hp, if_neg hp]
    cases h1 : consumeLit ['['] buf with
    | error e => rfl
    | ok b1 =>
      have l1 := consumeLit_len _ _ _ h1
      simp only
      cases h2 : consumeClass isNameRe b1 with
      | error e => rfl
      | ok p =>
        obtain ⟨tok, b2⟩ := p
        have l2 := consumeClass_len _ _ _ _ h2
        simp only
        by_cases hq : peekLit ['='] b2 = true
        · rw [if_pos hq, if_pos hq]
          cases h3 : consumeLit ['='] b2 with
          | error e => rfl
          | ok b3 =>
            have l3 := consumeLit_len _ _ _ h3
            simp only
            cases h4 : consumeClass Pydap.isDigit b3 with
            | error e => rfl
            | ok p4 =>
              obtain ⟨tok2, b4⟩ := p4
              have l4 := consumeClass_len _ _ _ _ h4
              simp only
              cases h5 : pyInt tok2 with
              | error e => rfl
              | ok n =>
                simp only
                cases h6 : consumeLit [']'] b4 with
                | error e => rfl
                | ok b5 =>
                  have l6 := consumeLit_len _ _ _ h6
                  simp only
                  rw [h b5 (by simp only [List.length_cons, List.length_nil] at *; omega)]
        · rw [if_neg hq, if_neg hq]
          cases h5 : pyInt tok with
          | error e => rfl
          | ok n =>
            simp only
            cases h6 : consumeLit [']'] b2 with
            | error e => rfl
            | ok b5 =>
              have l6 := consumeLit_len _ _ _ h6
              simp only
              rw [h b5 (by simp only [List.length_cons, List.length_nil] at *; omega)]

theorem dimensions_zero_nil : dimensions 0 [] = dimensions 1 [] := by
  simp [dimensions, peekLit, matchLit, consumeLit]

/-- with fuel ≥ the buffer length, one more unit of fuel changes nothing -/
theorem dimensions_fuel : ∀ (fuel : Nat) (buf : Text), buf.length ≤ fuel → dimensions fuel buf = dimensions (fuel + 1) buf := by
  intro fuel
  induction fuel with
  | zero =>
    intro buf h
    cases buf with
    | nil => exact dimensions_zero_nil
    | cons c cs => simp at h
  | succ f ih =>
    intro buf h
    rw [dimensions_succ, dimensions_succ]
    exact dimStep_congr _ _ buf (fun b hb => ih b (by omega))

theorem dimensions_fuel_ge (buf : Text) (g : Nat) (h : buf.length ≤ g) : dimensions g buf = dimensions buf.length buf := by
  induction g with
  | zero => have : buf.length = 0 := by omega
            rw [this]
  | succ g ih =>
    by_cases hg : buf.length ≤ g
    · rw [← dimensions_fuel g buf hg]; exact ih hg
    · have : buf.length = g + 1 := by omega
      rw [this]

theorem base_len (buf : Text) (v : BaseV) (r : Text) (h : base buf = .ok (v, r)) : r.length + 1 ≤ buf.length := by
  unfold base at h
  cases h1 : consumeClass isWord buf with
  | error e => rw [h1] at h; cases h
  | ok p =>
    obtain ⟨ty, b1⟩ := p
    have l1 := consumeClass_len _ _ _ _ h1
    rw [h1] at h; simp only at h
    cases h2 : lookup Gen.LOWER_DAP2_TO_NUMPY_PARSER_TYPEMAP (lower ty) with
    | none => rw [h2] at h; cases h
    | some dt =>
      rw [h2] at h; simp only at h
      cases h3 : consumeClass notSemiBr b1 with
      | error e => rw [h3] at h; cases h
      | ok p3 =>
        obtain ⟨nm, b2⟩ := p3
        have l3 := consumeClass_len _ _ _ _ h3
        rw [h3] at h; simp only at h
        cases h4 : dimensions b2.length b2 with
        | error e => rw [h4] at h; cases h
        | ok q =>
          obtain ⟨sh, dims, b3⟩ := q
          have l4 := dimensions_len _ _ _ _ _ h4
          rw [h4] at h; simp only at h
          cases h5 : consumeLit [';'] b3 with
          | error e => rw [h5] at h; cases h
          | ok b4 =>
            have l5 := consumeLit_len _ _ _ h5
            rw [h5] at h; simp only at h
            injection h with h; injection h with _ h; subst h
            omega

theorem closing_len (buf nm r : Text) (h : closing buf = .ok (nm, r)) : r.length + 3 ≤ buf.length := by
  unfold closing at h
  cases h1 : consumeLit ['}'] buf with
  | error e => rw [h1] at h; cases h
  | ok b1 =>
    have l1 := consumeLit_len _ _ _ h1
    rw [h1] at h; simp only at h
    cases h2 : consumeClass notSemi b1 with
    | error e => rw [h2] at h; cases h
    | ok p =>
      obtain ⟨n, b2⟩ := p
      have l2 := consumeClass_len _ _ _ _ h2
      rw [h2] at h; simp only at h
      cases h3 : consumeLit [';'] b2 with
      | error e => rw [h3] at h; cases h
      | ok b3 =>
        have l3 := consumeLit_len _ _ _ h3
        rw [h3] at h; simp only at h
        injection h with h; injection h with _ h; subst h
        simp only [List.length_cons, List.length_nil] at *; omega

theorem mapsLoop_len : ∀ (fuel : Nat) (buf : Text) (vs : List BaseV) (r : Text),
    mapsLoop fuel buf = .ok (vs, r) → r.length ≤ buf.length := by
  intro fuel
  induction fuel with
  | zero =>
    intro buf vs r h
    simp only [mapsLoop] at h
    split at h
    · injection h with h; injection h with _ h; subst h; exact Nat.le_refl _
    · cases h
  | succ f ih =>
    intro buf vs r h
    simp only [mapsLoop] at h
    split at h
    · injection h with h; injection h with _ h; subst h; exact Nat.le_refl _
    · cases h1 : base buf with
      | error e => rw [h1] at h; cases h
      | ok p =>
        obtain ⟨v, b1⟩ := p
        have l1 := base_len _ _ _ h1
        rw [h1] at h; simp only at h
        cases h2 : mapsLoop f b1 with
        | error e => rw [h2] at h; cases h
        | ok q =>
          obtain ⟨vs', b2⟩ := q
          have l2 := ih b1 vs' b2 h2
          rw [h2] at h; simp only at h
          injection h with h; injection h with _ h; subst h
          omega

def mapsStep (rec : Text → Except Err (List BaseV × Text)) (buf : Text) : Except Err (List BaseV × Text) :=
  if peekLit ['}'] buf then .ok ([], buf) else
  match base buf with
  | .error e => .error e
  | .ok (v, b1) =>
  match rec b1 with
  | .error e => .error e
  | .ok (vs, b2) => .ok (v :: vs, b2)

theorem mapsLoop_succ (f : Nat) (buf : Text) : mapsLoop (f + 1) buf = mapsStep (mapsLoop f) buf := by
  rw [mapsLoop]; rfl

theorem mapsStep_congr (rec1 rec2 : Text → Except Err (List BaseV × Text)) (buf : Text)
    (h : ∀ b, b.length + 1 ≤ buf.length → rec1 b = rec2 b) : mapsStep rec1 buf = mapsStep rec2 buf := by
  unfold mapsStep
  by_cases hp : peekLit ['}'] buf = true
  · rw [if_pos hp, if_pos hp]
  · rw [if_neg hp, if_neg hp]
    cases h1 : base buf with
    | error e => rfl
    | ok p =>
      obtain ⟨v, b1⟩ := p
      have l1 := base_len _ _ _ h1
      simp only
      rw [h b1 l1]

theorem mapsLoop_fuel : ∀ (fuel : Nat) (buf : Text), buf.length ≤ fuel → mapsLoop fuel buf = mapsLoop (fuel + 1) buf := by
  intro fuel
  induction fuel with
  | zero =>
    intro buf h
    cases buf with
    | nil => simp [mapsLoop, peekLit, matchLit, base, consumeClass]
    | cons c cs => simp at h
  | succ f ih =>
    intro buf h
    rw [mapsLoop_succ, mapsLoop_succ]
    exact mapsStep_congr _ _ buf (fun b hb => ih b (by omega))

theorem mapsLoop_fuel_ge (buf : Text) (n g : Nat) (hn : buf.length ≤ n) (h : n ≤ g) : mapsLoop g buf = mapsLoop n buf := by
  induction g with
  | zero => have : n = 0 := by omega
            rw [this]
  | succ g ih =>
    by_cases hg : n ≤ g
    · rw [← mapsLoop_fuel g buf (by omega)]; exact ih hg
    · have : n = g + 1 := by omega
      rw [this]

theorem grid_len (buf : Text) (t : Tmpl) (r : Text) (h : grid buf = .ok (t, r)) : r.length + 1 ≤ buf.length := by
  unfold grid at h
  cases h1 : consumeLit "grid".toList buf with
  | error e => rw [h1] at h; cases h
  | ok b1 =>
    have l1 := consumeLit_len _ _ _ h1
    rw [h1] at h; simp only at h
    cases h2 : consumeLit ['{'] b1 with
    | error e => rw [h2] at h; cases h
    | ok b2 =>
      have l2 := consumeLit_len _ _ _ h2
      rw [h2] at h; simp only at h
      cases h3 : consumeLit "array".toList b2 with
      | error e => rw [h3] at h; cases h
      | ok b3 =>
        have l3 := consumeLit_len _ _ _ h3
        rw [h3] at h; simp only at h
        cases h4 : consumeLit [':'] b3 with
        | error e => rw [h4] at h; cases h
        | ok b4 =>
          have l4 := consumeLit_len _ _ _ h4
          rw [h4] at h; simp only at h
          cases h5 : base b4 with
          | error e => rw [h5] at h; cases h
          | ok p5 =>
            obtain ⟨arr, b5⟩ := p5
            have l5 := base_len _ _ _ h5
            rw [h5] at h; simp only at h
            cases h6 : consumeLit "maps".toList b5 with
            | error e => rw [h6] at h; cases h
            | ok b6 =>
              have l6 := consumeLit_len _ _ _ h6
              rw [h6] at h; simp only at h
              cases h7 : consumeLit [':'] b6 with
              | error e => rw [h7] at h; cases h
              | ok b7 =>
                have l7 := consumeLit_len _ _ _ h7
                rw [h7] at h; simp only at h
                cases h8 : mapsLoop buf.length b7 with
                | error e => rw [h8] at h; cases h
                | ok p8 =>
                  obtain ⟨maps, b8⟩ := p8
                  have l8 := mapsLoop_len _ _ _ _ h8
                  rw [h8] at h; simp only at h
                  cases h9 : closing b8 with
                  | error e => rw [h9] at h; cases h
                  | ok p9 =>
                    obtain ⟨nm, b9⟩ := p9
                    have l9 := closing_len _ _ _ h9
                    rw [h9] at h; simp only at h
                    injection h with h; injection h with _ h; subst h
                    omega

def declStep (recs : Text → Except Err (List Tmpl × Text)) (buf : Text) : Except Err (Tmpl × Text) :=
  let w := lower (buf.takeWhile isWord)
  if w = "grid".toList then grid buf
  else if w = "sequence".toList ∨ w = "structure".toList then
    match consumeLit w buf with
    | .error e => .error e
    | .ok b1 =>
    match consumeLit ['{'] b1 with
    | .error e => .error e
    | .ok b2 =>
    match recs b2 with
    | .error e => .error e
    | .ok (kids, b3) =>
    match closing b3 with
    | .error e => .error e
    | .ok (nm, b4) =>
      .ok (if w = "sequence".toList then .seq nm (insertAll kids) else .struct nm (insertAll kids), b4)
  else
    match base buf with
    | .error e => .error e
    | .ok (v, b1) => .ok (.base v, b1)

def declsStep (recd : Text → Except Err (Tmpl × Text)) (recs : Text → Except Err (List Tmpl × Text)) (buf : Text) :
    Except Err (List Tmpl × Text) :=
  if peekLit ['}'] buf then .ok ([], buf) else
  match recd buf with
  | .error e => .error e
  | .ok (v, b1) =>
  match recs b1 with
  | .error e => .error e
  | .ok (vs, b2) => .ok (v :: vs, b2)

theorem decl_succ (f : Nat) (buf : Text) : decl (f + 1) buf = declStep (decls f) buf := by
  rw [decl]; rfl

theorem decls_succ (f : Nat) (buf : Text) : decls (f + 1) buf = declsStep (decl f) (decls f) buf := by
  rw [decls]; rfl

theorem declStep_len (recs : Text → Except Err (List Tmpl × Text)) (buf : Text)
    (hrec : ∀ b ts r, recs b = .ok (ts, r) → r.length ≤ b.length)
    (t : Tmpl) (r : Text) (h : declStep recs buf = .ok (t, r)) : r.length + 1 ≤ buf.length := by
  unfold declStep at h
  simp only at h
  split at h
  · exact grid_len _ _ _ h
  · split at h
    · cases h1 : consumeLit (lower (buf.takeWhile isWord)) buf with
      | error e => rw [h1] at h; cases h
      | ok b1 =>
        have l1 := consumeLit_len _ _ _ h1
        rw [h1] at h; simp only at h
        cases h2 : consumeLit ['{'] b1 with
        | error e => rw [h2] at h; cases h
        | ok b2 =>
          have l2 := consumeLit_len _ _ _ h2
          rw [h2] at h; simp only at h
          cases h3 : recs b2 with
          | error e => rw [h3] at h; cases h
          | ok p =>
            obtain ⟨kids, b3⟩ := p
            have l3 := hrec _ _ _ h3
            rw [h3] at h; simp only at h
            cases h4 : closing b3 with
            | error e => rw [h4] at h; cases h
            | ok q =>
              obtain ⟨nm, b4⟩ := q
              have l4 := closing_len _ _ _ h4
              rw [h4] at h; simp only at h
              injection h with h; injection h with _ h; subst h
              simp only [List.length_cons, List.length_nil] at *; omega
    · cases h1 : base buf with
      | error e => rw [h1] at h; cases h
      | ok p =>
        obtain ⟨v, b1⟩ := p
        have l1 := base_len _ _ _ h1
        rw [h1] at h; simp only at h
        injection h with h; injection h with _ h; subst h
        exact l1

theorem declsStep_len (recd : Text → Except Err (Tmpl × Text)) (recs : Text → Except Err (List Tmpl × Text)) (buf : Text)
    (hd : ∀ t r, recd buf = .ok (t, r) → r.length + 1 ≤ buf.length)
    (hs : ∀ b ts r, recs b = .ok (ts, r) → r.length ≤ b.length)
    (ts : List Tmpl) (r : Text) (h : declsStep recd recs buf = .ok (ts, r)) : r.length ≤ buf.length := by
  unfold declsStep at h
  split at h
  · injection h with h; injection h with _ h; subst h; exact Nat.le_refl _
  · cases h1 : recd buf with
    | error e => rw [h1] at h; cases h
    | ok p =>
      obtain ⟨v, b1⟩ := p
      have l1 := hd _ _ h1
      rw [h1] at h; simp only at h
      cases h2 : recs b1 with
      | error e => rw [h2] at h; cases h
      | ok q =>
        obtain ⟨vs, b2⟩ := q
        have l2 := hs _ _ _ h2
        rw [h2] at h; simp only at h
        injection h with h; injection h with _ h; subst h
        omega

theorem decl_decls_len : ∀ (F : Nat),
    (∀ buf t r, decl F buf = .ok (t, r) → r.length + 1 ≤ buf.length) ∧
    (∀ buf ts r, decls F buf = .ok (ts, r) → r.length ≤ buf.length) := by
  intro F
  induction F with
  | zero =>
    refine ⟨fun buf t r h => by simp [decl] at h, fun buf ts r h => ?_⟩
    simp only [decls] at h
    split at h
    · injection h with h; injection h with _ h; subst h; exact Nat.le_refl _
    · cases h
  | succ f ih =>
    refine ⟨fun buf t r h => ?_, fun buf ts r h => ?_⟩
    · rw [decl_succ] at h
      exact declStep_len _ buf (fun b ts r hb => ih.2 b ts r hb) t r h
    · rw [decls_succ] at h
      exact declsStep_len _ _ buf (fun t r hb => ih.1 buf t r hb) (fun b ts r hb => ih.2 b ts r hb) ts r h

theorem declStep_congr (recs1 recs2 : Text → Except Err (List Tmpl × Text)) (buf : Text)
    (h : ∀ b, b.length + 2 ≤ buf.length → recs1 b = recs2 b) : declStep recs1 buf = declStep recs2 buf := by
  unfold declStep
  simp only
  by_cases hg : lower (buf.takeWhile isWord) = "grid".toList
  · rw [if_pos hg, if_pos hg]
  · rw [if_neg hg, if_neg hg]
    by_cases hc : lower (buf.takeWhile isWord) = "sequence".toList ∨ lower (buf.takeWhile isWord) = "structure".toList
    · rw [if_pos hc, if_pos hc]
      cases h1 : consumeLit (lower (buf.takeWhile isWord)) buf with
      | error e => rfl
      | ok b1 =>
        have l1 := consumeLit_len _ _ _ h1
        have lw : 1 ≤ (lower (buf.takeWhile isWord)).length := by
          rcases hc with e | e <;> rw [e] <;> decide
        simp only
        cases h2 : consumeLit ['{'] b1 with
        | error e => rfl
        | ok b2 =>
          have l2 := consumeLit_len _ _ _ h2
          simp only
          rw [h b2 (by simp only [List.length_cons, List.length_nil] at *; omega)]
    · rw [if_neg hc, if_neg hc]

theorem declsStep_congr (recd1 recd2 : Text → Except Err (Tmpl × Text))
    (recs1 recs2 : Text → Except Err (List Tmpl × Text)) (buf : Text)
    (hd : recd1 buf = recd2 buf) (hl : ∀ t r, recd1 buf = .ok (t, r) → r.length + 1 ≤ buf.length)
    (h : ∀ b, b.length + 1 ≤ buf.length → recs1 b = recs2 b) :
    declsStep recd1 recs1 buf = declsStep recd2 recs2 buf := by
  unfold declsStep
  by_cases hp : peekLit ['}'] buf = true
  · rw [if_pos hp, if_pos hp]
  · rw [if_neg hp, if_neg hp, ← hd]
    cases h1 : recd1 buf with
    | error e => rfl
    | ok p =>
      obtain ⟨v, b1⟩ := p
      simp only
      rw [h b1 (hl _ _ h1)]

/-- with enough fuel (buffer length + 1 for `decl`, + 2 for `decls`) one more unit changes nothing -/
theorem decl_decls_fuel : ∀ (F : Nat),
    (∀ buf : Text, buf.length + 1 ≤ F → decl F buf = decl (F + 1) buf) ∧
    (∀ buf : Text, buf.length + 2 ≤ F → decls F buf = decls (F + 1) buf) := by
  intro F
  induction F with
  | zero => exact ⟨fun buf h => by omega, fun buf h => by omega⟩
  | succ f ih =>
    refine ⟨fun buf h => ?_, fun buf h => ?_⟩
    · rw [decl_succ, decl_succ]
      exact declStep_congr _ _ buf (fun b hb => ih.2 b (by omega))
    · rw [decls_succ, decls_succ]
      exact declsStep_congr _ _ _ _ buf (ih.1 buf (by omega)) (fun t r hb => (decl_decls_len f).1 buf t r hb)
        (fun b hb => ih.2 b (by omega))

theorem decls_fuel_ge (buf : Text) (n g : Nat) (hn : buf.length + 2 ≤ n) (h : n ≤ g) : decls g buf = decls n buf := by
  induction g with
  | zero => have : n = 0 := by omega
            rw [this]
  | succ g ih =>
    by_cases hg : n ≤ g
    · rw [← (decl_decls_fuel g).2 buf (by omega)]; exact ih hg
    · have : n = g + 1 := by omega
      rw [this]

end Pydap.Dds
namespace Pydap.Dds
open Pydap

/-- the parser's result does not depend on the fuel once it is at least the text length -/
theorem parseDds_fuel (text : Text) (g : Nat) (h : text.length ≤ g) : parseDdsWith g text = parseDds text := by
  unfold parseDds parseDdsWith
  cases h1 : consumeLit "dataset".toList text with
  | error e => rfl
  | ok b1 =>
    have l1 := consumeLit_len _ _ _ h1
    simp only
    cases h2 : consumeLit ['{'] b1 with
    | error e => rfl
    | ok b2 =>
      have l2 := consumeLit_len _ _ _ h2
      simp only
      have hl : b2.length + 2 ≤ text.length := by
        have : ("dataset".toList).length = 7 := by decide
        simp only [List.length_cons, List.length_nil] at *; omega
      rw [decls_fuel_ge b2 text.length g hl h]

end Pydap.Dds
