import Proofs.DdsFuel
namespace Pydap.Dds
open Pydap

/-! ### the guard of the fixpoint theorem is exact -/

theorem normBase_ok {b : BaseV} (hb : BaseOk b) (sq : Nat) : BaseOk (normBase b sq) := by
  rw [normBase_entries]
  have he := entries_ok hb sq
  refine ⟨hb.1, ?_, ?_⟩
  · intro d hd
    simp only [List.mem_filterMap] at hd
    obtain ⟨e, hem, hed⟩ := hd
    exact (he e hem).2 d hed
  · intro n hn
    simp only [List.mem_map] at hn
    obtain ⟨e, hem, rfl⟩ := hn
    exact (he e hem).1

mutual
theorem normT_wf : (t : Tmpl) → (sq : Nat) → WFT t → WFT (normT t sq)
  | .base b, sq, h => by simp only [WFT] at h; simp only [normT, WFT]; exact normBase_ok h sq
  | .struct n kids, sq, h => by
    simp only [WFT] at h
    simp only [normT, WFT]
    exact ⟨h.1, normL_wf kids sq h.2.1, by rw [normL_names]; exact h.2.2⟩
  | .seq n kids, sq, h => by
    simp only [WFT] at h
    simp only [normT, WFT]
    exact ⟨h.1, normL_wf kids (sq + 1) h.2.1, by rw [normL_names]; exact h.2.2⟩
  | .grid n kids, sq, h => by
    simp only [WFT] at h
    simp only [normT, WFT]
    refine ⟨h.1, ?_, ?_⟩
    · intro b hb
      simp only [List.mem_map] at hb
      obtain ⟨a, ha, rfl⟩ := hb
      exact normBase_ok (h.2.1 a ha) sq
    · have : (kids.map fun b => normBase b sq).map (·.name) = kids.map (·.name) := by
        simp [Function.comp_def, normBase_entries]
      rw [this]; exact h.2.2
theorem normL_wf : (ts : List Tmpl) → (sq : Nat) → WFL ts → WFL (normL ts sq)
  | [], sq, h => by simp [normL, WFL]
  | t :: ts, sq, h => by
    simp only [WFL] at h
    simp only [normL, WFL]
    exact ⟨normT_wf t sq h.1, normL_wf ts sq h.2⟩
end

theorem normDs_wf (d : Dataset) (h : WFds d) : WFds (normDs d) :=
  ⟨h.1, normL_wf d.kids 0 h.2.1, by simp only [normDs]; rw [normL_names]; exact h.2.2⟩

theorem normBase_shape_len (c : BaseV) (sq : Nat) :
    ((normBase c sq).shape).length
      = if c.dims ≠ [] then min c.dims.length (c.shape.length - sq) else c.shape.length - sq := by
  unfold normBase
  simp only
  by_cases h1 : c.dims ≠ []
  · rw [if_pos h1, if_pos h1]; simp [List.length_zip]
  · rw [if_neg h1, if_neg h1]
    by_cases h2 : (List.drop sq c.shape).length = 1
    · rw [if_pos h2]; simp
    · rw [if_neg h2]; simp

/-- normalising twice changes a base variable's shape unless it was a column -/
theorem normBase_idem_cols (b : BaseV) (sq : Nat) (h : normBase (normBase b sq) sq = normBase b sq) : ColsB b sq := by
  by_cases hsq : sq = 0
  · exact Or.inl hsq
  · right
    have hlen : ((normBase (normBase b sq) sq).shape).length = ((normBase b sq).shape).length := by rw [h]
    have k1 := normBase_shape_len (normBase b sq) sq
    have k2 := normBase_shape_len b sq
    have hd : 1 ≤ b.dims.length ∨ b.dims = [] := by
      cases hdd : b.dims with
      | nil => exact Or.inr rfl
      | cons a as => left; simp
    rw [hlen] at k1
    generalize ((normBase b sq).shape).length = L at k1 k2
    generalize (normBase b sq).dims = D at k1
    split at k1 <;> split at k2 <;> rcases hd with hd | hd <;> first | omega | (simp [hd] at *; omega) | (exfalso; simp_all)

mutual
theorem normT_idem_cols : (t : Tmpl) → (sq : Nat) → normT (normT t sq) sq = normT t sq → ColsT t sq
  | .base b, sq, h => by
    simp only [normT, Tmpl.base.injEq] at h
    simp only [ColsT]; exact normBase_idem_cols b sq h
  | .struct n kids, sq, h => by
    simp only [normT, Tmpl.struct.injEq, true_and] at h
    simp only [ColsT]; exact normL_idem_cols kids sq h
  | .seq n kids, sq, h => by
    simp only [normT, Tmpl.seq.injEq, true_and] at h
    simp only [ColsT]; exact normL_idem_cols kids (sq + 1) h
  | .grid n kids, sq, h => by
    simp only [normT, Tmpl.grid.injEq, true_and, List.map_map] at h
    simp only [ColsT]
    intro b hb
    have := List.map_inj_left.mp h b hb
    exact normBase_idem_cols b sq this
theorem normL_idem_cols : (ts : List Tmpl) → (sq : Nat) → normL (normL ts sq) sq = normL ts sq → ColsL ts sq
  | [], sq, h => by simp [ColsL]
  | t :: ts, sq, h => by
    simp only [normL, List.cons.injEq] at h
    simp only [ColsL]
    exact ⟨normT_idem_cols t sq h.1, normL_idem_cols ts sq h.2⟩
end

/-- exactness: for a well-formed dataset that prints, printing its parse reproduces the text IF AND ONLY IF sequence
    members are columns -/
theorem fixpoint_iff (d : Dataset) (s : Text) (hwf : WFds d) (hp : printDs d = .ok s) :
    printDs (normDs d) = .ok s ↔ ColsL d.kids 0 := by
  constructor
  · intro h
    have h1 := parse_print d s hp hwf
    have h2 := parse_print (normDs d) s h (normDs_wf d hwf)
    rw [h1] at h2
    have h3 : normDs d = normDs (normDs d) := Except.ok.inj h2
    have h4 : normL (normL d.kids 0) 0 = normL d.kids 0 := by
      have := congrArg Dataset.kids h3
      simpa [normDs] using this.symm
    exact normL_idem_cols d.kids 0 h4
  · intro h
    rw [printDs_norm d h, hp]

end Pydap.Dds
