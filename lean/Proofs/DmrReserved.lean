/-
  C11: the guard of the open finding `C11.reserved_attribute_name` spelled out.
  `Spec.ok` (the domain of `C11_parse` and of everything built on it) = `Spec.ok0` (the property's domain)
  + `Spec.noReserved` (no variable declares an attribute named `Maps` or `path`).
-/
import PydapModel.DmrSpec
namespace Pydap.Dmr

theorem Spec.ok_iff (s : Spec) : s.ok ↔ s.ok0 ∧ s.noReserved := by
  induction s with
  | nil => simp [Spec.ok, Spec.ok0, Spec.noReserved]
  | dim n sz rest ih => simp only [Spec.ok, Spec.ok0, Spec.noReserved, ih]; grind
  | var v rest ih => simp only [Spec.ok, Spec.ok0, Spec.noReserved, SVar.ok, SVar.ok0, ih]; grind
  | attr a rest ih => simp only [Spec.ok, Spec.ok0, Spec.noReserved, ih]; grind
  | group n body rest ihb ihr => simp only [Spec.ok, Spec.ok0, Spec.noReserved, ihb, ihr]; grind

end Pydap.Dmr
