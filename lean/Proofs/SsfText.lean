/-
  C19, transparency from the query TEXT: a constraint whose (unquoted) text holds no `(` has no call —
  neither a call item in the projection nor a call clause in the selection.
-/
import PydapModel.Ssf
import Proofs.Ssf
namespace Pydap.Ssf
open Pydap Pydap.Handler

theorem splitOnChar_mem (sep : Char) : ∀ (l : List Char) (g : List Char), g ∈ splitOnChar sep l → ∀ c ∈ g, c ∈ l
  | [], g, hg, c, hc => by
    simp only [splitOnChar, List.mem_cons, List.not_mem_nil, or_false] at hg
    subst hg; exact hc
  | x :: xs, g, hg, c, hc => by
    simp only [splitOnChar] at hg
    split at hg
    · simp only [List.mem_cons, List.not_mem_nil, or_false] at hg
      subst hg; simp at hc
    · rename_i g0 gs heq
      have ih := splitOnChar_mem sep xs
      split at hg
      · simp only [List.mem_cons] at hg
        rcases hg with rfl | rfl | hg
        · simp at hc
        · exact List.mem_cons_of_mem _ (ih _ (by rw [heq]; simp) c hc)
        · exact List.mem_cons_of_mem _ (ih _ (by rw [heq]; simp [hg]) c hc)
      · simp only [List.mem_cons] at hg
        rcases hg with rfl | hg
        · simp only [List.mem_cons] at hc
          rcases hc with rfl | hc
          · simp
          · exact List.mem_cons_of_mem _ (ih _ (by rw [heq]; simp) c hc)
        · exact List.mem_cons_of_mem _ (ih _ (by rw [heq]; simp [hg]) c hc)

theorem tokTop_mem (key : Char) : ∀ (s : Str) (n : Int) (cur : Str) (t : Str), t ∈ tokTop key s n cur →
    ∀ c ∈ t, c ∈ s ∨ c ∈ cur
  | [], n, cur, t, ht, c, hc => by
    simp only [tokTop, List.mem_cons, List.not_mem_nil, or_false] at ht
    subst ht; exact Or.inr (by simpa using hc)
  | x :: xs, n, cur, t, ht, c, hc => by
    have ih := tokTop_mem key xs
    have step : ∀ m, t ∈ tokTop key xs m (x :: cur) → c ∈ x :: xs ∨ c ∈ cur := by
      intro m h
      rcases ih m (x :: cur) t h c hc with h1 | h1
      · exact Or.inl (List.mem_cons_of_mem _ h1)
      · rcases List.mem_cons.1 h1 with rfl | h2
        · exact Or.inl (by simp)
        · exact Or.inr h2
    simp only [tokTop] at ht
    split at ht
    · exact step _ ht
    · split at ht
      · exact step _ ht
      · split at ht
        · rcases List.mem_cons.1 ht with rfl | h
          · exact Or.inr (by simpa using hc)
          · rcases ih n [] t h c hc with h1 | h1
            · exact Or.inl (List.mem_cons_of_mem _ h1)
            · simp at h1
        · exact step _ ht

theorem dropWhile_no_paren : ∀ (s : Str), '(' ∉ s → s.dropWhile (· ≠ '(') = []
  | [], _ => rfl
  | c :: cs, h => by
    have hc : c ≠ '(' := fun e => h (by simp [e])
    simp only [List.dropWhile_cons, hc, ne_eq, not_false_eq_true, decide_true, ↓reduceIte]
    exact dropWhile_no_paren cs (fun e => h (by simp [e]))

theorem functionMatch_no_paren (s : Str) (h : '(' ∉ s) : functionMatch s = none := by
  unfold functionMatch
  rw [dropWhile_no_paren s h]

theorem isCallSel_no_paren (s : Str) (h : '(' ∉ s) : isCallSel s = false := by
  simp [isCallSel, functionMatch_no_paren s h]

theorem parseProjToken_no_paren (t : Str) (p : ProjItem) (h : '(' ∉ t) (hp : parseProjToken t = .ok p) :
    isCallItem p = false := by
  unfold parseProjToken at hp
  have hc : t.contains '(' = false := by simpa using h
  simp only [hc, Bool.false_eq_true, ↓reduceIte] at hp
  split at hp
  · simp only [Except.ok.injEq] at hp; subst hp; rfl
  · simp at hp

theorem mapM_parseProj_no_paren : ∀ (ts : List Str) (ps : List ProjItem), (∀ t ∈ ts, '(' ∉ t) →
    ts.mapM parseProjToken = .ok ps → ps.any isCallItem = false
  | [], ps, _, h => by
    simp only [List.mapM_nil, pure, Except.pure, Except.ok.injEq] at h
    subst h; rfl
  | t :: ts, ps, hn, h => by
    rw [List.mapM_cons] at h
    cases h1 : parseProjToken t with
    | error e => simp [h1, bind, Except.bind] at h
    | ok q =>
      cases h2 : ts.mapM parseProjToken with
      | error e => simp [h1, h2, bind, Except.bind] at h
      | ok qs =>
        simp only [h1, h2, bind, Except.bind, pure, Except.pure, Except.ok.injEq] at h
        subst h
        simp only [List.any_cons, parseProjToken_no_paren t q (hn t (by simp)) h1, Bool.false_or]
        exact mapM_parseProj_no_paren ts qs (fun x hx => hn x (by simp [hx])) h2

/-- **no `(` in the unquoted constraint text ⇒ the middleware's own test finds no call** -/
theorem hasCall_no_paren (q : Str) (proj : List ProjItem) (sel : List Str) (hq : parseCE q = .ok (proj, sel))
    (hn : '(' ∉ unquote q) : hasCall proj sel = false := by
  have htok : ∀ t ∈ (splitOnChar '&' (unquote q)).filter (· ≠ []), '(' ∉ t := by
    intro t ht hc
    exact hn (splitOnChar_mem '&' _ t (List.mem_filter.1 ht).1 _ hc)
  unfold parseCE at hq
  split at hq
  · simp at hq
  · simp only at hq
    split at hq
    · simp only [Except.ok.injEq, Prod.mk.injEq] at hq
      obtain ⟨rfl, rfl⟩ := hq; rfl
    · rename_i t0 rest heq
      rw [heq] at htok
      split at hq
      · simp only [Except.ok.injEq, Prod.mk.injEq] at hq
        obtain ⟨rfl, rfl⟩ := hq
        simp only [hasCall, List.any_nil, Bool.or_false, List.any_eq_false]
        intro s hs
        simp [isCallSel_no_paren s (htok s (heq ▸ hs))]
      · split at hq
        · rename_i p hp
          simp only [Except.ok.injEq, Prod.mk.injEq] at hq
          obtain ⟨rfl, rfl⟩ := hq
          have h0 : '(' ∉ t0 := htok t0 (by simp)
          have hp' := mapM_parseProj_no_paren _ _ (fun t ht hc => by
            rcases tokTop_mem ',' t0 0 [] t ht _ hc with h | h
            · exact h0 h
            · simp at h) hp
          simp only [hasCall, hp', Bool.or_false, List.any_eq_false]
          intro s hs
          simp [isCallSel_no_paren s (htok s (by simp [hs]))]
        · simp at hq

end Pydap.Ssf
