/-
  C10 / C09: `stream2bytearray` (the C10 model, `PydapModel/Dap4.lean`) on cut streams, in general:
  a result is stable under extension of the data, every error is `EOFError`, an accepted stream holds every
  byte it announced — hence every accepted stream is prefix-free and every proper prefix of a conforming
  stream (and of a whole response) is refused.
-/
import Proofs.Dap4
namespace Pydap.Dap4

/-- the loop raises nothing but `EOFError` -/
theorem chunkBodies_err (h : Bool) : ∀ (f : Nat) (d : Bytes) (e : Err), chunkBodies h f d = .error e → e = .eofError := by
  intro f
  induction f with
  | zero =>
    intro d e he
    cases d with
    | nil => simp [chunkBodies] at he; exact he.symm
    | cons a t => simp [chunkBodies] at he; exact he.symm
  | succ f ih =>
    intro d e he
    match d, he with
    | [], he => simp [chunkBodies] at he; exact he.symm
    | [_], he => simp [chunkBodies] at he; exact he.symm
    | [_, _], he => simp [chunkBodies] at he; exact he.symm
    | [_, _, _], he => simp [chunkBodies] at he; exact he.symm
    | b0 :: b1 :: b2 :: b3 :: rest, he =>
      simp only [chunkBodies] at he
      split at he
      · cases he; rfl
      · split at he
        · cases he
        · cases hr : chunkBodies h f (List.drop (chunkSize (be32 b0 b1 b2 b3)) rest) with
          | error e' => rw [hr] at he; simp [Except.map] at he; rw [← he]; exact ih _ _ hr
          | ok v => rw [hr] at he; simp [Except.map] at he

/-- a decoded stream stays decoded, to the same chunks, when bytes are appended (and fuel added) -/
theorem chunkBodies_extend (h : Bool) : ∀ (f : Nat) (d : Bytes) (bs : List Bytes), chunkBodies h f d = .ok bs →
    ∀ (t : Bytes) (f' : Nat), f ≤ f' → chunkBodies h f' (d ++ t) = .ok bs := by
  intro f
  induction f with
  | zero =>
    intro d bs hb
    cases d <;> simp [chunkBodies] at hb
  | succ f ih =>
    intro d bs hb t f' hf
    obtain ⟨g, rfl⟩ : ∃ g, f' = g + 1 := ⟨f' - 1, by omega⟩
    match d, hb with
    | [], hb => simp [chunkBodies] at hb
    | [_], hb => simp [chunkBodies] at hb
    | [_, _], hb => simp [chunkBodies] at hb
    | [_, _, _], hb => simp [chunkBodies] at hb
    | b0 :: b1 :: b2 :: b3 :: rest, hb =>
      simp only [chunkBodies, List.cons_append] at hb ⊢
      split at hb
      · cases hb
      · rename_i hlen
        have hlen' : ¬ (rest ++ t).length < chunkSize (be32 b0 b1 b2 b3) := by
          simp only [List.length_append]; omega
        rw [if_neg hlen']
        have htake : (rest ++ t).take (chunkSize (be32 b0 b1 b2 b3)) = rest.take (chunkSize (be32 b0 b1 b2 b3)) :=
          List.take_append_of_le_length (by omega)
        have hdrop : (rest ++ t).drop (chunkSize (be32 b0 b1 b2 b3)) = rest.drop (chunkSize (be32 b0 b1 b2 b3)) ++ t :=
          List.drop_append_of_le_length (by omega)
        rw [htake, hdrop]
        split at hb
        · rename_i hl; rw [if_pos hl]; exact hb
        · rename_i hl
          rw [if_neg hl]
          cases hr : chunkBodies h f (List.drop (chunkSize (be32 b0 b1 b2 b3)) rest) with
          | error e' => rw [hr] at hb; simp [Except.map] at hb
          | ok v =>
            rw [hr] at hb
            rw [ih _ v hr t g (by omega)]
            exact hb

/-- an accepted stream holds, for every chunk it returns, the four header bytes and the body -/
theorem chunkBodies_length (h : Bool) : ∀ (f : Nat) (d : Bytes) (bs : List Bytes), chunkBodies h f d = .ok bs →
    (bs.map fun b => 4 + b.length).sum ≤ d.length := by
  intro f
  induction f with
  | zero => intro d bs hb; cases d <;> simp [chunkBodies] at hb
  | succ f ih =>
    intro d bs hb
    match d, hb with
    | [], hb => simp [chunkBodies] at hb
    | [_], hb => simp [chunkBodies] at hb
    | [_, _], hb => simp [chunkBodies] at hb
    | [_, _, _], hb => simp [chunkBodies] at hb
    | b0 :: b1 :: b2 :: b3 :: rest, hb =>
      simp only [chunkBodies] at hb
      split at hb
      · cases hb
      · rename_i hlen
        split at hb
        · cases hb
          simp only [List.map_cons, List.map_nil, List.sum_cons, List.sum_nil, List.length_take, List.length_cons]
          omega
        · cases hr : chunkBodies h f (List.drop (chunkSize (be32 b0 b1 b2 b3)) rest) with
          | error e' => rw [hr] at hb; simp [Except.map] at hb
          | ok v =>
            rw [hr] at hb
            simp [Except.map] at hb
            subst hb
            have := ih _ v hr
            simp only [List.length_drop] at this
            simp only [List.map_cons, List.sum_cons, List.length_take, List.length_cons]
            omega

theorem chunkEncode_length (little : Bool) : ∀ cs : List Bytes,
    (chunkEncode little cs).length = (cs.map fun b => 4 + b.length).sum
  | [] => rfl
  | [c] => by simp [chunkEncode, chunkHeader]; omega
  | c :: d :: cs => by
    rw [chunkEncode_cons2]
    simp only [List.length_append, chunkEncode_length little (d :: cs), List.map_cons, List.sum_cons]
    simp [chunkHeader]

/-- **every accepted stream is prefix-free**: whatever `stream2bytearray` makes of `b`, on a prefix of `b` it
    returns the same buffer or raises `EOFError` -/
theorem stream2bytearray_prefix_free (h : Bool) (b p buf : Bytes) (hb : stream2bytearray h b = .ok buf) (hp : p <+: b) :
    stream2bytearray h p = .ok buf ∨ stream2bytearray h p = .error .eofError := by
  obtain ⟨t, rfl⟩ := hp
  unfold stream2bytearray at hb ⊢
  cases hr : chunkBodies h p.length p with
  | error e => right; rw [chunkBodies_err h _ _ e hr]; rfl
  | ok bs =>
    left
    rw [chunkBodies_extend h _ _ bs hr t (p ++ t).length (by simp)] at hb
    exact hb

/-- **every proper prefix of a conforming stream is refused** -/
theorem stream2bytearray_cut (little : Bool) (cs : List Bytes) (hs : SmallChunks cs) (hne : cs ≠ []) (p : Bytes)
    (hp : p <+: chunkEncode little cs) (hn : p ≠ chunkEncode little cs) :
    stream2bytearray true p = .error .eofError := by
  unfold stream2bytearray
  cases hr : chunkBodies true p.length p with
  | error e => rw [chunkBodies_err true _ _ e hr]; rfl
  | ok bs =>
    exfalso
    obtain ⟨t, ht⟩ := hp
    have h1 := chunkBodies_extend true _ _ bs hr t (chunkEncode little cs).length (by rw [← ht]; simp)
    rw [ht] at h1
    have h2 := chunkBodies_encode little cs hne hs [] _ (chunkEncode_length_ge little cs)
    rw [List.append_nil] at h2
    rw [h2] at h1
    cases h1
    have h3 := chunkBodies_length true _ _ _ hr
    rw [← chunkEncode_length little] at h3
    apply hn
    have : t = [] := by
      have := congrArg List.length ht
      simp only [List.length_append] at this
      exact List.eq_nil_of_length_eq_zero (by omega)
    rw [← ht, this, List.append_nil]

/-- **… and so is every proper prefix of a whole response** (DMR chunk + data chunks), wherever it is cut: inside the
    first header, inside the DMR, inside a data chunk header or body, or at a chunk boundary -/
theorem unpackResponse_cut (little : Bool) (layoutsOf : Bytes → Except Err (List Layout)) (ls : List Layout)
    (dmr : Bytes) (chunks : List Bytes) (hd : dmr.length < 16777216) (hl : layoutsOf dmr = .ok ls)
    (hc : SmallChunks chunks) (hne : chunks ≠ []) (p : Bytes)
    (hp : p <+: encodeResponse little dmr chunks) (hn : p ≠ encodeResponse little dmr chunks) :
    unpackResponse true layoutsOf p = .error .eofError := by
  unfold encodeResponse at hp hn
  by_cases hlen : p.length < 4 + dmr.length
  · -- cut inside the DMR chunk
    have hsafe : safeDmrAndData true p = .error .eofError := by
      obtain ⟨t, ht⟩ := hp
      match p, ht, hlen with
      | [], _, _ => rfl
      | [_], _, _ => rfl
      | [_, _], _, _ => rfl
      | [_, _, _], _, _ => rfl
      | b0 :: b1 :: b2 :: b3 :: rest, ht, hlen =>
        simp only [chunkHeader, List.cons_append, List.nil_append, List.cons.injEq] at ht
        obtain ⟨rfl, rfl, rfl, rfl, _⟩ := ht
        simp only [safeDmrAndData]
        rw [header_size _ _ (flagsByte_lt _ _ _) hd]
        simp only [List.length_cons] at hlen
        rw [if_pos (by omega)]
    simp [unpackResponse, hsafe, bind, Except.bind]
  · -- the DMR chunk is complete: the data part is a proper prefix of the data chunks
    obtain ⟨t, ht⟩ := hp
    have hpre : (chunkHeader (flagsByte false false little) dmr.length ++ dmr) <+: p := by
      apply List.prefix_of_prefix_length_le (l₃ := p ++ t)
      · rw [ht, List.append_assoc]; exact List.prefix_append _ _
      · exact List.prefix_append _ _
      · simp [chunkHeader]; omega
    obtain ⟨q, rfl⟩ := hpre
    have hq : q ++ t = chunkEncode little chunks := by
      rw [List.append_assoc] at ht
      exact List.append_cancel_left ht
    have hqn : q ≠ chunkEncode little chunks := fun e => hn (by rw [e])
    unfold unpackResponse
    rw [safeDmrAndData_encode false false little dmr q hd]
    simp only [bind, Except.bind, hl, stream2bytearray_cut little chunks hc hne q ⟨t, hq⟩ hqn]

end Pydap.Dap4
