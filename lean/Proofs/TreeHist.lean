/-
  C12 — histories over the full operation alphabet {new, set/replace, delete, copy, select-by-tuple,
  assign data, set attribute}: the store invariant (every live root satisfies `invE`; no object identity
  occurs twice in the whole store; every identity is below the allocation counter), freshness of what
  `copy`/selection return, and the frame condition.
-/
import PydapModel.Heap
import Proofs.Quote
import Proofs.Tree
import Proofs.TreeCopy
import Proofs.TreeSep
namespace Pydap.Tree
open Pydap.Quote

def optOids : Option Obj → List Nat
  | some o => o.oids
  | none => []

theorem oids_eq (s : State) : s.oids = s.handles.flatMap optOids := by
  unfold State.oids
  congr 1

theorem get_some (s : State) (h : Nat) (o : Obj) (hg : s.get h = .ok o) : s.handles[h]? = some (some o) := by
  unfold State.get at hg
  split at hg
  · rename_i x hx; cases hg; exact hx
  · cases hg

theorem count_set (i : Nat) (l : List (Option Obj)) : ∀ h a x, l[h]? = some a →
    ((l.set h x).flatMap optOids).count i + (optOids a).count i
      = (l.flatMap optOids).count i + (optOids x).count i := by
  induction l with
  | nil => intro h a x hh; simp at hh
  | cons b t ih =>
    intro h a x hh
    cases h with
    | zero =>
      simp only [List.getElem?_cons_zero, Option.some.injEq] at hh
      subst hh
      simp only [List.set_cons_zero, List.flatMap_cons, List.count_append]; omega
    | succ h =>
      simp only [List.getElem?_cons_succ] at hh
      have := ih h a x hh
      simp only [List.set_cons_succ, List.flatMap_cons, List.count_append]; omega

/-- the objects of two different handles are counted separately in the store -/
theorem count_two (i : Nat) (l : List (Option Obj)) (j k : Nat) (a b : Option Obj) (hjk : j ≠ k)
    (hj : l[j]? = some a) (hk : l[k]? = some b) :
    (optOids a).count i + (optOids b).count i ≤ (l.flatMap optOids).count i := by
  have h1 := count_set i l j a none hj
  have hk' : (l.set j none)[k]? = some b := by rw [List.getElem?_set_ne hjk]; exact hk
  have h2 := count_set i (l.set j none) k b none hk'
  have e : optOids none = [] := rfl
  rw [e] at h1 h2
  simp only [List.count_nil] at h1 h2
  omega

/-- identities: none twice in the whole store, all below the allocation counter -/
def OidInv (s : State) : Prop := ∀ i, s.oids.count i ≤ 1 ∧ (s.next ≤ i → s.oids.count i = 0)

theorem oidInv_iff (s : State) : OidInv s ↔ (s.oids.Nodup ∧ ∀ i ∈ s.oids, i < s.next) := by
  constructor
  · intro h
    refine ⟨List.nodup_iff_count.2 (fun i => (h i).1), ?_⟩
    intro i hi
    have := List.count_pos_iff.2 hi
    have := (h i).2
    omega
  · rintro ⟨h1, h2⟩ i
    refine ⟨List.nodup_iff_count.1 h1 i, ?_⟩
    intro hn
    apply List.count_eq_zero.2
    intro hm
    have := h2 i hm
    omega

def AllInvE (s : State) : Prop := ∀ o, some o ∈ s.handles → invE o

/-- the invariant of the store -/
def Good (s : State) : Prop := AllInvE s ∧ OidInv s

theorem good_init : Good State.init :=
  ⟨fun _ hm => by simp [State.init] at hm, fun i => by simp [State.init, State.oids]⟩

/-- a new handle holding objects allocated from the counter upwards -/
theorem good_append (s : State) (r : Obj) (n : Nat) (hs : Good s) (hr : invE r) (hn : s.next ≤ n)
    (hf : Fresh s.next n r.oids) : Good ⟨s.handles ++ [some r], n⟩ := by
  refine ⟨?_, ?_⟩
  · intro o hm
    simp only [List.mem_append, List.mem_singleton] at hm
    rcases hm with hm | hm
    · exact hs.1 o hm
    · cases hm; exact hr
  · intro i
    have a := hs.2 i
    have b := hf i
    simp only [oids_eq, List.flatMap_append, List.count_append, List.flatMap_cons, List.flatMap_nil,
      List.append_nil, optOids] at a ⊢
    omega

/-- one handle rewritten by an edit that does not duplicate identities -/
theorem good_set (s : State) (h : Nat) (o o' : Obj) (hs : Good s) (hg : s.get h = .ok o) (ho' : invE o')
    (hc : ∀ i, o'.oids.count i ≤ o.oids.count i) : Good ⟨s.handles.set h (some o'), s.next⟩ := by
  refine ⟨?_, ?_⟩
  · intro x hm
    rcases List.mem_or_eq_of_mem_set hm with hm | hm
    · exact hs.1 x hm
    · cases hm; exact ho'
  · intro i
    have a := hs.2 i
    have b := count_set i s.handles h _ (some o') (get_some s h o hg)
    have c := hc i
    simp only [oids_eq, optOids] at a b ⊢
    omega

/-- `container[key] = root`: the root handle is consumed, its objects now live below the container -/
theorem good_set2 (s : State) (h src : Nat) (o item o' : Obj) (hs : Good s) (hne : h ≠ src)
    (hg : s.get h = .ok o) (hg2 : s.get src = .ok item) (ho' : invE o')
    (hc : ∀ i, o'.oids.count i ≤ o.oids.count i + item.oids.count i) :
    Good ⟨(s.handles.set h (some o')).set src none, s.next⟩ := by
  refine ⟨?_, ?_⟩
  · intro x hm
    rcases List.mem_or_eq_of_mem_set hm with hm | hm
    · rcases List.mem_or_eq_of_mem_set hm with hm | hm
      · exact hs.1 x hm
      · cases hm; exact ho'
    · cases hm
  · intro i
    have a := hs.2 i
    have b := count_set i s.handles h _ (some o') (get_some s h o hg)
    have hk' : (s.handles.set h (some o'))[src]? = some (some item) := by
      rw [List.getElem?_set_ne hne]; exact get_some s src item hg2
    have b2 := count_set i _ src _ none hk'
    have c := hc i
    simp only [oids_eq, optOids, List.count_nil] at a b b2 ⊢
    omega

/-- the names a history may construct variables with: the quoted name has no `.` (a raw `.` survives only in a
    `dap4` prefix) and no literal `%2E`; every other operation is unrestricted -/
def Op.ok : Op → Prop
  | .new _ name _ => (quote name).contains dot = false ∧ nameEsc (quote name) = true
  | _ => True

/-- `Op.ok` is the executable `Op.scope` the correspondence run evaluates on every generated history -/
theorem Op.ok_iff_scope (op : Op) : op.ok ↔ op.scope = true := by
  cases op <;> simp [Op.ok, Op.scope]

theorem get_invE (s : State) (h : Nat) (o : Obj) (hs : Good s) (hg : s.get h = .ok o) : invE o :=
  hs.1 o (List.mem_of_getElem? (get_some s h o hg))

/-- `modifyAt` of an edit that keeps `invE` and the head keeps them for the root -/
theorem modifyAt_invE (g : Obj → Except Err Obj)
    (h1 : ∀ o r, invO o → g o = .ok r → invO r ∧ sameHead o r)
    (h2 : ∀ o r, escO o = true → g o = .ok r → escO r = true) (path : List Str) (o r : Obj)
    (ho : invE o) (h : modifyAt g path o = .ok r) : invE r :=
  ⟨(modifyAt_inv g h1 path o r ho.1 h).1, modifyAt_esc g h2 path o r ho.2 h⟩

theorem stepE_good (s s' : State) (op : Op) (hs : Good s) (he : op.ok) (h : stepE s op = .ok s') : Good s' := by
  cases op with
  | new kind name atom =>
    simp only [stepE] at h
    cases h
    refine good_append s _ _ hs (mkObj_invE _ _ _ _ _ he.1 he.2) (by omega) ?_
    intro i
    rw [show ∀ d, (mkObj s.next kind name [] d).oids = [s.next] from fun _ => rfl]
    simp only [List.count_singleton]
    by_cases hi : s.next = i
    · subst hi; simp
    · have : (s.next == i) = false := by simpa using hi
      simp [this]
  | set hh path key src =>
    simp only [stepE, bind, Except.bind, pure, Except.pure, throw, throwThe, MonadExceptOf.throw] at h
    split at h; · cases h
    rename_i hne
    cases h1 : s.get hh with
    | error e => rw [h1] at h; cases h
    | ok o =>
      rw [h1] at h; simp only at h
      cases h2 : s.get src with
      | error e => rw [h2] at h; cases h
      | ok item =>
        rw [h2] at h; simp only at h
        cases h3 : modifyAt (fun c => setItem c key item) path o with
        | error e => rw [h3] at h; cases h
        | ok o' =>
          rw [h3] at h; cases h
          have hi := get_invE s src item hs h2
          have ho := get_invE s hh o hs h1
          have hie : nameEsc item.hdr.name = true := (invE_name item hi).2.2
          refine good_set2 s hh src o item o' hs hne h1 h2 ?_ ?_
          · exact modifyAt_invE _
              (fun c r hc hr => setItem_inv c item r key hc hi.1
                (fun _ => dsKeyOk_of_esc key _ (setItem_decomp c item r key hr).2.1 hie) hr)
              (fun c r hc hr => setItem_esc c item r key hc hi.2 hr) path o o' ho h3
          · intro i
            exact modifyAt_count i _ _ (fun c r hr => setItem_count i c item r key hr) path o o' h3
  | del hh path key =>
    simp only [stepE, bind, Except.bind, pure, Except.pure] at h
    cases h1 : s.get hh with
    | error e => rw [h1] at h; cases h
    | ok o =>
      rw [h1] at h; simp only at h
      cases h3 : modifyAt (fun c => delItem c key) path o with
      | error e => rw [h3] at h; cases h
      | ok o' =>
        rw [h3] at h; cases h
        have ho := get_invE s hh o hs h1
        refine good_set s hh o o' hs h1 ?_ ?_
        · exact modifyAt_invE _
            (fun c r hc hr => ⟨(delItem_inv c r key hc hr).1, (delItem_inv c r key hc hr).2.1⟩)
            (fun c r hc hr => delItem_esc c r key hc hr) path o o' ho h3
        · intro i
          have := modifyAt_count i 0 _ (fun c r hr => by have := delItem_count i c r key hr; omega) path o o' h3
          omega
  | copy hh path =>
    simp only [stepE, bind, Except.bind, pure, Except.pure] at h
    cases h1 : s.get hh with
    | error e => rw [h1] at h; cases h
    | ok o =>
      rw [h1] at h; simp only at h
      cases h2 : navigate path o with
      | error e => rw [h2] at h; cases h
      | ok c =>
        rw [h2] at h; simp only at h
        cases h3 : copyObj s.next c with
        | error e => rw [h3] at h; cases h
        | ok p =>
          obtain ⟨r, n⟩ := p
          rw [h3] at h; cases h
          have hc := navigate_invE path o c (get_invE s hh o hs h1) h2
          obtain ⟨f1, f2⟩ := copyObj_fresh s.next c r n h3
          exact good_append s r n hs (copyObj_spec s.next c r n hc h3).1 f1 f2
  | select hh path keys =>
    simp only [stepE, bind, Except.bind, pure, Except.pure] at h
    cases h1 : s.get hh with
    | error e => rw [h1] at h; cases h
    | ok o =>
      rw [h1] at h; simp only at h
      cases h2 : navigate path o with
      | error e => rw [h2] at h; cases h
      | ok c =>
        rw [h2] at h; simp only at h
        cases h3 : select s.next c keys with
        | error e => rw [h3] at h; cases h
        | ok p =>
          obtain ⟨r, n⟩ := p
          rw [h3] at h; cases h
          have hc := navigate_invE path o c (get_invE s hh o hs h1) h2
          obtain ⟨f1, f2⟩ := select_fresh s.next c r keys n h3
          exact good_append s r n hs (select_invE s.next c r keys n hc h3) f1 f2
  | setData hh path atom =>
    simp only [stepE, bind, Except.bind, pure, Except.pure] at h
    cases h1 : s.get hh with
    | error e => rw [h1] at h; cases h
    | ok o =>
      rw [h1] at h; simp only at h
      cases h3 : modifyAt (fun c => setData c (.atom atom)) path o with
      | error e => rw [h3] at h; cases h
      | ok o' =>
        rw [h3] at h; cases h
        have ho := get_invE s hh o hs h1
        refine good_set s hh o o' hs h1 ?_ ?_
        · exact modifyAt_invE _ (fun c r hc hr => setData_invO c r _ hc hr)
            (fun c r hc hr => setData_esc c r _ hc hr) path o o' ho h3
        · intro i
          have := modifyAt_count i 0 _ (fun c r hr => by rw [setData_oids c r _ hr]; omega) path o o' h3
          omega
  | setAttr hh path k v =>
    simp only [stepE, bind, Except.bind, pure, Except.pure] at h
    cases h1 : s.get hh with
    | error e => rw [h1] at h; cases h
    | ok o =>
      rw [h1] at h; simp only at h
      cases h3 : modifyAt (fun c => Except.ok (setAttr c k (.nat v))) path o with
      | error e => rw [h3] at h; cases h
      | ok o' =>
        rw [h3] at h; cases h
        have ho := get_invE s hh o hs h1
        refine good_set s hh o o' hs h1 ?_ ?_
        · exact modifyAt_invE _ (fun c r hc hr => by cases hr; exact setAttr_inv k (.nat v) c hc)
            (fun c r hc hr => by cases hr; exact hc) path o o' ho h3
        · intro i
          have := modifyAt_count i 0 _ (fun c r hr => by cases hr; exact Nat.le_refl _) path o o' h3
          omega

theorem step_good (s : State) (op : Op) (hs : Good s) (he : op.ok) : Good (step s op) := by
  unfold step
  cases h : stepE s op with
  | error e => exact hs
  | ok s' => exact stepE_good s s' op hs he h

theorem run_good (ops : List Op) : ∀ s, Good s → (∀ op ∈ ops, op.ok) → Good (run s ops) := by
  induction ops with
  | nil => intro s hs _; exact hs
  | cons op ops ih =>
    intro s hs he
    simp only [run, List.foldl_cons]
    exact ih _ (step_good s op hs (he op (by simp))) (fun o ho => he o (by simp [ho]))

/-! ### what `copy` and selection return; the frame -/

/-- the handles an operation writes through -/
def Op.touches : Op → List Nat
  | .set h _ _ src => [h, src]
  | .del h _ _ => [h]
  | .setData h _ _ => [h]
  | .setAttr h _ _ _ => [h]
  | _ => []

/-- **frame**: whatever an operation does (success or exception), every handle it does not write through
    holds exactly the tree it held before — names, ids, keys, visible keys, attributes, data, identities -/
theorem step_frame (s : State) (op : Op) (j : Nat) (hj : j < s.handles.length) (hn : j ∉ op.touches) :
    (step s op).handles[j]? = s.handles[j]? := by
  unfold step
  cases h : stepE s op with
  | error e => rfl
  | ok s' =>
    simp only
    cases op with
    | new kind name atom =>
      simp only [stepE] at h; cases h
      exact List.getElem?_append_left hj
    | set hh path key src =>
      simp only [Op.touches, List.mem_cons, List.not_mem_nil, or_false, not_or] at hn
      simp only [stepE, bind, Except.bind, pure, Except.pure, throw, throwThe, MonadExceptOf.throw] at h
      split at h; · cases h
      split at h; · cases h
      split at h; · cases h
      split at h; · cases h
      cases h
      rw [List.getElem?_set_ne (fun e => hn.2 e.symm), List.getElem?_set_ne (fun e => hn.1 e.symm)]
    | del hh path key =>
      simp only [Op.touches, List.mem_cons, List.not_mem_nil, or_false] at hn
      simp only [stepE, bind, Except.bind, pure, Except.pure] at h
      split at h; · cases h
      split at h; · cases h
      cases h
      rw [List.getElem?_set_ne (fun e => hn e.symm)]
    | copy hh path =>
      simp only [stepE, bind, Except.bind, pure, Except.pure] at h
      split at h; · cases h
      split at h; · cases h
      split at h; · cases h
      cases h
      exact List.getElem?_append_left hj
    | select hh path keys =>
      simp only [stepE, bind, Except.bind, pure, Except.pure] at h
      split at h; · cases h
      split at h; · cases h
      split at h; · cases h
      cases h
      exact List.getElem?_append_left hj
    | setData hh path atom =>
      simp only [Op.touches, List.mem_cons, List.not_mem_nil, or_false] at hn
      simp only [stepE, bind, Except.bind, pure, Except.pure] at h
      split at h; · cases h
      split at h; · cases h
      cases h
      rw [List.getElem?_set_ne (fun e => hn e.symm)]
    | setAttr hh path k v =>
      simp only [Op.touches, List.mem_cons, List.not_mem_nil, or_false] at hn
      simp only [stepE, bind, Except.bind, pure, Except.pure] at h
      split at h; · cases h
      split at h; · cases h
      cases h
      rw [List.getElem?_set_ne (fun e => hn e.symm)]

/-- the frame over any further history: as long as no operation writes through handle `j`, it holds the very
    same tree -/
theorem run_frame (ops : List Op) : ∀ (s : State) (j : Nat), j < s.handles.length →
    (∀ op ∈ ops, j ∉ op.touches) → (run s ops).handles[j]? = s.handles[j]? := by
  induction ops with
  | nil => intro s j _ _; rfl
  | cons op ops ih =>
    intro s j hj hn
    simp only [run, List.foldl_cons]
    have h1 := step_frame s op j hj (hn op (by simp))
    have hj' : j < (step s op).handles.length := by
      rcases Nat.lt_or_ge j (step s op).handles.length with h | h
      · exact h
      · rw [List.getElem?_eq_none h, List.getElem?_eq_getElem hj] at h1; cases h1
    have := ih (step s op) j hj' (fun o ho => hn o (by simp [ho]))
    simp only [run] at this
    rw [this, h1]

/-- in a good store two different handles never reach the same object -/
theorem good_disjoint (s : State) (hs : Good s) (j k : Nat) (a b : Obj) (hjk : j ≠ k)
    (hj : s.handles[j]? = some (some a)) (hk : s.handles[k]? = some (some b)) :
    ∀ x ∈ a.oids, x ∉ b.oids := by
  intro x hx hy
  have h1 := List.count_pos_iff.2 hx
  have h2 := List.count_pos_iff.2 hy
  have h3 := count_two x s.handles j k _ _ hjk hj hk
  have h4 := (hs.2 x).1
  simp only [oids_eq, optOids] at h3 h4
  omega

/-- **`copy.copy(handle[path])`** succeeds ⇒ the result is a new handle whose objects are all new (their
    identities start at the allocation counter, so they are disjoint from every live object), and which has
    the name, id, class, attribute values and — shared — data objects of its source, child by child -/
theorem copy_fresh (s s' : State) (hh : Nat) (path : List Str) (hs : Good s)
    (h : stepE s (.copy hh path) = .ok s') :
    ∃ o src r, s.get hh = .ok o ∧ navigate path o = .ok src ∧ s'.handles = s.handles ++ [some r]
      ∧ (∀ x ∈ r.oids, s.next ≤ x ∧ x ∉ s.oids) ∧ nameId r = nameId src ∧ contentsO r = contentsO src := by
  simp only [stepE, bind, Except.bind, pure, Except.pure] at h
  cases h1 : s.get hh with
  | error e => rw [h1] at h; cases h
  | ok o =>
    rw [h1] at h; simp only at h
    cases h2 : navigate path o with
    | error e => rw [h2] at h; cases h
    | ok c =>
      rw [h2] at h; simp only at h
      cases h3 : copyObj s.next c with
      | error e => rw [h3] at h; cases h
      | ok p =>
        obtain ⟨r, n⟩ := p
        rw [h3] at h; cases h
        have hc := navigate_invE path o c (get_invE s hh o hs h1) h2
        obtain ⟨f1, f2⟩ := copyObj_fresh s.next c r n h3
        obtain ⟨_, _, g3, g4⟩ := copyObj_spec s.next c r n hc h3
        refine ⟨o, c, r, rfl, h2, rfl, ?_, g3, g4⟩
        intro x hx
        have a := List.count_pos_iff.2 hx
        have b := (f2 x).2 (by omega)
        refine ⟨b.1, fun hm => ?_⟩
        have := List.count_pos_iff.2 hm
        have := (hs.2 x).2 b.1
        omega

/-- **`handle[path][(name, …)]`** succeeds ⇒ a new handle whose objects are all new -/
theorem select_fresh_step (s s' : State) (hh : Nat) (path keys : List Str)
    (hs : Good s) (h : stepE s (.select hh path keys) = .ok s') :
    ∃ r, s'.handles = s.handles ++ [some r] ∧ (∀ x ∈ r.oids, s.next ≤ x ∧ x ∉ s.oids) := by
  simp only [stepE, bind, Except.bind, pure, Except.pure] at h
  cases h1 : s.get hh with
  | error e => rw [h1] at h; cases h
  | ok o =>
    rw [h1] at h; simp only at h
    cases h2 : navigate path o with
    | error e => rw [h2] at h; cases h
    | ok c =>
      rw [h2] at h; simp only at h
      cases h3 : select s.next c keys with
      | error e => rw [h3] at h; cases h
      | ok p =>
        obtain ⟨r, n⟩ := p
        rw [h3] at h; cases h
        obtain ⟨f1, f2⟩ := select_fresh s.next c r keys n h3
        refine ⟨r, rfl, ?_⟩
        intro x hx
        have a := List.count_pos_iff.2 hx
        have b := (f2 x).2 (by omega)
        refine ⟨b.1, fun hm => ?_⟩
        have := List.count_pos_iff.2 hm
        have := (hs.2 x).2 b.1
        omega

end Pydap.Tree
