/-
  The source text of handlers/dap.py's DAP4 chunk-header decoding (`decode_chunktype`, the `& 0x00FFFFFF` /
  `>> 24 & 0xFF` arithmetic of `stream2bytearray`, `safe_dmr_and_data`, `get_endianness`), translated on every run by
  harness/py2lean.py into MiniPy syntax (PydapModel/Generated/DapSrc.lean), computes the hand-written model functions
  of PydapModel/Dap4.lean (C10) and PydapModel/Stream.lean (C09).
  `chunk_header` is a numpy `uint32` scalar in the Python; here it is a non-negative Python int (numpy's `&`, `>>`
  on uint32 with small int literals agree with int arithmetic — an assumption about numpy, exercised by the
  correspondence runs of C09/C10).
-/
import Proofs.MiniPy
import Proofs.Dap4
import PydapModel.Stream
import PydapModel.Generated.DapSrc
set_option linter.unusedSimpArgs false
namespace Pydap
open MiniPy

/-- `'1'` / `'0'` -/
def bchar (b : Bool) : Nat := if b then 49 else 48

theorem binStrAux_eq (f n : Nat) (acc : List Bool) :
    binStrAux f n (acc.map bchar) = (Dap4.binDigitsAux f n acc).map bchar := by
  induction f generalizing n acc with
  | zero => rfl
  | succ f ih =>
    simp only [binStrAux, Dap4.binDigitsAux]
    by_cases h : n < 2
    · have : n = 0 ∨ n = 1 := by omega
      rcases this with rfl | rfl <;> simp [bchar]
    · simp only [h, if_false]
      rw [← ih]
      congr 1
      have : n % 2 = 0 ∨ n % 2 = 1 := by omega
      rcases this with h2 | h2 <;> simp [h2, bchar]

/-- MiniPy's `"{0:b}"` and the model's `binDigits` are the same digits, for every `n` -/
theorem binStr_eq (n : Nat) : binStr n = (Dap4.binDigits n).map bchar := by
  exact binStrAux_eq (n + 1) n []

theorem fmtBin3_eq (t : Nat) : fmtBin 3 (t : Int) = .ok ((Dap4.pad3 (Dap4.binDigits t)).map bchar) := by
  simp [fmtBin, binStr_eq, Dap4.pad3, bchar]

theorem pyInt_bchar (b : Bool) : pyInt (.str [bchar b]) = .ok (if b then 1 else 0) := by
  cases b <;> rfl

theorem strLookup_bchar (b : Bool) :
    strLookup [([48], [62]), ([49], [60])] [bchar b] = .ok (.str (if b then [60] else [62])) := by
  cases b <;> rfl

/-- `sys.byteorder` -/
def byteorderName (hostLittle : Bool) : List Nat :=
  if hostLittle then [108, 105, 116, 116, 108, 101] else [98, 105, 103]

/-- the environment `decode_chunktype(t)` runs in on a host of the given byte order -/
def chunktypeEnv (hostLittle : Bool) (t : Nat) : Env :=
  [("chunk_type", .int t), ("sys.byteorder", .str (byteorderName hostLittle))]

/-- `"<"` / `">"` -/
def endianStr (little : Bool) : List Nat := if little then [60] else [62]

theorem three_of_len {α} (l : List α) (h : 3 ≤ l.length) : ∃ a b c r, l = a :: b :: c :: r := by
  match l, h with
  | a :: b :: c :: r, _ => exact ⟨a, b, c, r, rfl⟩

theorem src_decode_chunktype_eq (hostLittle : Bool) (t : Nat) :
    runItem (chunktypeEnv hostLittle t) Gen.src_decode_chunktype "@ret0"
      = .ok (.bool (Dap4.decodeChunkType hostLittle t).last) ∧
    runItem (chunktypeEnv hostLittle t) Gen.src_decode_chunktype "@ret1"
      = .ok (.bool (Dap4.decodeChunkType hostLittle t).error) ∧
    runItem (chunktypeEnv hostLittle t) Gen.src_decode_chunktype "@ret2"
      = .ok (.str (endianStr (Dap4.decodeChunkType hostLittle t).little)) := by
  have hlen : 3 ≤ (if hostLittle then (Dap4.pad3 (Dap4.binDigits t)).reverse
      else Dap4.pad3 (Dap4.binDigits t)).length := by
    split <;> simp [Dap4.pad3_length]
  obtain ⟨b0, b1, b2, r, henc⟩ := three_of_len _ hlen
  have hm : Dap4.decodeChunkType hostLittle t = ⟨b0, b1, b2⟩ := by
    simp only [Dap4.decodeChunkType, henc]; rfl
  rw [hm]
  unfold Gen.src_decode_chunktype
  cases hostLittle
  all_goals
    simp only [Bool.false_eq_true, if_false, if_true] at henc
    simp (decide := true) only [chunktypeEnv, endianStr, byteorderName, runItem, exec, eval, bind_ok', lookup_cons_eq,
      lookup_cons_ne, lookup_setVar_eq, lookup_setVar_ne, asInt_int, fmtBin3_eq, if_true, if_false,
      ← List.map_reverse, henc, List.map_cons, List.getElem?_cons_zero, List.getElem?_cons_succ, pyInt_bchar,
      truthy_bit, strLookup_bchar, and_self]

/-- C09's reading of `decode_chunktype` (little-endian host, 8-bit field): `last` is bit 0 -/
theorem src_decode_chunktype_last (t : Nat) (ht : t < 256) :
    runItem (chunktypeEnv true t) Gen.src_decode_chunktype "@ret0" = .ok (.bool (Stream.chunkLast t)) := by
  rw [(src_decode_chunktype_eq true t).1, Dap4.decodeChunkType_little t ht]
  by_cases hh : t % 2 = 1 <;> simp [Stream.chunkLast, hh]

private theorem e24 : ((24 : Int)) = ((24 : Nat) : Int) := rfl
private theorem e255 : ((255 : Int)) = ((255 : Nat) : Int) := rfl
private theorem emask : ((16777215 : Int)) = ((16777215 : Nat) : Int) := rfl

theorem src_stream2bytearray_fields_eq (h : Nat) :
    runItem [("chunk_header", .int h)] Gen.src_stream2bytearray_fields "chunk_size"
      = .ok (.int (Dap4.chunkSize h)) ∧
    runItem [("chunk_header", .int h)] Gen.src_stream2bytearray_fields "chunk_type"
      = .ok (.int (Dap4.chunkType h)) := by
  unfold Gen.src_stream2bytearray_fields Dap4.chunkSize Dap4.chunkType
  constructor <;>
  simp (decide := true) only [runItem, exec, eval, bind_ok', lookup_cons_eq, lookup_setVar_eq, lookup_setVar_ne,
    asInt_int, pyInt_int, e24, e255, emask, pyAnd_nat, pyShr_nat, land_mask24, land_mask8, land_mask24', land_mask8']

theorem src_safe_dmr_and_data_fields_eq (h : Nat) :
    runItem [("chunk_header", .int h)] Gen.src_safe_dmr_and_data_fields "dmr_length"
      = .ok (.int (Dap4.chunkSize h)) ∧
    runItem [("chunk_header", .int h)] Gen.src_safe_dmr_and_data_fields "chunk_type"
      = .ok (.int (Dap4.chunkType h)) := by
  unfold Gen.src_safe_dmr_and_data_fields Dap4.chunkSize Dap4.chunkType
  constructor <;>
  simp (decide := true) only [runItem, exec, eval, bind_ok', lookup_cons_eq, lookup_setVar_eq, lookup_setVar_ne,
    asInt_int, pyInt_int, e24, e255, emask, pyAnd_nat, pyShr_nat, land_mask24, land_mask8, land_mask24', land_mask8']

theorem src_get_endianness_fields_eq (h : Nat) :
    runItem [("chunk_header", .int h)] Gen.src_get_endianness_fields "chunk_type"
      = .ok (.int (Dap4.chunkType h)) := by
  unfold Gen.src_get_endianness_fields Dap4.chunkType
  simp (decide := true) only [runItem, exec, eval, bind_ok', lookup_cons_eq, lookup_setVar_eq, lookup_setVar_ne,
    asInt_int, pyInt_int, e24, e255, emask, pyAnd_nat, pyShr_nat, land_mask24, land_mask8, land_mask24', land_mask8']

/-! ### one turn of `stream2bytearray`'s loop -/

def byteInt (b : UInt8) : Int := (b.toNat : Int)
/-- a bytes object as a MiniPy value -/
def bytesVal (bs : Dap4.Bytes) : Val := .ilist (bs.map byteInt)

theorem beU32_bytes (b0 b1 b2 b3 : UInt8) :
    beU32 [byteInt b0, byteInt b1, byteInt b2, byteInt b3] = .ok ((Dap4.be32 b0 b1 b2 b3 : Nat) : Int) := by
  have h0 := UInt8.toNat_lt b0
  have h1 := UInt8.toNat_lt b1
  have h2 := UInt8.toNat_lt b2
  have h3 := UInt8.toNat_lt b3
  have hc : (0 ≤ byteInt b0 ∧ byteInt b0 < 256 ∧ 0 ≤ byteInt b1 ∧ byteInt b1 < 256 ∧ 0 ≤ byteInt b2 ∧
      byteInt b2 < 256 ∧ 0 ≤ byteInt b3 ∧ byteInt b3 < 256) := by
    simp only [byteInt]; omega
  simp only [beU32]
  rw [if_pos hc]
  simp only [byteInt, Dap4.be32]
  congr 1

theorem slice_header (pre rest : Dap4.Bytes) (b0 b1 b2 b3 : UInt8) :
    (((pre ++ b0 :: b1 :: b2 :: b3 :: rest).map byteInt).drop ((pre.length : Int)).toNat).take
        (((pre.length : Int) + 4).toNat - ((pre.length : Int)).toNat)
      = [byteInt b0, byteInt b1, byteInt b2, byteInt b3] := by
  have e1 : ((pre.length : Int)).toNat = pre.length := by simp
  have e2 : ((pre.length : Int) + 4).toNat - pre.length = 4 := by omega
  rw [e1, e2, List.map_append, List.drop_left' (by simp)]
  simp

def turnEnv (data : Dap4.Bytes) (offset : Nat) (last : Bool) : Env :=
  [("data", bytesVal data), ("offset", .int offset), ("last", .bool last)]

theorem src_stream2bytearray_turn_eq (pre rest : Dap4.Bytes) (b0 b1 b2 b3 : UInt8) (last : Bool) :
    (rest.length < Dap4.chunkSize (Dap4.be32 b0 b1 b2 b3) →
      exec (turnEnv (pre ++ b0 :: b1 :: b2 :: b3 :: rest) pre.length last) Gen.src_stream2bytearray_turn
        = .error (.raised "EOFError")) ∧
    (¬ rest.length < Dap4.chunkSize (Dap4.be32 b0 b1 b2 b3) →
      runItem (turnEnv (pre ++ b0 :: b1 :: b2 :: b3 :: rest) pre.length last) Gen.src_stream2bytearray_turn "@item0"
        = .ok (.int ((pre.length + 4 : Nat) : Int)) ∧
      runItem (turnEnv (pre ++ b0 :: b1 :: b2 :: b3 :: rest) pre.length last) Gen.src_stream2bytearray_turn "@item1"
        = .ok (.int (Dap4.chunkSize (Dap4.be32 b0 b1 b2 b3) : Nat)) ∧
      runItem (turnEnv (pre ++ b0 :: b1 :: b2 :: b3 :: rest) pre.length last) Gen.src_stream2bytearray_turn "offset"
        = .ok (.int ((pre.length + 4 + Dap4.chunkSize (Dap4.be32 b0 b1 b2 b3) : Nat) : Int)) ∧
      runItem (turnEnv (pre ++ b0 :: b1 :: b2 :: b3 :: rest) pre.length last) Gen.src_stream2bytearray_turn "@break"
        = .ok (.bool last)) := by
  unfold Gen.src_stream2bytearray_turn turnEnv bytesVal Dap4.chunkSize
  have hlen : (((pre ++ b0 :: b1 :: b2 :: b3 :: rest).map byteInt).length : Int) = pre.length + 4 + rest.length := by
    simp; omega
  have hle : (0 : Int) ≤ pre.length ∧ (pre.length : Int) ≤ pre.length + 4 := by omega
  have h1 : ¬ ((pre.length : Int) + 4 > pre.length + 4 + rest.length) := by omega
  constructor
  · intro hshort
    have h2 : ((pre.length : Int) + 4 + ((Dap4.be32 b0 b1 b2 b3 % 16777216 : Nat) : Int)
        > pre.length + 4 + rest.length) := by omega
    simp (decide := true) only [runItem, exec, eval, bind_ok', bind_error', lookup_cons_eq, lookup_cons_ne,
      lookup_setVar_eq, lookup_setVar_ne, asInt_int, hlen, h1, h2, decide_false, decide_true, truthy_bool, if_false,
      Bool.false_eq_true, hle, and_self, if_true, slice_header, beU32_bytes, pyInt_int, e24, e255, emask, pyAnd_nat,
      pyShr_nat, land_mask24, land_mask8, land_mask24', land_mask8']
  · intro hfit
    have h2 : ¬ ((pre.length : Int) + 4 + ((Dap4.be32 b0 b1 b2 b3 % 16777216 : Nat) : Int)
        > pre.length + 4 + rest.length) := by omega
    refine ⟨?_, ?_, ?_, ?_⟩ <;> cases last <;>
    simp (decide := true) only [runItem, exec, eval, bind_ok', bind_error', lookup_cons_eq, lookup_cons_ne,
      lookup_setVar_eq, lookup_setVar_ne, asInt_int, hlen, h1, h2, decide_false, decide_true, truthy_bool, if_false,
      Bool.false_eq_true, hle, and_self, if_true, slice_header, beU32_bytes, pyInt_int, e24, e255, emask, pyAnd_nat,
      pyShr_nat, land_mask24, land_mask8, land_mask24', land_mask8'] <;>
    (try (congr 2 <;> omega))

/-- fewer than four bytes left at `offset`: the header test raises -/
theorem src_stream2bytearray_turn_short (pre tail : Dap4.Bytes) (last : Bool) (ht : tail.length < 4) :
    exec (turnEnv (pre ++ tail) pre.length last) Gen.src_stream2bytearray_turn = .error (.raised "EOFError") := by
  unfold Gen.src_stream2bytearray_turn turnEnv bytesVal
  have hlen : (((pre ++ tail).map byteInt).length : Int) = pre.length + tail.length := by simp
  have h1 : ((pre.length : Int) + 4 > pre.length + tail.length) := by omega
  simp (decide := true) only [exec, eval, bind_ok', bind_error', lookup_cons_eq, lookup_cons_ne, lookup_setVar_eq,
    lookup_setVar_ne, asInt_int, hlen, h1, decide_true, truthy_bool, if_true]

theorem chunkType_lt (h : Nat) : Dap4.chunkType h < 256 := by
  unfold Dap4.chunkType; omega

end Pydap
