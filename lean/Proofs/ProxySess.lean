/-
  C18: the requests of a history do not depend on the session.  `reHeap τ` relabels every session-carrying object and
  every logged GET with the session `τ`; every client-side event commutes with the relabelling, so the histories of two
  datasets that differ only in the session they were opened with issue the same requests, object by object.
-/
import PydapModel.Proxy
import Proofs.Proxy
namespace Pydap.Proxy
open Pydap

def reObj (τ : Sess) : Obj → Obj
  | .seq p => .seq { p with session := τ }
  | .arr p => .arr { p with session := τ }
  | .fns b _ => .fns b τ
  | .fn b n _ => .fn b n τ
  | .res b i _ l => .res b i τ l
  | .var id d => .var id d
  | .grid ks og => .grid ks og

def reHeap (τ : Sess) (h : Heap) : Heap :=
  { h with objs := h.objs.map (reObj τ), log := h.log.map fun e => (τ, e.2) }

@[simp] theorem reHeap_tmpls (τ : Sess) (h : Heap) : (reHeap τ h).tmpls = h.tmpls := rfl
@[simp] theorem reHeap_src (τ : Sess) (h : Heap) : (reHeap τ h).src = h.src := rfl
@[simp] theorem reHeap_objs (τ : Sess) (h : Heap) : (reHeap τ h).objs = h.objs.map (reObj τ) := rfl
theorem reHeap_get (τ : Sess) (h : Heap) (r : Nat) : (reHeap τ h).objs[r]? = (h.objs[r]?).map (reObj τ) := by
  simp

theorem re_pushObj (τ : Sess) (h : Heap) (o : Obj) : pushObj (reHeap τ h) (reObj τ o) = reHeap τ (pushObj h o) := by
  simp [pushObj, reHeap]

theorem re_pushLog (τ : Sess) (h : Heap) (s : Sess) (q : Req) : pushLog (reHeap τ h) τ q = reHeap τ (pushLog h s q) := by
  simp [pushLog, reHeap]

theorem re_pushObjs_vars (τ : Sess) (h : Heap) (l : List Obj) (hl : ∀ o ∈ l, reObj τ o = o) :
    pushObjs (reHeap τ h) l = reHeap τ (pushObjs h l) := by
  have : l.map (reObj τ) = l := by
    conv => rhs; rw [← List.map_id l]
    exact List.map_congr_left hl
  simp [pushObjs, reHeap, this]

theorem re_seqCopy (τ : Sess) (h : Heap) (p : SeqProxy) :
    seqCopy (reHeap τ h) { p with session := τ } =
      (seqCopy h p).map fun r => (reHeap τ r.1, { r.2 with session := τ }) := by
  simp only [seqCopy, reHeap_tmpls]
  cases h.tmpls[p.template]? <;> rfl

theorem re_seqApply (τ : Sess) (h : Heap) (out : SeqProxy) (k : DKey) :
    seqApply (reHeap τ h) { out with session := τ } k =
      (seqApply h out k).map fun r => (reHeap τ r.1, { r.2 with session := τ }) := by
  cases k with
  | name k =>
    simp only [seqApply, reHeap_tmpls]
    cases h.tmpls[out.template]? with
    | none => rfl
    | some t => simp only; split <;> rfl
  | cols ks =>
    simp only [seqApply, reHeap_tmpls]
    cases h.tmpls[out.template]? <;> rfl
  | ce cl => rfl
  | idx i => rfl
  | sl s => rfl

theorem re_seqGetitem (τ : Sess) (h : Heap) (p : SeqProxy) (k : DKey) :
    seqGetitemWith seqCopy (reHeap τ h) { p with session := τ } k =
      (seqGetitemWith seqCopy h p k).map fun r => (reHeap τ r.1, { r.2 with session := τ }) := by
  simp only [seqGetitemWith, re_seqCopy]
  cases seqCopy h p with
  | none => rfl
  | some r => exact re_seqApply τ r.1 r.2 k

theorem re_readData (τ : Sess) (h : Heap) (d : Data) (idx : List Idx) :
    readData (reHeap τ h) d idx = (reHeap τ (readData h d idx).1, (readData h d idx).2) := by
  cases d with
  | vals axes => rfl
  | proxy r =>
    simp only [readData, reHeap_get, reHeap_src]
    cases hr : h.objs[r]? with
    | none => rfl
    | some o =>
      cases o with
      | arr p => simp only [Option.map_some, reObj]; rw [← re_pushLog τ h p.session]; rfl
      | _ => rfl

theorem re_dataRank (τ : Sess) (h : Heap) (d : Data) : dataRank (reHeap τ h) d = dataRank h d := by
  cases d with
  | vals axes => rfl
  | proxy r =>
    simp only [dataRank, reHeap_get]
    cases hr : h.objs[r]? with
    | none => rfl
    | some o => cases o <;> rfl

theorem re_varGetitem (τ : Sess) (h : Heap) (r : Nat) (idx : List Idx) :
    varGetitem (reHeap τ h) r idx = reHeap τ (varGetitem h r idx) := by
  simp only [varGetitem, reHeap_get]
  cases hr : h.objs[r]? with
  | none => rfl
  | some o =>
    cases o with
    | var id d =>
      simp only [Option.map_some, reObj, re_readData]
      cases (readData h d idx).2 with
      | none => rfl
      | some ax => exact re_pushObj τ _ (.var id (.vals ax))
    | _ => rfl

theorem re_gridLoop (τ : Sess) : ∀ (ks : List Nat) (ixs : List (List Idx)) (h : Heap),
    gridLoop (reHeap τ h) ks ixs = (reHeap τ (gridLoop h ks ixs).1, (gridLoop h ks ixs).2)
  | [], _, h => rfl
  | k :: ks, [], h => by
    simp only [gridLoop, reHeap_get]
    cases hr : h.objs[k]? with
    | none => rfl
    | some o =>
      cases o with
      | var id d => simp only [Option.map_some, reObj, re_gridLoop τ ks [] h]
      | _ => rfl
  | k :: ks, ix :: ixs, h => by
    simp only [gridLoop, reHeap_get]
    cases hr : h.objs[k]? with
    | none => rfl
    | some o =>
      cases o with
      | var id d =>
        simp only [Option.map_some, reObj, re_readData]
        cases (readData h d ix).2 with
        | none => rfl
        | some ax => simp only [re_gridLoop τ ks ixs]
      | _ => rfl

theorem gridLoop_vars' : ∀ (ks : List Nat) (ixs : List (List Idx)) (h : Heap) (l : List Obj),
    (gridLoop h ks ixs).2 = some l → ∀ o ∈ l, ∃ id d, o = .var id d
  | [], _, h, l, e => by
    simp only [gridLoop, Option.some.injEq] at e; subst e; simp
  | k :: ks, [], h, l, e => by
    simp only [gridLoop] at e
    split at e
    · rename_i id d _
      simp only [Option.map_eq_some_iff] at e
      obtain ⟨l', hl', rfl⟩ := e
      intro o ho
      rcases List.mem_cons.1 ho with rfl | ho
      · exact ⟨_, _, rfl⟩
      · exact gridLoop_vars' ks [] h l' hl' o ho
    · cases e
  | k :: ks, ix :: ixs, h, l, e => by
    simp only [gridLoop] at e
    split at e
    · rename_i id d _
      split at e
      · rename_i ax _
        simp only [Option.map_eq_some_iff] at e
        obtain ⟨l', hl', rfl⟩ := e
        intro o ho
        rcases List.mem_cons.1 ho with rfl | ho
        · exact ⟨_, _, rfl⟩
        · exact gridLoop_vars' ks ixs _ l' hl' o ho
      · cases e
    · cases e

theorem re_gridFinish (τ : Sess) (h : Heap) (ks : List Nat) (ixs : List (List Idx)) :
    gridFinish (gridLoop (reHeap τ h) ks ixs) = reHeap τ (gridFinish (gridLoop h ks ixs)) := by
  rw [re_gridLoop]
  simp only [gridFinish]
  cases hl : (gridLoop h ks ixs).2 with
  | none => rfl
  | some l =>
    simp only
    have hv : ∀ o ∈ l, reObj τ o = o := by
      intro o ho
      obtain ⟨id, d, rfl⟩ := gridLoop_vars' ks ixs h l hl o ho
      rfl
    rw [re_pushObjs_vars τ _ l hv]
    have := re_pushObj τ (pushObjs (gridLoop h ks ixs).1 l)
      (.grid ((List.range l.length).map fun i => (gridLoop h ks ixs).1.objs.length + i) true)
    simpa [reObj] using this

theorem re_gridGetitem (τ : Sess) (h : Heap) (r : Nat) (key : List Idx) :
    gridGetitemHeap (reHeap τ h) r key = reHeap τ (gridGetitemHeap h r key) := by
  simp only [gridGetitemHeap, reHeap_get]
  cases hr : h.objs[r]? with
  | none => rfl
  | some o =>
    cases o with
    | grid kids og =>
      simp only [Option.map_some, reObj]
      cases kids.head? with
      | none => rfl
      | some a =>
        simp only
        cases og with
        | true =>
          simp only [↓reduceIte]
          cases ha : h.objs[a]? with
          | none => rfl
          | some oa =>
            cases oa with
            | var id d => simp only [Option.map_some, reObj, re_dataRank]; exact re_gridFinish τ h _ _
            | _ => rfl
        | false =>
          simp only [Bool.false_eq_true, ↓reduceIte]
          exact re_varGetitem τ h a key
    | _ => rfl

/-- **one event commutes with relabelling the session** -/
theorem re_step (τ : Sess) (h : Heap) (e : Ev) : step (reHeap τ h) e = reHeap τ (step h e) := by
  cases e with
  | copy r =>
    simp only [step, stepWith, reHeap_get]
    cases hr : h.objs[r]? with
    | none => rfl
    | some o =>
      cases o with
      | seq p =>
        simp only [Option.map_some, reObj, re_seqCopy]
        cases seqCopy h p with
        | none => rfl
        | some x => exact re_pushObj τ x.1 (.seq x.2)
      | _ => rfl
  | getitem r k =>
    simp only [step, stepWith, reHeap_get]
    cases hr : h.objs[r]? with
    | none => rfl
    | some o =>
      cases o with
      | seq p =>
        simp only [Option.map_some, reObj, re_seqGetitem]
        cases seqGetitemWith seqCopy h p k with
        | none => rfl
        | some x => exact re_pushObj τ x.1 (.seq x.2)
      | _ => rfl
  | iter r =>
    simp only [step, stepWith, reHeap_get]
    cases hr : h.objs[r]? with
    | none => rfl
    | some o =>
      cases o with
      | seq p =>
        simp only [Option.map_some, reObj, reHeap_tmpls]
        cases h.tmpls[p.template]? with
        | none => rfl
        | some t => exact re_pushLog τ h p.session _
      | _ => rfl
  | aget r idx =>
    simp only [step, stepWith, reHeap_get]
    cases hr : h.objs[r]? with
    | none => rfl
    | some o =>
      cases o with
      | arr p => simp only [Option.map_some, reObj]; exact re_pushLog τ h p.session _
      | _ => rfl
  | fattr r name =>
    simp only [step, stepWith, reHeap_get]
    cases hr : h.objs[r]? with
    | none => rfl
    | some o =>
      cases o with
      | fns b s => simp only [Option.map_some, reObj]; exact re_pushObj τ h (.fn b name s)
      | _ => rfl
  | fcall r args =>
    simp only [step, stepWith, reHeap_get]
    cases hr : h.objs[r]? with
    | none => rfl
    | some o =>
      cases o with
      | fn b name s => simp only [Option.map_some, reObj]; exact re_pushObj τ h (.res b _ s false)
      | _ => rfl
  | rget r dec =>
    simp only [step, stepWith, reHeap_get]
    cases hr : h.objs[r]? with
    | none => rfl
    | some o =>
      cases o with
      | res b id s loaded =>
        cases loaded with
        | true => rfl
        | false =>
          simp only [Option.map_some, reObj]
          cases dec with
          | false => simp only [Bool.false_eq_true, ↓reduceIte]; exact re_pushLog τ h s _
          | true =>
            simp only [↓reduceIte]
            simp [pushLog, reHeap, List.map_set, reObj]
      | _ => rfl
  | vget r idx => exact re_varGetitem τ h r idx
  | ggrid r key => exact re_gridGetitem τ h r key

theorem re_run (τ : Sess) (evs : List Ev) : ∀ (h : Heap), run (reHeap τ h) evs = reHeap τ (run h evs) := by
  induction evs with
  | nil => intro h; rfl
  | cons e es ih => intro h; simp only [run, List.foldl_cons] at ih ⊢; rw [re_step]; exact ih _

theorem reHeap_open (τ σ : Sess) (b : Name) (bs : List Name) (n : Name) (keys : List Name)
    (arrays : List (Name × List Nat × Bool)) :
    reHeap τ (openHeap b bs σ n keys arrays) = openHeap b bs τ n keys arrays := by
  simp [reHeap, openHeap, reObj, Function.comp_def]

/-- **the requests of a history do not depend on the session the dataset was opened with**: same requests in the same
    order, and the same objects up to the session they carry -/
theorem run_requests_any_session (σ τ : Sess) (b : Name) (bs : List Name) (n : Name) (keys : List Name)
    (arrays : List (Name × List Nat × Bool)) (evs : List Ev) :
    (run (openHeap b bs τ n keys arrays) evs).log.map (·.2) = (run (openHeap b bs σ n keys arrays) evs).log.map (·.2) ∧
    (run (openHeap b bs τ n keys arrays) evs).objs = (run (openHeap b bs σ n keys arrays) evs).objs.map (reObj τ) ∧
    (run (openHeap b bs τ n keys arrays) evs).tmpls = (run (openHeap b bs σ n keys arrays) evs).tmpls := by
  rw [← reHeap_open τ σ, re_run]
  simp [reHeap, Function.comp_def]

end Pydap.Proxy
