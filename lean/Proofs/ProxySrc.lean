/-
  The source text of handlers/dap.py `pad_hyperslab` (whole body) and of the projection text `BaseProxyDap2.__getitem__`
  hands to `urlunparse`, translated on every run by harness/py2lean.py into MiniPy syntax
  (PydapModel/Generated/ProxySrc.lean), computes the model's `openSlice` (the slice a proxy stores for a URL with a
  hyperslab: kept as parsed, padded with `slice(None)` to the rank) and `requestText` (`self.id + hyperslab(index)` of the
  COMBINED index) (C02).  `combine_slices(self.slice, fix_slice(index, self.shape))`, `hyperslab(index)` and
  `_quote(query)` are opaque inputs of the second block (their bodies are tied per axis by C03's source theorems); what is
  carried: the order of the concatenation, and that the index whose hyperslab is printed is the combined one.
-/
import Proofs.MiniPy
import PydapModel.Subset
import PydapModel.Generated.ProxySrc
set_option linter.unusedSimpArgs false
namespace Pydap
open MiniPy

def sliceItemOf (p : PSlice) : MiniPy.Item := .slice p.start p.stop p.step

/-- an element of a stored slice as the Python object (an Ellipsis is never stored) -/
def idxItem : Idx → MiniPy.Item
  | .int i => .int i
  | .sl p => sliceItemOf p
  | .ell => .int 0

theorem src_pad_hyperslab_eq (pre : List PSlice) (cshape : List Nat) :
    runItem [("index", .tuple (pre.map sliceItemOf)), ("shape", .ilist (cshape.map Int.ofNat))] Gen.src_pad_hyperslab "@ret"
      = .ok (.tuple ((openSlice pre cshape).map idxItem)) := by
  unfold Gen.src_pad_hyperslab openSlice
  simp (decide := true) only [runItem, exec, eval, bind_ok', lookup_cons_eq, lookup_cons_ne, lookup_setVar_eq, lookup_setVar_ne, asInt_int,
    List.length_map, Int.natCast_nonneg, if_true, Int.toNat_natCast, iterLen, List.length_drop, toOpt_none, toItem]
  by_cases h : cshape.length - pre.length = 0
  · simp only [h, if_true, List.replicate_zero, List.append_nil, List.map_map, bind_ok']
    congr 3
  · simp only [h, if_false, bind_ok', List.map_append, List.map_map, List.map_replicate]
    congr 3

theorem src_proxy_request_eq (id q : List Char) (stored : List Idx) (cshape : List Nat) (idx : List Idx)
    (userIndex : Val) :
    let combined := Val.tuple ((proxyIndex stored cshape idx).map sliceItemOf)
    let env : Env := [("index", userIndex), ("self.id", .str (codesOf id)), ("@combined", combined),
      ("@hyperslab", .str (codesOf (hyperslabText (proxyIndex stored cshape idx)))), ("@quoted_query", .str (codesOf q))]
    runItem env Gen.src_proxy_request "@query"
      = .ok (.str (codesOf (requestText id stored cshape idx ++ '&' :: q))) ∧
    runItem env Gen.src_proxy_request "@hyperslab.arg0" = .ok combined := by
  unfold Gen.src_proxy_request requestText
  simp (decide := true) only [runItem, exec, eval, bind_ok', lookup_cons_eq, lookup_cons_ne, lookup_setVar_eq,
    lookup_setVar_ne, codesOf, List.map_append, List.map_cons, List.append_assoc, and_true]
  rfl

end Pydap
