/-
  C06 (round 7): the values the data response carries — the leaves of the data handed to C05's encoder
  (`dataOf cds`), in wire order — are, pointwise and in order, the wire values `dodsValues cds` (each converted to
  the vocabulary of its declared type by `xValR`): the link between `C06_ascii_prints_every_value` (which speaks
  about `dodsValues`) and `C06_payload_decodes_source` (which speaks about `dataOf`).
-/
import PydapModel.Handler
import Proofs.Handler
import Proofs.HandlerAscii
namespace Pydap.Handler

mutual
/-- the atomic values of a datum, in wire order -/
def leaves : Xdr.Data → List Xdr.Val
  | .scalar v => [v]
  | .array vs => vs
  | .tuple ds => leavesL ds
  | .rows rs => leavesL rs
def leavesL : List Xdr.Data → List Xdr.Val
  | [] => []
  | d :: ds => leaves d ++ leavesL ds
end

theorem leavesL_map {α : Type} (f : α → Xdr.Data) : ∀ l : List α, leavesL (l.map f) = l.flatMap fun x => leaves (f x)
  | [] => rfl
  | x :: xs => by simp [leavesL, leavesL_map f xs]

/-- `x` is the value `w` in the vocabulary of some declared type and string representation -/
def CarriedAs (x : Xdr.Val) (w : Val) : Prop := ∃ rep t, x = xValR rep t w

theorem leaves_base (b : Base) (h : b.WF) : List.Forall₂ CarriedAs (leaves (dataOfBase b)) b.data := by
  unfold dataOfBase
  cases hs : b.shape with
  | nil =>
    obtain ⟨v, hv⟩ := prod_nil_data h hs
    simp only [hv, leaves]
    exact .cons ⟨_, _, rfl⟩ .nil
  | cons n sh =>
    simp only [leaves]
    exact forall₂_map_left _ (fun _ => ⟨_, _, rfl⟩) _

theorem leaves_member (m : Member) (h : m.WF) : List.Forall₂ CarriedAs (leaves (dataOfMember m)) (memberValues m) := by
  cases m with
  | base b => exact leaves_base b h
  | struct n bs =>
    simp only [dataOfMember, leaves, memberValues, leavesL_map]
    exact forall₂_flatMap _ _ bs fun b hb => leaves_base b (h b hb)

theorem leaves_row (cols : List (Str × Str)) : ∀ (r : List Val), r.length = cols.length →
    List.Forall₂ CarriedAs (leavesL (List.zipWith (fun c v => Xdr.Data.scalar (xVal (tyOf c.2) v)) cols r)) r := by
  induction cols with
  | nil => intro r hr; cases r with
    | nil => exact .nil
    | cons _ _ => simp at hr
  | cons c cs ih =>
    intro r hr
    cases r with
    | nil => simp at hr
    | cons v vs =>
      simp only [List.zipWith_cons_cons, leavesL, leaves, List.singleton_append]
      refine .cons ⟨.str, tyOf c.2, ?_⟩ (ih vs (by simpa using hr))
      cases v <;> cases h : tyOf c.2 <;> rfl

theorem leaves_var (v : Var) (h : v.WF) : List.Forall₂ CarriedAs (leaves (dataOfVar v)) (wireValues v) := by
  cases v with
  | base b => exact leaves_base b h
  | struct n ms =>
    simp only [dataOfVar, leaves, wireValues, leavesL_map]
    exact forall₂_flatMap _ _ ms fun m hm => leaves_member m (h m hm)
  | grid n a ms =>
    simp only [dataOfVar, leaves, leavesL, wireValues, leavesL_map]
    exact forall₂_append (leaves_base a h.1) (forall₂_flatMap _ _ ms fun b hb => leaves_base b (h.2 b hb))
  | seq n cols rows =>
    simp only [dataOfVar, leaves, wireValues, leavesL_map, dataOfRow]
    exact forall₂_flatMap _ _ rows fun r hr => leaves_row cols r (h r hr)

/-- **the data response carries exactly the wire values**: the leaves of `dataOf cds` are `dodsValues cds`, pointwise
    and in order -/
theorem leaves_dataOf (ds : Dataset) (h : ds.WF) : List.Forall₂ CarriedAs (leaves (dataOf ds)) (dodsValues ds) := by
  simp only [dataOf, leaves, dodsValues, leavesL_map]
  exact forall₂_flatMap _ _ ds.vars fun v hv => leaves_var v (h v hv)

end Pydap.Handler
