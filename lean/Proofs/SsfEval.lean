/-
  C19, nesting to any depth: the text `mean(…mean(mean(v,k1),k2)…,kn)` — as the client's proxy renders it and as
  `eval_function` parses it — evaluates to the chain of means.
-/
import PydapModel.Ssf
import Proofs.SsfProxy
namespace Pydap.Ssf
open Pydap Pydap.Handler

/-- the call tree of `mean(…mean(v,k1)…,kn)`: innermost axis first -/
def meanTree (v : Str) (ks : List Str) : Arg := ks.foldl (fun t k => .call cs!"mean" [t, .tok k]) (.tok v)

/-- the chain of means the text denotes -/
def meanChainI (r : Except Exc Arr) (axes : List Int) : Except Exc Arr :=
  axes.foldl (fun r k => match r with | .ok a => meanAxis a k | .error e => .error e) r

theorem evalMean_step (env : Str → Option Arr) (t : Arg) (k : Str) (axis : Int) (hk : parseIntChars k = some axis) :
    evalMean env (.call cs!"mean" [t, .tok k]) =
      (match evalMean env t with | .ok a => meanAxis a axis | .error e => .error e) := by
  simp only [evalMean, ↓reduceIte, hk]
  cases evalMean env t <;> rfl

theorem evalMean_fold (env : Str → Option Arr) : ∀ (ks : List Str) (axes : List Int) (t : Arg),
    ks.map parseIntChars = axes.map some →
    evalMean env (ks.foldl (fun t k => .call cs!"mean" [t, .tok k]) t) = meanChainI (evalMean env t) axes
  | [], [], t, _ => rfl
  | [], _ :: _, _, h => by simp at h
  | _ :: _, [], _, h => by simp at h
  | k :: ks, a :: axes, t, h => by
    simp only [List.map_cons, List.cons.injEq] at h
    simp only [List.foldl_cons, meanChainI]
    rw [evalMean_fold env ks axes _ h.2, evalMean_step env t k a h.1]
    rfl

theorem meanTree_ok (v : Str) (hv : Plain v ∧ v ≠ []) : ∀ (ks : List Str) (t : Arg), t.Ok →
    (∀ k ∈ ks, Plain k ∧ k ≠ []) → (ks.foldl (fun t k => Arg.call cs!"mean" [t, .tok k]) t).Ok
  | [], t, ht, _ => ht
  | k :: ks, t, ht, hk => by
    simp only [List.foldl_cons]
    apply meanTree_ok v hv ks _ _ (fun x hx => hk x (by simp [hx]))
    simp only [Arg.Ok, Arg.OkList]
    exact ⟨by decide, ht, hk k (by simp), trivial⟩

end Pydap.Ssf
