/-
  The server's DMR (PydapModel/DmrServer.lean) is the independent rendering of the served dataset seen as a spec.
-/
import PydapModel.DmrServer
import Proofs.DmrParse
import Proofs.Hyperslab
namespace Pydap.Dmr

theorem render_dimsSpec (ds : List (Str × Nat)) (rest : Spec) :
    renderItems (dimsSpec ds rest) = ds.map srvDimension ++ renderItems rest := by
  induction ds with
  | nil => rfl
  | cons d ds ih => simp only [dimsSpec, renderItems, List.map_cons, List.cons_append, ih, srvDimension]

theorem sval_text (v : SrvVal) : v.sval.text = v.str := by cases v <;> rfl

theorem render_srvAttr (a : SrvAttr) : renderAttr (srvAttrSpec a) = srvAttrNode a := by
  simp [renderAttr, srvAttrSpec, srvAttrNode, List.map_map, Function.comp_def, renderVal, sval_text]

theorem render_srvVar (v : SrvVar) : renderVar (srvVarSpec v) = srvVarNode v := by
  simp [renderVar, srvVarSpec, srvVarNode, renderDim, List.map_map, Function.comp_def, render_srvAttr]

/-! ### served attributes are well-formed declarations -/

theorem parseIntChars_intText_all (i : Int) : parseIntChars (intText i) = some i := by
  by_cases h : 0 ≤ i
  · exact parseIntChars_intText i h
  · have hlt : i < 0 := by omega
    have hd := natDigits_allDigits i.natAbs
    have hne := natDigits_ne_nil i.natAbs
    have e : intText i = '-' :: natDigits i.natAbs := by simp [intText, hlt]
    rw [e]
    unfold parseIntChars
    have hs : stripWs ('-' :: natDigits i.natAbs) = '-' :: natDigits i.natAbs := by
      unfold stripWs
      have h1 : ('-' :: natDigits i.natAbs).dropWhile isWs = '-' :: natDigits i.natAbs := by
        rw [List.dropWhile_cons_of_neg (by decide)]
      rw [h1]
      have h2 : ('-' :: natDigits i.natAbs).reverse.dropWhile isWs = ('-' :: natDigits i.natAbs).reverse := by
        apply dropWhile_head_false
        intro x hx
        rw [List.reverse_cons] at hx
        cases hr : (natDigits i.natAbs).reverse with
        | nil => exact absurd (List.reverse_eq_nil_iff.mp hr) hne
        | cons y ys =>
          rw [hr] at hx
          have hxy : y = x := by simpa using hx
          rw [← hxy]
          exact isDigit_not_ws y (hd y (by
            have : y ∈ (natDigits i.natAbs).reverse := by rw [hr]; simp
            simpa using this))
      rw [h2]; simp
    rw [hs]
    simp only [parseNatChars_natDigits]
    show some (-(i.natAbs : Int)) = some i
    congr 1
    omega

theorem intTag_atomic : ∀ (u : Bool) (lg : Fin 4), intTag u lg ∈ atomicTypes ∧ intTag u lg ∉ floatTypes := by decide

theorem string_not_atomic : "String".toList ∉ atomicTypes := by decide
theorem float_tags : ∀ d : Bool, (if d then "Float64".toList else "Float32".toList) ∈ atomicTypes ∧
    (if d then "Float64".toList else "Float32".toList) ∈ floatTypes := by decide

theorem srvAttr_type_nil (a : SrvAttr) (h : a.values = []) : (srvAttrSpec a).type = "String".toList := by
  unfold srvAttrSpec SrvAttr.tag; rw [h]
theorem srvAttr_type_cons (a : SrvAttr) (v0 : SrvVal) (vs : List SrvVal) (h : a.values = v0 :: vs) :
    (srvAttrSpec a).type = v0.tag := by
  unfold srvAttrSpec SrvAttr.tag; rw [h]

theorem srvAttr_all (a : SrvAttr) : (srvAttrSpec a).all = a.values.map SrvVal.sval := by
  unfold SAttr.all srvAttrSpec
  simp only [Option.toList_none, List.nil_append, List.map_map]
  rfl

/-- a homogeneous served attribute is a well-formed declaration (`SAttr.ok`) -/
theorem srvAttr_ok (a : SrvAttr) (h : a.homog) : (srvAttrSpec a).ok := by
  have hall := srvAttr_all a
  cases hv : a.values with
  | nil =>
    refine Or.inr (Or.inr ⟨by rw [srvAttr_type_nil a hv]; exact string_not_atomic, ?_⟩)
    intro v hvm; rw [hall, hv] at hvm; cases hvm
  | cons v0 vs =>
    have ht := srvAttr_type_cons a v0 vs hv
    rcases h with h | h | h
    · obtain ⟨u, lg, i0, rfl⟩ := h v0 (by rw [hv]; simp)
      refine Or.inr (Or.inl ⟨by rw [ht]; exact (intTag_atomic u lg).1, by rw [ht]; exact (intTag_atomic u lg).2, ?_⟩)
      intro v hvm
      rw [hall] at hvm
      obtain ⟨w, hw, rfl⟩ := List.mem_map.mp hvm
      obtain ⟨_, _, i, rfl⟩ := h w hw
      exact ⟨_, _, rfl, parseIntChars_intText_all i⟩
    · obtain ⟨d, t0, rfl⟩ := h v0 (by rw [hv]; simp)
      refine Or.inl ⟨by rw [ht]; exact (float_tags d).1, by rw [ht]; exact (float_tags d).2, ?_⟩
      intro v hvm
      rw [hall] at hvm
      obtain ⟨w, hw, rfl⟩ := List.mem_map.mp hvm
      obtain ⟨_, t, rfl⟩ := h w hw
      exact ⟨_, rfl⟩
    · obtain ⟨s0, rfl⟩ := h v0 (by rw [hv]; simp)
      refine Or.inr (Or.inr ⟨by rw [ht]; exact string_not_atomic, ?_⟩)
      intro v hvm
      rw [hall] at hvm
      obtain ⟨w, hw, rfl⟩ := List.mem_map.mp hvm
      obtain ⟨t, rfl⟩ := h w hw
      exact ⟨_, rfl⟩

theorem render_srvSpec (t : SrvTree) : renderItems (srvSpec t) = srvNodes t := by
  induction t with
  | nil => rfl
  | var v rest ih => simp only [srvSpec, renderItems, srvNodes, ih, render_srvVar]
  | group n dims kids rest ihk ihr =>
    simp only [srvSpec, renderItems, srvNodes, render_dimsSpec, ihk, ihr]

theorem renderServer_eq (name : Str) (dims : List (Str × Nat)) (kids : SrvTree) :
    renderServer name dims kids =
      renderRoot [("{http://www.w3.org/XML/1998/namespace}base".toList, "http://localhost:8001".toList),
        ("dapVersion".toList, "4.0".toList), ("dmrVersion".toList, "1.0".toList)] name (dimsSpec dims (srvSpec kids)) := by
  simp only [renderServer, renderRoot, render_dimsSpec, render_srvSpec]; rfl

theorem specVars_dimsSpec (path : List Str) (ds : List (Str × Nat)) (rest : Spec) :
    specVars path (dimsSpec ds rest) = specVars path rest := by
  induction ds with
  | nil => rfl
  | cons d ds ih => simp only [dimsSpec, specVars, ih]

theorem specVars_srvSpec (t : SrvTree) : ∀ path, specVars path (srvSpec t) = (srvVars path t).map fun pv => (pv.1, srvVarSpec pv.2) := by
  induction t with
  | nil => intro _; rfl
  | var v rest ih => intro path; simp only [srvSpec, specVars, srvVars, List.map_cons, ih]
  | group n dims kids rest ihk ihr =>
    intro path
    simp only [srvSpec, specVars, srvVars, specVars_dimsSpec, ihk, ihr, List.map_append]

theorem refs_named (ds : List (Str × Int)) : SDim.refs (ds.map fun d => SDim.named d.1 d.2) = ds.map (·.1) := by
  induction ds with
  | nil => rfl
  | cons d ds ih => simp only [List.map_cons, SDim.refs, ih]

theorem sizes_named (ds : List (Str × Int)) : (ds.map fun d => SDim.named d.1 d.2).map SDim.size = ds.map (·.2) := by
  induction ds with
  | nil => rfl
  | cons d ds ih => simp only [List.map_cons, SDim.size, ih]

theorem expectVar_srv (path : List Str) (v : SrvVar) :
    expectVar path (srvVarSpec v) = srvExpect ((dap4ToNumpy (dmrTypeTag v.kind v.dtypeName)).getD []) path v := by
  simp only [expectVar, srvExpect, srvVarSpec, refs_named, sizes_named, List.map_map, Function.comp_def, srvAttrSpec,
    SDim.size]

theorem parseVars_server (name : Str) (dims : List (Str × Nat)) (kids : SrvTree)
    (hok : (dimsSpec dims (srvSpec kids)).ok) (hres : refsResolve (dimsSpec dims (srvSpec kids)))
    (hv : distinctVars (dimsSpec dims (srvSpec kids))) (hd : distinctDims (dimsSpec dims (srvSpec kids))) :
    parseVars (renderServer name dims kids) = .ok ((srvVars [] kids).map fun pv =>
      srvExpect ((dap4ToNumpy (dmrTypeTag pv.2.kind pv.2.dtypeName)).getD []) pv.1 pv.2) := by
  rw [renderServer_eq, parseVars_render _ _ _ hok hres hv hd]
  simp only [expectVars, specVars_dimsSpec, specVars_srvSpec, List.map_map, Function.comp_def, expectVar_srv]

end Pydap.Dmr
