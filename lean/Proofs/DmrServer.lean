/-
  The server's DMR (PydapModel/DmrServer.lean) is the independent rendering of the served dataset seen as a spec.
-/
import PydapModel.DmrServer
import Proofs.DmrParse
namespace Pydap.Dmr

theorem render_dimsSpec (ds : List (Str × Nat)) (rest : Spec) :
    renderItems (dimsSpec ds rest) = ds.map srvDimension ++ renderItems rest := by
  induction ds with
  | nil => rfl
  | cons d ds ih => simp only [dimsSpec, renderItems, List.map_cons, List.cons_append, ih, srvDimension]

theorem render_srvVar (v : SrvVar) : renderVar (srvVarSpec v) = srvVarNode v := by
  simp [renderVar, srvVarSpec, srvVarNode, renderDim, List.map_map, Function.comp_def]

theorem render_srvSpec (t : SrvTree) : renderItems (srvSpec t) = srvNodes t := by
  induction t with
  | nil => rfl
  | var v rest ih => simp only [srvSpec, renderItems, srvNodes, ih, render_srvVar]
  | group n dims kids rest ihk ihr =>
    simp only [srvSpec, renderItems, srvNodes, render_dimsSpec, ihk, ihr]

theorem renderServer_eq (name : Str) (dims : List (Str × Nat)) (kids : SrvTree) :
    renderServer name dims kids =
      renderRoot [("{http://www.w3.org/XML/1998/namespace}base".toList, "http://localhost:8001".toList),
        ("dapVersion".toList, "4.0".toList), ("dmrVersion".toList, "1.0".toList)] name (dimsSpec dims (srvSpec kids)) := by
  simp only [renderServer, renderRoot, render_dimsSpec, render_srvSpec]; rfl

theorem specVars_dimsSpec (path : List Str) (ds : List (Str × Nat)) (rest : Spec) :
    specVars path (dimsSpec ds rest) = specVars path rest := by
  induction ds with
  | nil => rfl
  | cons d ds ih => simp only [dimsSpec, specVars, ih]

theorem specVars_srvSpec (t : SrvTree) : ∀ path, specVars path (srvSpec t) = (srvVars path t).map fun pv => (pv.1, srvVarSpec pv.2) := by
  induction t with
  | nil => intro _; rfl
  | var v rest ih => intro path; simp only [srvSpec, specVars, srvVars, List.map_cons, ih]
  | group n dims kids rest ihk ihr =>
    intro path
    simp only [srvSpec, specVars, srvVars, specVars_dimsSpec, ihk, ihr, List.map_append]

theorem refs_named (ds : List (Str × Int)) : SDim.refs (ds.map fun d => SDim.named d.1 d.2) = ds.map (·.1) := by
  induction ds with
  | nil => rfl
  | cons d ds ih => simp only [List.map_cons, SDim.refs, ih]

theorem sizes_named (ds : List (Str × Int)) : (ds.map fun d => SDim.named d.1 d.2).map SDim.size = ds.map (·.2) := by
  induction ds with
  | nil => rfl
  | cons d ds ih => simp only [List.map_cons, SDim.size, ih]

theorem expectVar_srv (path : List Str) (v : SrvVar) :
    expectVar path (srvVarSpec v) = srvExpect ((dap4ToNumpy (dmrTypeTag v.kind v.dtypeName)).getD []) path v := by
  simp only [expectVar, srvExpect, srvVarSpec, refs_named, sizes_named, List.map_nil]

theorem parseVars_server (name : Str) (dims : List (Str × Nat)) (kids : SrvTree)
    (hok : (dimsSpec dims (srvSpec kids)).ok) (hres : refsResolve (dimsSpec dims (srvSpec kids)))
    (hv : distinctVars (dimsSpec dims (srvSpec kids))) (hd : distinctDims (dimsSpec dims (srvSpec kids))) :
    parseVars (renderServer name dims kids) = .ok ((srvVars [] kids).map fun pv =>
      srvExpect ((dap4ToNumpy (dmrTypeTag pv.2.kind pv.2.dtypeName)).getD []) pv.1 pv.2) := by
  rw [renderServer_eq, parseVars_render _ _ _ hok hres hv hd]
  simp only [expectVars, specVars_dimsSpec, specVars_srvSpec, List.map_map, Function.comp_def, expectVar_srv]

end Pydap.Dmr
