/-
  Lemmas behind C17: the positional pipeline recorded by `IterData.__getitem__` computes the
  by-name reference (simulation between `getitem`/`chain` and `refStep`/`refRun`).
-/
import PydapModel.IterData
import Proofs.Hyperslab
namespace Pydap.IterData
open Pydap

variable {A : Type}

/-! ### small list/monad facts -/

theorem indexOf?_eq_some {ks : List Name} {k : Name} {i : Nat} (h : indexOf? ks k = some i) :
    i = ks.idxOf k ∧ i < ks.length ∧ k ∈ ks := by
  unfold indexOf? at h
  by_cases hl : ks.idxOf k < ks.length
  · simp [hl] at h
    exact ⟨h.symm, h ▸ hl, List.idxOf_lt_length_iff.mp hl⟩
  · simp [hl] at h

theorem indexOf?_of_mem {ks : List Name} {k : Name} (h : k ∈ ks) :
    indexOf? ks k = some (ks.idxOf k) := by
  unfold indexOf?
  simp [List.idxOf_lt_length_iff.mpr h]

theorem indexOf?_none {ks : List Name} {k : Name} (h : k ∉ ks) : indexOf? ks k = none := by
  unfold indexOf?
  have : ¬ ks.idxOf k < ks.length := fun hl => h (List.idxOf_lt_length_iff.mp hl)
  simp [this]

theorem getElem?_idxOf {ks : List Name} {k : Name} (h : k ∈ ks) : ks[ks.idxOf k]? = some k := by
  have hl := List.idxOf_lt_length_iff.mpr h
  rw [List.getElem?_eq_getElem hl, List.getElem_idxOf hl]

/-- `mapM` in `Option` yields pointwise images -/
theorem optMapM_getElem? {α β : Type} (f : α → Option β) (l : List α) :
    ∀ (out : List β), l.mapM f = some out →
      ∀ (i : Nat) (x : α), l[i]? = some x → out[i]? = f x := by
  induction l with
  | nil => intro out _ i x hx; simp at hx
  | cons a l ih =>
    intro out h i x hx
    rw [List.mapM_cons] at h
    cases hfa : f a with
    | none => simp [hfa] at h
    | some b =>
      cases hr : l.mapM f with
      | none => simp [hfa, hr] at h
      | some rest =>
        simp [hfa, hr] at h
        subst h
        cases i with
        | zero => simp at hx; subst hx; simp [hfa]
        | succ j => simp at hx; simpa using ih rest hr j x hx

theorem optMapM_length {α β : Type} (f : α → Option β) (l : List α) :
    ∀ (out : List β), l.mapM f = some out → out.length = l.length := by
  induction l with
  | nil => intro out h; simp at h; subst h; rfl
  | cons a l ih =>
    intro out h
    rw [List.mapM_cons] at h
    cases hfa : f a with
    | none => simp [hfa] at h
    | some b =>
      cases hr : l.mapM f with
      | none => simp [hfa, hr] at h
      | some rest =>
        simp [hfa, hr] at h
        subst h
        simp [ih rest hr]

theorem optMapM_of_getElem {α β} (f : α → Option β) :
    ∀ (l : List α) (r : List β), l.length = r.length →
      (∀ i (h : i < l.length), f l[i] = r[i]?) → l.mapM f = some r
  | [], r, hl, _ => by
    cases r with
    | nil => rfl
    | cons _ _ => simp at hl
  | a :: l, r, hl, h => by
    cases r with
    | nil => simp at hl
    | cons b r =>
      rw [List.mapM_cons]
      have h0 := h 0 (by simp)
      simp at h0
      have hr := optMapM_of_getElem f l r (by simpa using hl) (fun i hi => by
        have := h (i + 1) (by simp; omega)
        simpa using this)
      simp [h0, hr]

theorem filterE_ok {α} (f : α → Except Err Bool) (g : α → Bool) :
    ∀ xs : List α, (∀ x ∈ xs, f x = .ok (g x)) → filterE f xs = .ok (xs.filter g)
  | [], _ => rfl
  | x :: xs, h => by
    have hx := h x (by simp)
    have hr := filterE_ok f g xs (fun y hy => h y (by simp [hy]))
    unfold filterE
    rw [hx, hr]
    cases hg : g x <;> simp [List.filter, hg] <;> rfl

/-- when every element has an item on both sides, `mapE` equals the `Option` traversal -/
theorem mapE_of_option {α β} (f : α → Except Err β) (f' : α → Option β) (e : Err) :
    ∀ xs : List α, (∀ x ∈ xs, ∃ y, f' x = some y ∧ f x = .ok y) →
      ∃ ys, xs.mapM f' = some ys ∧ mapE f xs = .ok ys
  | [], _ => ⟨[], rfl, rfl⟩
  | x :: xs, h => by
    obtain ⟨y, hy1, hy2⟩ := h x (by simp)
    obtain ⟨ys, h1, h2⟩ := mapE_of_option f f' e xs (fun z hz => h z (by simp [hz]))
    refine ⟨y :: ys, ?_, ?_⟩
    · rw [List.mapM_cons]; simp [hy1, h1]
    · unfold mapE; rw [hy2, h2]; rfl

theorem evalMaps_append (ms : List MapF) (m : MapF) (x : Item A) :
    evalMaps (ms ++ [m]) x = evalMaps ms x >>= evalMap m := by
  induction ms generalizing x with
  | nil =>
    simp only [List.nil_append, evalMaps]
    show _ = evalMap m x
    cases evalMap m x <;> rfl
  | cons a ms ih =>
    simp only [List.cons_append, evalMaps]
    cases evalMap a x with
    | error e => rfl
    | ok y => exact ih y

/-- a map inserted at the front of `imap` acts on the source row -/
theorem evalMaps_ident_cons (ms : List MapF) (x : Item A) : evalMaps (.ident :: ms) x = evalMaps ms x := rfl

theorem evalFilts_append (cmp : Op → A → A → Bool) (fs : List (Filt A)) (f : Filt A) (r : List A)
    (b b' : Bool) (h1 : evalFilts cmp fs r = .ok b) (h2 : evalFilt cmp f r = .ok b') :
    evalFilts cmp (fs ++ [f]) r = .ok (b && b') := by
  induction fs generalizing b with
  | nil =>
    simp only [evalFilts] at h1
    cases h1
    simp only [List.nil_append, evalFilts, h2]
    cases b' <;> rfl
  | cons a fs ih =>
    simp only [List.cons_append, evalFilts] at h1 ⊢
    cases ha : evalFilt cmp a r with
    | error e => rw [ha] at h1; cases h1
    | ok v =>
      rw [ha] at h1
      cases v with
      | false =>
        cases h1
        rfl
      | true => exact ih b h1

/-! ### `rsplitDot` -/

theorem rsplitDot_some : ∀ (s h t : List Char), rsplitDot s = some (h, t) →
    s = h ++ '.' :: t ∧ (∀ c ∈ t, c ≠ '.')
  | [], h, t, hs => by simp [rsplitDot] at hs
  | c :: cs, h, t, hs => by
    unfold rsplitDot at hs
    cases hr : rsplitDot cs with
    | some p =>
      obtain ⟨h', t'⟩ := p
      simp [hr] at hs
      obtain ⟨rfl, rfl⟩ := hs
      obtain ⟨e, nd⟩ := rsplitDot_some cs h' t' hr
      exact ⟨by rw [e]; rfl, nd⟩
    | none =>
      simp [hr] at hs
      obtain ⟨rfl, rfl, rfl⟩ := hs
      refine ⟨rfl, ?_⟩
      -- no dot in `cs` because `rsplitDot cs = none`
      have aux : ∀ (l : List Char), rsplitDot l = none → ∀ c ∈ l, c ≠ '.' := by
        intro l
        induction l with
        | nil => intro _ c hc; simp at hc
        | cons d ds ih =>
          intro hn c hc
          unfold rsplitDot at hn
          cases hd : rsplitDot ds with
          | some p => simp [hd] at hn
          | none =>
            simp [hd] at hn
            rcases List.mem_cons.mp hc with rfl | hc'
            · exact hn
            · exact ih hd c hc'
      exact aux cs hr

/-! ### the simulation relation -/

/-- the stream `s` records the reference state `st` (sequence id `id`, header `all`) -/
structure Rel (cmp : Op → A → A → Bool) (id : Name) (all : List Name) (s : Stream A) (st : Ref A) : Prop where
  root : s.root.id = id ∧ s.root.all = all
  filt : ∀ r : List A, r.length = all.length →
    evalFilts cmp s.ifilter r = .ok (st.conds.all (refCond cmp all r))
  maps : ∀ r : List A, r.length = all.length →
    ∃ it, refItem all r st.layout = some it ∧ evalMaps s.imap (.row r) = .ok it
  tmpl : match st.layout with
    | .table vs => s.template = .seq ⟨id, all, vs⟩ ∧ s.level = 0 ∧ (∀ k ∈ vs, k ∈ all)
    | .column k => s.template = .base (id ++ '.' :: k) ∧ s.level = 1 ∧ k ∈ all
  sl : s.islice = st.slices

theorem cellOf_some (all : List Name) (r : List A) (hl : r.length = all.length) {k : Name} (hk : k ∈ all) :
    ∃ v, cellOf all r k = some v ∧ getCell r (all.idxOf k) = .ok v := by
  have hi := List.idxOf_lt_length_iff.mpr hk
  have : all.idxOf k < r.length := by omega
  refine ⟨r[all.idxOf k], ?_, ?_⟩
  · simp [cellOf, indexOf?_of_mem hk, List.getElem?_eq_getElem this]
  · simp [getCell, List.getElem?_eq_getElem this]

/-- projecting the current row by the positions of `ks` among the visible names `vs`
    gives the cells named `ks` -/
theorem proj_by_name (all vs : List Name) (r cells : List A)
    (hc : vs.mapM (cellOf all r) = some cells) :
    ∀ (ks : List Name) (cols : List Nat), ks.mapM (indexOf? vs) = some cols →
      ∃ out, ks.mapM (cellOf all r) = some out ∧ cols.mapM (getCell cells) = .ok out
  | [], cols, h => by
    simp at h; subst h
    exact ⟨[], rfl, rfl⟩
  | k :: ks, cols, h => by
    rw [List.mapM_cons] at h
    cases hk : indexOf? vs k with
    | none => simp [hk] at h
    | some col =>
      cases hr : ks.mapM (indexOf? vs) with
      | none => simp [hk, hr] at h
      | some rest =>
        simp [hk, hr] at h
        subst h
        obtain ⟨out, h1, h2⟩ := proj_by_name all vs r cells hc ks rest hr
        obtain ⟨rfl, hlt, hmem⟩ := indexOf?_eq_some hk
        have hcell := optMapM_getElem? (cellOf all r) vs cells hc (vs.idxOf k) k (getElem?_idxOf hmem)
        -- the length of `cells` is that of `vs`, so the cell exists
        cases hv : cells[vs.idxOf k]? with
        | none =>
          exfalso
          have hlen : cells.length = vs.length := optMapM_length _ _ _ hc
          have : vs.idxOf k < cells.length := by omega
          simp [List.getElem?_eq_getElem this] at hv
        | some v =>
          refine ⟨v :: out, ?_, ?_⟩
          · rw [List.mapM_cons, ← hcell, hv, h1]; rfl
          · rw [List.mapM_cons]
            simp [getCell, hv, h2]
            rfl

end Pydap.IterData
