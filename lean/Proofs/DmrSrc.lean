/-
  The source text of parsers/dmr.py `_dim_key`, `get_dim_names` and `get_dim_sizes`, translated on every run by
  harness/py2lean.py into MiniPy syntax (PydapModel/Generated/DmrSrc.lean), computes the model's `dimKey`,
  `getDimNames` and `varShape` (C11).  The `for` loops are MiniPy `forIn` statements over the list of `Dim` elements
  (an input: `element.findall("Dim")`, each element as its attribute dict); they are folds, proved by the simulation
  rule `forIn_sim`.  The call `_dim_key(name)` is inlined by the translator.
-/
import Proofs.MiniPy
import PydapModel.Dmr
import PydapModel.DmrSpec
import PydapModel.Generated.DmrSrc
set_option linter.unusedSimpArgs false
namespace Pydap
open MiniPy Dmr

/-! ### text -/

theorem codesOf_cons (c : Char) (t : List Char) : codesOf (c :: t) = c.toNat :: codesOf t := rfl

theorem toNat_eq_47 (c : Char) : (c.toNat = 47) ↔ c = '/' :=
  ⟨fun h => Char.toNat_inj' (by rw [h]; rfl), fun h => by rw [h]; rfl⟩

theorem findGo_slash (t : List Char) (i : Nat) :
    findGo [47] i (codesOf t) = none ↔ t.contains '/' = false := by
  induction t generalizing i with
  | nil => simp [findGo, codesOf]
  | cons c r ih =>
    rw [codesOf_cons]
    simp only [findGo, List.isPrefixOf, Bool.and_true, List.contains_cons]
    by_cases h : c = '/'
    · subst h; simp
    · have h1 : (47 == c.toNat) = false := by
        simp only [beq_eq_false_iff_ne, ne_eq]; exact fun e => h ((toNat_eq_47 c).mp e.symm)
      have h2 : ('/' == c) = false := by simp only [beq_eq_false_iff_ne, ne_eq]; exact fun e => h e.symm
      rw [h1, h2]; simpa using ih (i + 1)

theorem codesOf_drop (s : List Char) (n : Nat) : (codesOf s).drop n = codesOf (s.drop n) := by
  simp [codesOf, List.map_drop]

/-- `name.find("/", 1) == -1` is the model's `noSlashAfterFirst` -/
theorem strFind_slash (n : Str) :
    ∃ k : Int, strFind (codesOf n) [47] 1 = .ok k ∧ decide (k = -1) = noSlashAfterFirst n := by
  unfold strFind noSlashAfterFirst
  rw [codesOf_drop]
  simp only [List.isEmpty_cons, Bool.false_eq_true, if_false]
  cases hf : findGo [47] 1 (codesOf (n.drop 1)) with
  | none =>
    have := (findGo_slash (n.drop 1) 1).mp hf
    exact ⟨-1, rfl, by rw [this]; rfl⟩
  | some i =>
    have hne : ¬ (findGo [47] 1 (codesOf (n.drop 1)) = none) := by rw [hf]; simp
    have hc : (n.drop 1).contains '/' = true := by
      cases h : (n.drop 1).contains '/'
      · exact absurd ((findGo_slash (n.drop 1) 1).mpr h) hne
      · rfl
    refine ⟨(i : Int), rfl, ?_⟩
    rw [hc]
    have : ¬ ((i : Int) = -1) := by omega
    simp [this]

/-- `name.replace("/", "")` is the model's `filter (· != '/')` -/
theorem strReplace_slash (n : Str) : strReplace (codesOf n) [47] [] = .ok (codesOf (n.filter (· != '/'))) := by
  unfold strReplace
  simp only [List.isEmpty_cons, Bool.false_eq_true, if_false]
  rw [replaceGo_single]
  congr 1
  induction n with
  | nil => rfl
  | cons c t ih =>
    rw [codesOf_cons, List.flatMap_cons, ih, List.filter_cons]
    by_cases h : c = '/'
    · subst h; simp [codesOf]
    · have : ¬ (c.toNat = 47) := fun e => h ((toNat_eq_47 c).mp e)
      simp [h, this, codesOf]

/-! ### `_dim_key` -/

theorem src_dim_key_eq (name : Str) :
    runItem [("name", .str (codesOf name))] Gen.src_dim_key "@ret" = .ok (.str (codesOf (dimKey name))) := by
  unfold Gen.src_dim_key dimKey
  obtain ⟨k, hk, hd⟩ := strFind_slash name
  simp (decide := true) only [runItem, exec, eval, bind_ok', lookup_cons_eq, lookup_cons_ne, lookup_setVar_eq,
    lookup_setVar_ne, asInt_int, hk, truthy_bool, hd, strReplace_slash]
  cases noSlashAfterFirst name <;>
    simp (decide := true) only [if_true, if_false, Bool.false_eq_true, exec, bind_ok', lookup_setVar_eq, lookup_cons_eq]

/-! ### elements and lists -/

/-- an XML element as MiniPy sees it: its attribute dict -/
def elemOf (d : XNode) : List (List Nat × List Nat) := d.attrs.map fun kv => (codesOf kv.1, codesOf kv.2)

/-- a list of strings (`[]` is the untyped empty list) -/
def mkS : List (List Nat) → Val
  | [] => .ilist []
  | l => .slist l

theorem assocStr_elemOf (d : XNode) (k : Str) :
    assocStr (elemOf d) (codesOf k) = (match d.get k with | some v => .str (codesOf v) | none => .none) := by
  unfold elemOf XNode.get
  induction d.attrs with
  | nil => rfl
  | cons kv t ih =>
    obtain ⟨a, b⟩ := kv
    simp only [List.map_cons, assocStr, List.lookup]
    by_cases h : a = k
    · subst h; simp
    · have h1 : ¬ (codesOf a = codesOf k) := fun e => h (codesOf_inj.mp e)
      have h2 : (k == a) = false := by simp only [beq_eq_false_iff_ne, ne_eq]; exact fun e => h e.symm
      simp only [h1, if_false, h2, ih]

theorem appendVal_mkS (acc : List (List Nat)) (s : List Nat) : appendVal (mkS acc) (.str s) = .ok (mkS (acc ++ [s])) := by
  cases acc with
  | nil => rfl
  | cons a t => rfl

theorem name_codes : codesOf "name".toList = [110, 97, 109, 101] := by decide
theorem size_codes : codesOf "size".toList = [115, 105, 122, 101] := by decide

/-! ### `get_dim_names` -/

/-- what one turn of the loop adds -/
def namesStep (d : XNode) : List (List Nat) :=
  match d.get "name".toList with
  | some n => [codesOf (dimKey n)]
  | none => []

theorem getDimNames_flat (ds : List XNode) :
    (ds.filterMap fun d => (d.get "name".toList).map fun name =>
        if noSlashAfterFirst name then name.filter (· != '/') else name).map codesOf = ds.flatMap namesStep := by
  induction ds with
  | nil => rfl
  | cons d t ih =>
    simp only [List.filterMap_cons, List.flatMap_cons, namesStep]
    cases hg : d.get "name".toList with
    | none => simpa using ih
    | some n => simp only [Option.map_some, List.map_cons, ih, dimKey]; rfl

/-- the loop body, from any environment in which `dimensions` holds `acc` -/
theorem dim_names_turn (body : Stmt) (hb : Gen.src_get_dim_names =
      .seq (.assign "dimensions" .emptyList) (.seq (.forIn "dimension_element" (.var "dimension_elements") body)
        (.assign "@ret" (.var "dimensions"))))
    (acc : List (List Nat)) (d : XNode) (env : Env) (h : lookup env "dimensions" = .ok (mkS acc)) :
    ∃ env', exec (setVar env "dimension_element" (.elem (elemOf d))) body = .ok env' ∧
      lookup env' "dimensions" = .ok (mkS (acc ++ namesStep d)) := by
  unfold Gen.src_get_dim_names at hb
  injection hb with _ hb
  injection hb with hb _
  injection hb with _ _ hb
  subst hb
  have hname := assocStr_elemOf d "name".toList
  rw [name_codes] at hname
  unfold namesStep
  cases hg : d.get "name".toList with
  | none =>
    simp only [hg] at hname
    simp (decide := true) only [exec, eval, bind_ok', lookup_setVar_eq, lookup_setVar_ne, hname, truthy_bool, if_true]
    exact ⟨_, rfl, by simp (decide := true) only [lookup_setVar_ne, h, List.append_nil]⟩
  | some n =>
    simp only [hg] at hname
    obtain ⟨k, hk, hd⟩ := strFind_slash n
    cases hn : noSlashAfterFirst n
    · rw [hn] at hd
      simp (decide := true) only [exec, eval, bind_ok', lookup_setVar_eq, lookup_setVar_ne, hname, truthy_bool,
        if_false, Bool.false_eq_true, asInt_int, hk, hd, h, appendVal_mkS]
      exact ⟨_, rfl, by simp (decide := true) only [lookup_setVar_eq, dimKey, hn, if_false, Bool.false_eq_true]⟩
    · rw [hn] at hd
      simp (decide := true) only [exec, eval, bind_ok', lookup_setVar_eq, lookup_setVar_ne, hname, truthy_bool,
        if_false, if_true, Bool.false_eq_true, asInt_int, hk, hd, h, appendVal_mkS, strReplace_slash]
      exact ⟨_, rfl, by simp (decide := true) only [lookup_setVar_eq, dimKey, hn, if_true]⟩

theorem iterItems_elems (l : List (List (List Nat × List Nat))) : iterItems (.elems l) = .ok (l.map .elem) := rfl

/-- `get_dim_names(element)` is `getDimNames`: for every element, run on the list of its `Dim` children -/
theorem src_get_dim_names_eq (e : XNode) :
    runItem [("dimension_elements", .elems ((e.findall "Dim".toList).map elemOf))] Gen.src_get_dim_names "@ret"
      = .ok (mkS ((getDimNames e).map codesOf)) := by
  unfold getDimNames
  rw [getDimNames_flat]
  generalize e.findall "Dim".toList = ds
  -- expose the loop
  have hshape : ∃ body, Gen.src_get_dim_names =
      .seq (.assign "dimensions" .emptyList) (.seq (.forIn "dimension_element" (.var "dimension_elements") body)
        (.assign "@ret" (.var "dimensions"))) := ⟨_, rfl⟩
  obtain ⟨body, hb⟩ := hshape
  have sim := forIn_sim (σ := List (List Nat)) "dimension_element" body
    (fun acc env => lookup env "dimensions" = .ok (mkS acc)) (fun d => .elem (elemOf d))
    (fun acc d => .ok (acc ++ namesStep d)) ds
    (fun acc d env _ h => dim_names_turn body hb acc d env h) []
    (setVar [("dimension_elements", .elems (ds.map elemOf))] "dimensions" (.ilist [])) (lookup_setVar_eq _ _ _)
  rw [foldlM_ok_append] at sim
  obtain ⟨env', hfold, hA⟩ := sim
  rw [hb]
  simp (decide := true) only [runItem, exec, eval, bind_ok', lookup_setVar_ne, lookup_cons_eq, iterItems_elems,
    List.map_map, Function.comp_def] at hfold ⊢
  rw [hfold]
  simp (decide := true) only [bind_ok', hA, lookup_setVar_eq, List.nil_append]

/-! ### `int(text)` on a run of digits: the model's `parseIntChars` and MiniPy's `pyInt` agree -/

theorem isDigit_toNat (c : Char) : Pydap.isDigit c = MiniPy.isDigit c.toNat := by
  simp only [Pydap.isDigit, MiniPy.isDigit, Char.le_def, Char.toNat]
  rfl

theorem isWs_of_digit (c : Char) (h : Pydap.isDigit c = true) : isWs c = false := by
  rw [isDigit_toNat] at h
  simp only [MiniPy.isDigit, Bool.and_eq_true, decide_eq_true_eq] at h
  unfold isWs
  have e : ∀ k : Char, k.toNat < 48 → (decide (c = k)) = false := by
    intro k hk
    simp only [decide_eq_false_iff_not]
    intro e; subst e; omega
  rw [e ' ' (by decide), e '\t' (by decide), e '\n' (by decide), e '\r' (by decide), e '\x0b' (by decide),
    e '\x0c' (by decide)]
  rfl

theorem parseDigits_digits (cs : List Char) (h : ∀ c ∈ cs, Pydap.isDigit c = true) (acc : Nat) (pd : Bool)
    (hne : cs ≠ [] ∨ pd = true) : parseDigits cs acc pd = some (digitsVal (codesOf cs) acc) := by
  induction cs generalizing acc pd with
  | nil =>
    cases hne with
    | inl h => exact absurd rfl h
    | inr h => subst h; rfl
  | cons c r ih =>
    have hc := h c (by simp)
    simp only [parseDigits, hc, if_true, codesOf_cons, digitsVal]
    exact ih (fun x hx => h x (by simp [hx])) _ true (Or.inr rfl)

theorem stripWs_digits (t : List Char) (h : ∀ c ∈ t, Pydap.isDigit c = true) : stripWs t = t := by
  unfold stripWs
  have h1 : t.dropWhile isWs = t := by
    cases t with
    | nil => rfl
    | cons c r => rw [List.dropWhile_cons_of_neg]; rw [isWs_of_digit c (h c (by simp))]; simp
  rw [h1]
  have h2 : t.reverse.dropWhile isWs = t.reverse := by
    cases hr : t.reverse with
    | nil => rfl
    | cons c r =>
      have : c ∈ t := by rw [← List.mem_reverse, hr]; simp
      rw [List.dropWhile_cons_of_neg]; rw [isWs_of_digit c (h c this)]; simp
  rw [h2, List.reverse_reverse]

/-- a non-empty run of ASCII digits is read as the same number by the model and by MiniPy -/
theorem int_agree (t : List Char) (hne : t ≠ []) (h : ∀ c ∈ t, Pydap.isDigit c = true) :
    ∃ n : Nat, parseIntChars t = some (n : Int) ∧ pyInt (.str (codesOf t)) = .ok (n : Int) := by
  refine ⟨digitsVal (codesOf t) 0, ?_, ?_⟩
  · unfold parseIntChars
    rw [stripWs_digits t h]
    have hp : parseNatChars t = some (digitsVal (codesOf t) 0) := parseDigits_digits t h 0 false (Or.inl hne)
    cases t with
    | nil => exact absurd rfl hne
    | cons c r =>
      have hc := h c (by simp)
      split
      · rename_i ds heq; injection heq with h1 _; subst h1; exact absurd hc (by decide)
      · rename_i ds heq; injection heq with h1 _; subst h1; exact absurd hc (by decide)
      · rw [hp]; rfl
  · have hall : (codesOf t).all MiniPy.isDigit = true := by
      simp only [List.all_eq_true, codesOf, List.mem_map]
      rintro x ⟨c, hc, rfl⟩
      rw [← isDigit_toNat]; exact h c hc
    have hemp : (codesOf t).isEmpty = false := by cases t <;> simp_all [codesOf]
    simp only [pyInt, hall, hemp, Bool.not_false, Bool.and_self, if_true]

/-! ### `get_dim_sizes` -/

/-- the dict `named_dimensions` built by the insertions `nd` (the last insertion for a key is the one found) -/
def ndVal (nd : List (Str × Int)) : Val := .sidict (nd.reverse.map fun kv => (codesOf kv.1, kv.2))

theorem assocInt_map (l : List (Str × Int)) (k : Str) :
    assocInt (l.map fun kv => (codesOf kv.1, kv.2)) (codesOf k)
      = (match (l.find? (·.1 == k)).map (·.2) with | some n => .ok (.int n) | none => .error .keyError) := by
  induction l with
  | nil => rfl
  | cons kv t ih =>
    obtain ⟨a, b⟩ := kv
    simp only [List.map_cons, assocInt, List.find?_cons]
    by_cases h : a = k
    · subst h; simp
    · have h1 : ¬ (codesOf a = codesOf k) := fun e => h (codesOf_inj.mp e)
      have h2 : (a == k) = false := by simp only [beq_eq_false_iff_ne, ne_eq]; exact h
      simp only [h1, if_false, h2, ih]

theorem assocInt_nd (nd : List (Str × Int)) (k : Str) :
    assocInt (nd.reverse.map fun kv => (codesOf kv.1, kv.2)) (codesOf k)
      = (match dictGet nd k with | some n => .ok (.int n) | none => .error .keyError) := assocInt_map nd.reverse k

/-- the exception classes of the model as MiniPy's -/
def errOf : Dmr.Err → MiniPy.Err
  | .keyError => .keyError
  | .typeError => .typeError
  | .valueError => .valueError
  | _ => .unsupported

/-- every anonymous `Dim` that has a `size` writes it as a run of digits -/
def sizesPlain (ds : List XNode) : Prop :=
  ∀ d ∈ ds, d.get "name".toList = none → ∀ t, d.get "size".toList = some t → t ≠ [] ∧ ∀ c ∈ t, Pydap.isDigit c = true

theorem appendVal_int (acc : List Int) (i : Int) : appendVal (.ilist acc) (.int i) = .ok (.ilist (acc ++ [i])) := by
  cases acc <;> rfl

def sizesStep (nd : List (Str × Int)) (acc : List Int) (d : XNode) : Except MiniPy.Err (List Int) :=
  match dimSize nd d with
  | .ok n => .ok (acc ++ [n])
  | .error e => .error (errOf e)

theorem sizes_fold (nd : List (Str × Int)) (ds : List XNode) (acc : List Int) :
    ds.foldlM (sizesStep nd) acc = (match ds.mapM (dimSize nd) with
      | .ok l => .ok (acc ++ l)
      | .error e => .error (errOf e)) := by
  induction ds generalizing acc with
  | nil => simp [List.mapM_nil, pure, Except.pure]
  | cons d t ih =>
    simp only [List.foldlM_cons, List.mapM_cons, sizesStep]
    cases hd : dimSize nd d with
    | error e => rfl
    | ok n =>
      simp only [bind_ok', ih]
      cases ht : t.mapM (dimSize nd) with
      | error e => rfl
      | ok l => simp [bind, Except.bind, pure, Except.pure]

theorem dim_sizes_turn (body : Stmt) (hb : Gen.src_get_dim_sizes =
      .seq (.assign "dimension_sizes" .emptyList) (.seq (.forIn "dimension_element" (.var "dimension_elements") body)
        (.assign "@ret" (.var "dimension_sizes"))))
    (nd : List (Str × Int)) (acc : List Int) (d : XNode)
    (hd : d.get "name".toList = none → ∀ t, d.get "size".toList = some t → t ≠ [] ∧ ∀ c ∈ t, Pydap.isDigit c = true)
    (env : Env)
    (h : lookup env "dimension_sizes" = .ok (.ilist acc) ∧ lookup env "named_dimensions" = .ok (ndVal nd)) :
    match sizesStep nd acc d with
    | .ok s' => ∃ env', exec (setVar env "dimension_element" (.elem (elemOf d))) body = .ok env' ∧
        (lookup env' "dimension_sizes" = .ok (.ilist s') ∧ lookup env' "named_dimensions" = .ok (ndVal nd))
    | .error e => exec (setVar env "dimension_element" (.elem (elemOf d))) body = .error e := by
  unfold Gen.src_get_dim_sizes at hb
  injection hb with _ hb
  injection hb with hb _
  injection hb with _ _ hb
  subst hb
  obtain ⟨h1, h2⟩ := h
  have hname := assocStr_elemOf d "name".toList
  have hsize := assocStr_elemOf d "size".toList
  rw [name_codes] at hname
  rw [size_codes] at hsize
  unfold sizesStep dimSize
  cases hg : d.get "name".toList with
  | none =>
    simp only [hg] at hname
    cases hz : d.get "size".toList with
    | none =>
      simp only [hz] at hsize
      simp (decide := true) only [exec, eval, bind_ok', bind_error', lookup_setVar_eq, lookup_setVar_ne, hname, hsize,
        truthy_bool, if_true, pyInt_none, errOf]
    | some t =>
      simp only [hz] at hsize
      obtain ⟨hne, hdig⟩ := hd hg t hz
      obtain ⟨n, hp, hq⟩ := int_agree t hne hdig
      simp (decide := true) only [hp, exec, eval, bind_ok', lookup_setVar_eq, lookup_setVar_ne, hname, hsize,
        truthy_bool, if_true, hq, h1, appendVal_int]
      exact ⟨_, rfl, by simp (decide := true) only [lookup_setVar_eq, lookup_setVar_ne, h2, and_self]⟩
  | some nm =>
    simp only [hg] at hname
    obtain ⟨k, hk, hdk⟩ := strFind_slash nm
    have hkey : (if noSlashAfterFirst nm then nm.filter (· != '/') else nm) = dimKey nm := rfl
    simp only [hkey]
    have hlook := assocInt_nd nd (dimKey nm)
    cases hn : noSlashAfterFirst nm
    · rw [hn] at hdk
      have hkk : dimKey nm = nm := by simp [dimKey, hn]
      rw [hkk] at hlook ⊢
      cases hget : dictGet nd nm with
      | none =>
        simp only [hget] at hlook
        simp (decide := true) only [exec, eval, bind_ok', bind_error', lookup_setVar_eq, lookup_setVar_ne, hname,
          truthy_bool, if_false, if_true, Bool.false_eq_true, asInt_int, hk, hdk, h1, h2, ndVal, hlook, errOf]
      | some n =>
        simp only [hget] at hlook
        simp (decide := true) only [exec, eval, bind_ok', bind_error', lookup_setVar_eq, lookup_setVar_ne, hname,
          truthy_bool, if_false, if_true, Bool.false_eq_true, asInt_int, hk, hdk, h1, h2, ndVal, hlook, appendVal_int]
        exact ⟨_, rfl, by simp (decide := true) only [lookup_setVar_eq, lookup_setVar_ne, h2, ndVal, and_self]⟩
    · rw [hn] at hdk
      have hkk : dimKey nm = nm.filter (· != '/') := by simp [dimKey, hn]
      rw [hkk] at hlook ⊢
      cases hget : dictGet nd (nm.filter (· != '/')) with
      | none =>
        simp only [hget] at hlook
        simp (decide := true) only [exec, eval, bind_ok', bind_error', lookup_setVar_eq, lookup_setVar_ne, hname,
          truthy_bool, if_false, if_true, Bool.false_eq_true, asInt_int, hk, hdk, h1, h2, ndVal, hlook, errOf,
          strReplace_slash]
      | some n =>
        simp only [hget] at hlook
        simp (decide := true) only [exec, eval, bind_ok', bind_error', lookup_setVar_eq, lookup_setVar_ne, hname,
          truthy_bool, if_false, if_true, Bool.false_eq_true, asInt_int, hk, hdk, h1, h2, ndVal, hlook, appendVal_int,
          strReplace_slash]
        exact ⟨_, rfl, by simp (decide := true) only [lookup_setVar_eq, lookup_setVar_ne, h2, ndVal, and_self]⟩

/-- `get_dim_sizes(element, named_dimensions)` is `varShape`: same sizes in document order, and the same exception
    (`int(None)` → TypeError, unknown dimension → KeyError) at the first element that raises -/
theorem src_get_dim_sizes_eq (nd : List (Str × Int)) (e : XNode) (hs : sizesPlain (e.findall "Dim".toList)) :
    runItem [("dimension_elements", .elems ((e.findall "Dim".toList).map elemOf)), ("named_dimensions", ndVal nd)]
      Gen.src_get_dim_sizes "@ret"
      = (match varShape nd e with | .ok l => .ok (.ilist l) | .error er => .error (errOf er)) := by
  unfold varShape
  revert hs
  generalize e.findall "Dim".toList = ds
  intro hs
  have hshape : ∃ body, Gen.src_get_dim_sizes =
      .seq (.assign "dimension_sizes" .emptyList) (.seq (.forIn "dimension_element" (.var "dimension_elements") body)
        (.assign "@ret" (.var "dimension_sizes"))) := ⟨_, rfl⟩
  obtain ⟨body, hb⟩ := hshape
  have sim := forIn_sim (σ := List Int) "dimension_element" body
    (fun acc env => lookup env "dimension_sizes" = .ok (.ilist acc) ∧ lookup env "named_dimensions" = .ok (ndVal nd))
    (fun d => .elem (elemOf d)) (sizesStep nd) ds
    (fun acc d env hm h => by
      have t := dim_sizes_turn body hb nd acc d (hs d hm) env h
      cases hq : sizesStep nd acc d <;> simp only [hq] at t ⊢ <;> exact t) []
    (setVar [("dimension_elements", .elems (ds.map elemOf)), ("named_dimensions", ndVal nd)] "dimension_sizes" (.ilist []))
    ⟨lookup_setVar_eq _ _ _, by simp (decide := true) only [lookup_setVar_ne, lookup_cons_ne, lookup_cons_eq]⟩
  rw [sizes_fold] at sim
  rw [hb]
  simp (decide := true) only [runItem, exec, eval, bind_ok', lookup_setVar_ne, lookup_cons_eq, iterItems_elems,
    List.map_map, Function.comp_def] at sim ⊢
  cases hm : ds.mapM (dimSize nd) with
  | error er =>
    rw [hm] at sim
    simp only at sim
    rw [sim]; rfl
  | ok l =>
    rw [hm] at sim
    obtain ⟨env', hfold, hA, _⟩ := sim
    rw [hfold]
    simp (decide := true) only [bind_ok', hA, lookup_setVar_eq, List.nil_append]

end Pydap
