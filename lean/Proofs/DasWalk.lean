import Proofs.DasLocal
/-! The reverse walk of `add_attributes` over a whole variable tree, below the top level (C08). -/
namespace Pydap.Das

mutual
/-- the entry a variable contributes to its parent's container in the parsed DAS (no name collisions) -/
def varEntry : Var → Text × AVal
  | .mk .struct n a cs => (n, .dict (sortKeys a ++ varsEntries cs))
  | .mk .seq n a cs => (n, .dict (sortKeys a ++ varsEntries cs))
  | .mk .base n a _ => (n, .dict (sortKeys a))
  | .mk .grid n a _ => (n, .dict (sortKeys a))
def varsEntries : List Var → Dict
  | [] => []
  | v :: rest => varEntry v :: varsEntries rest
end

def pre (n : Text) (pd : List Text × Dict) : List Text × Dict := (n :: pd.1, pd.2)

mutual
/-- what every variable must hold afterwards, in visiting order (ids relative to the parent): its own
    attributes in key order; a Grid's members (never printed, excluded from the property) hold nothing -/
def expectVar : Var → List (List Text × Dict)
  | .mk .struct n a cs => (expectVars cs).map (pre n) ++ [([n], sortKeys a)]
  | .mk .seq n a cs => (expectVars cs).map (pre n) ++ [([n], sortKeys a)]
  | .mk .base n a _ => [([n], sortKeys a)]
  | .mk .grid n a cs => (cs.reverse.map fun m => ([n, m.name], [])) ++ [([n], sortKeys a)]
def expectVars : List Var → List (List Text × Dict)
  | [] => []
  | v :: rest => expectVars rest ++ expectVar v
end

mutual
/-- structural guards: names of one node (attributes and children) are pairwise different — the complement of
    finding class C08.attr_named_like_child plus Python's own "dict keys / sibling names are distinct" -/
def VarG : Var → Prop
  | .mk .struct _ a cs => VarsG cs ∧ (keys a ++ cs.map Var.name).Nodup
  | .mk .seq _ a cs => VarsG cs ∧ (keys a ++ cs.map Var.name).Nodup
  | .mk .base _ a cs => (keys a).Nodup ∧ cs = []
  | .mk .grid _ a cs => (keys a).Nodup ∧ ∀ m ∈ cs, m.children = [] ∧ ∀ e, dget a m.name ≠ some (.dict e)
def VarsG : List Var → Prop
  | [] => True
  | v :: rest => VarG v ∧ VarsG rest
end

theorem insKey_perm (kv : Text × AVal) (l : Dict) : (insKey kv l).Perm (kv :: l) := by
  induction l with
  | nil => simp [insKey]
  | cons x rest ih =>
    unfold insKey
    split
    · exact List.Perm.refl _
    · exact (List.Perm.cons x ih).trans (List.Perm.swap kv x rest)

theorem sortKeys_perm (l : Dict) : (sortKeys l).Perm l := by
  induction l with
  | nil => exact List.Perm.refl _
  | cons kv rest ih => exact (insKey_perm kv _).trans (List.Perm.cons kv ih)

theorem keys_sort_perm (l : Dict) : (keys (sortKeys l)).Perm (keys l) := (sortKeys_perm l).map _

/-- on a dict with distinct keys, lookup is membership of the pair -/
theorem dget_eq_some_iff (l : Dict) (h : (keys l).Nodup) (k : Text) (v : AVal) :
    dget l k = some v ↔ (k, v) ∈ l := by
  induction l with
  | nil => simp [dget_nil]
  | cons kv rest ih =>
    obtain ⟨a, b⟩ := kv
    have hn : a ∉ keys rest ∧ (keys rest).Nodup := by simpa [keys] using h
    rw [dget_cons]
    by_cases hk : k = a
    · subst hk
      simp only [if_pos, List.mem_cons, Prod.mk.injEq, true_and]
      constructor
      · intro e; injection e with e; exact Or.inl e.symm
      · rintro (e | e)
        · rw [e]
        · exact absurd (List.mem_map_of_mem (f := (·.1)) e) hn.1
    · simp only [List.mem_cons, Prod.mk.injEq, hk, false_and, false_or, if_false]
      exact ih hn.2

/-- `sorted(keys)` does not change what a name maps to -/
theorem dget_sortKeys (a : Dict) (h : (keys a).Nodup) (k : Text) : dget (sortKeys a) k = dget a k := by
  have hs : (keys (sortKeys a)).Nodup := (keys_sort_perm a).nodup_iff.mpr h
  cases hv : dget a k with
  | none =>
    cases hv' : dget (sortKeys a) k with
    | none => rfl
    | some v =>
      have := (sortKeys_perm a).mem_iff.mp ((dget_eq_some_iff _ hs k v).mp hv')
      rw [(dget_eq_some_iff a h k v).mpr this] at hv; cases hv
  | some v =>
    exact (dget_eq_some_iff _ hs k v).mpr ((sortKeys_perm a).mem_iff.mpr ((dget_eq_some_iff a h k v).mp hv))

theorem nodup_sort_append (a : Dict) (xs : List Text) (h : (keys a ++ xs).Nodup) :
    (keys (sortKeys a) ++ xs).Nodup :=
  ((keys_sort_perm a).append_right xs).nodup_iff.mpr h

theorem nestedAll_append (ps qs : List (List Text)) : ∀ A : Dict,
    nestedAll A (ps ++ qs) =
      match nestedAll A ps with
      | .error e => .error e
      | .ok (A1, o1) =>
        match nestedAll A1 qs with
        | .error e => .error e
        | .ok (A2, o2) => .ok (A2, o1 ++ o2) := by
  induction ps with
  | nil =>
    intro A
    simp only [List.nil_append, nestedAll]
    cases nestedAll A qs with
    | error e => rfl
    | ok r => rfl
  | cons p ps ih =>
    intro A
    simp only [List.cons_append, nestedAll]
    cases nestedStep A p [] with
    | error e => rfl
    | ok r =>
      obtain ⟨A1, va⟩ := r
      simp only [ih A1]
      cases nestedAll A1 ps with
      | error e => rfl
      | ok r1 =>
        obtain ⟨A2, o1⟩ := r1
        simp only
        cases nestedAll A2 qs with
        | error e => rfl
        | ok r2 => rfl

mutual
theorem walkVar_pre : (v : Var) → (p : List Text) → walkVar p v = (walkVar [] v).map (p ++ ·)
  | .mk k n a cs, p => by
    simp only [walkVar, List.map_cons, List.nil_append]
    rw [walkVars_pre cs (p ++ [n]), walkVars_pre cs [n]]
    simp [List.map_map, Function.comp_def, List.append_assoc]
theorem walkVars_pre : (vs : List Var) → (p : List Text) → walkVars p vs = (walkVars [] vs).map (p ++ ·)
  | [], p => by simp [walkVars]
  | v :: rest, p => by
    simp only [walkVars, List.map_append]
    rw [walkVar_pre v p, walkVars_pre rest p]
end

theorem walkVar_nil (k : Kind) (n : Text) (a : Dict) (cs : List Var) :
    (walkVar [] (.mk k n a cs)).reverse = ((walkVars [] cs).reverse).map (n :: ·) ++ [[n]] := by
  simp only [walkVar, List.nil_append, List.reverse_cons]
  rw [walkVars_pre cs [n]]
  simp [List.map_reverse]

mutual
theorem walkVar_ne : (v : Var) → ∀ p ∈ walkVar [] v, p ≠ []
  | .mk k n a cs => by
    intro p hp
    simp only [walkVar, List.nil_append, List.mem_cons] at hp
    rcases hp with rfl | hp
    · simp
    · rw [walkVars_pre cs [n]] at hp
      simp only [List.mem_map] at hp
      obtain ⟨q, _, rfl⟩ := hp
      simp
theorem walkVars_ne : (vs : List Var) → ∀ p ∈ walkVars [] vs, p ≠ []
  | [] => by simp [walkVars]
  | v :: rest => by
    intro p hp
    simp only [walkVars, List.mem_append] at hp
    rcases hp with hp | hp
    · exact walkVar_ne v p hp
    · exact walkVars_ne rest p hp
end

theorem dget_last (B : Dict) (n : Text) (x : AVal) (h : n ∉ keys B) : dget (B ++ [(n, x)]) n = some x := by
  rw [dget_append_left B _ n h, dget_cons]; simp

theorem dset_last (B : Dict) (n : Text) (x y : AVal) (h : n ∉ keys B) :
    dset (B ++ [(n, x)]) n y = B ++ [(n, y)] := by
  induction B with
  | nil => simp [dset]
  | cons kv rest ih =>
    simp only [keys, List.map_cons, List.mem_cons, not_or] at h
    rw [List.cons_append, dset_cons, if_neg (fun e => h.1 e.symm), ih h.2]; rfl

/-- the variable's own step below the top level: its container is the last entry of the parent's dict -/
theorem own_step (B S : Dict) (n : Text) (hn : n ∉ keys B) (hS : (keys S).Nodup) :
    nestedStep (B ++ [(n, .dict S)]) [n] [] = .ok (B, S) := by
  have h1 := dget_last B n (.dict S) hn
  have h2 : dupdate [] S = S := by simpa using dupdate_nodup S [] (by simpa using hS)
  simp [nestedStep, reduceGet, h1, h2, setNested, derase_append_single B n _ hn]

/-- grid members: no container — at most a plain attribute of the grid with the member's name, which stays where it
    is (the repaired `add_attributes`) — nothing happens -/
theorem members_step (M : Dict) (ms : List Var) (h : ∀ m ∈ ms, ∀ e, dget M m.name ≠ some (.dict e)) :
    nestedAll M (ms.map fun m => [m.name]) = .ok (M, ms.map fun m => ([m.name], [])) := by
  induction ms with
  | nil => simp [nestedAll]
  | cons m rest ih =>
    have hm := h m (by simp)
    have := ih (fun x hx => h x (by simp [hx]))
    cases hg : dget M m.name with
    | none => simp [nestedAll, nestedStep, reduceGet, hg, this]
    | some v =>
      cases v with
      | sc y => simp [nestedAll, nestedStep, reduceGet, hg, this]
      | list y => simp [nestedAll, nestedStep, reduceGet, hg, this]
      | dict e => exact absurd hg (hm e)

theorem walk_leaves (ms : List Var) (h : ∀ m ∈ ms, m.children = []) :
    walkVars [] ms = ms.map fun m => [m.name] := by
  induction ms with
  | nil => simp [walkVars]
  | cons m rest ih =>
    obtain ⟨k, n, a, cs⟩ := m
    have hc : cs = [] := h (.mk k n a cs) (by simp)
    subst hc
    simp [walkVars, walkVar, Var.name, ih (fun x hx => h x (by simp [hx]))]

end Pydap.Das
