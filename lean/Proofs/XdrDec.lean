/-
  C05/C01: the client's decoder (model of handlers/dap.py) inverts the reference encoder.
-/
import Proofs.XdrBasic
import Proofs.XdrEnc
namespace Pydap.Xdr
open Pydap.XdrSpec

theorem read_append (n : Nat) (a r : Bytes) (h : a.length = n) : read n (a ++ r) = .ok (a, r) := by
  have : ¬ (a.length + r.length < n) := by omega
  simp [read, List.take_left' h, List.drop_left' h, this]

theorem readLen_be (n : Nat) (r : Bytes) (h : n < 2147483648) : readLen (be 4 n ++ r) = .ok (n, r) := by
  have hw : (dtypeItemsize Gen.DAP2_ARRAY_LENGTH_NUMPY_TYPE).getD 0 = 4 := by decide
  have hm : n % 256 ^ 4 = n := Nat.mod_eq_of_lt (by omega)
  simp [readLen, hw, read_append 4 (be 4 n) r (be_length 4 n), beNat_be, hm]
  omega

theorem asciiDecode_printable (b : Bytes) (h : b.all printable = true) : asciiDecode b = .ok b := by
  have : b.all (fun c => decide (c.toNat < 128)) = true := by
    rw [List.all_eq_true] at h ⊢
    intro x hx
    have := h x hx
    simp [printable] at this
    simp
    omega
  simp [asciiDecode, this]

theorem rstrip0_printable (b : Bytes) (h : b.all printable = true) : rstrip0 b = b := by
  unfold rstrip0
  have : b.reverse.dropWhile (· == 0) = b.reverse := by
    cases hb : b.reverse with
    | nil => rfl
    | cons x xs =>
      have hx : x ∈ b := by
        have : x ∈ b.reverse := by rw [hb]; simp
        simpa using this
      have := (List.all_eq_true.mp h) x hx
      have hx0 : (x == 0) = false := by
        simp [printable] at this
        cases h0 : x == 0
        · rfl
        · simp at h0; subst h0; simp at this
      simp [List.dropWhile, hx0]
  rw [this, List.reverse_reverse]

theorem readString_enc (b r : Bytes) (hp : b.all printable = true) (hl : b.length < 2147483648) :
    readString (encString b ++ r) = .ok (b, r) := by
  have e : encString b ++ r = be 4 b.length ++ (b ++ (zeros (pad4 b.length) ++ r)) := by
    simp [encString, word]
  rw [e]
  simp [readString, readLen_be _ _ hl, read_append b.length b _ rfl,
    read_append (pad4 b.length) (zeros (pad4 b.length)) r (zeros_length _), asciiDecode_printable b hp]


theorem wfStr (v : Val) (h : wfVal .string v = true) :
    ∃ b, v = .str b ∧ b.all printable = true ∧ b.length < 2147483648 := by
  cases v with
  | num n => simp [wfVal] at h
  | str b => simp [wfVal] at h; exact ⟨b, rfl, by simpa using h.1, h.2⟩

theorem readStrings_enc : ∀ (vs : List Val) (r : Bytes), vs.all (wfVal .string) = true →
    readStrings vs.length ((vs.map (encElem .string)).flatten ++ r) = .ok (vs, r)
  | [], r, _ => by simp [readStrings]
  | v :: vs, r, h => by
    simp only [List.all_cons, Bool.and_eq_true] at h
    obtain ⟨b, rfl, hp, hl⟩ := wfStr v h.1
    have e : ((Val.str b :: vs).map (encElem .string)).flatten ++ r
        = be 4 b.length ++ (b ++ (zeros (pad4 b.length) ++ ((vs.map (encElem .string)).flatten ++ r))) := by
      simp [encElem, encString, word]
    rw [e]
    simp [readStrings, readLen_be _ _ hl, read_append b.length b _ rfl,
      read_append (pad4 b.length) (zeros (pad4 b.length)) _ (zeros_length _),
      readStrings_enc vs r h.2]

theorem decodeAll_wf : ∀ (vs : List Val), vs.all (wfVal .string) = true → decodeAll vs = .ok vs
  | [], _ => by simp [decodeAll]
  | v :: vs, h => by
    simp only [List.all_cons, Bool.and_eq_true] at h
    obtain ⟨b, rfl, hp, hl⟩ := wfStr v h.1
    simp [decodeAll, asciiDecode_printable b hp, rstrip0_printable b hp, decodeAll_wf vs h.2]

theorem wfNum (ty : Ty) (hs : ty ≠ .string) (v : Val) (h : wfVal ty v = true) : ∃ n, v = .num n := by
  cases v with
  | num n => exact ⟨n, rfl⟩
  | str b => cases ty <;> simp [wfVal] at h; exact absurd rfl hs

theorem toWire_length (ty : Ty) (n : Int) : (toWire ty (.num n)).length = wireWidth ty := by
  simp [toWire]

theorem fromWireMany_enc (ty : Ty) (hs : ty ≠ .string) : ∀ (vs : List Val), vs.all (wfVal ty) = true →
    fromWireMany ty vs.length (vs.map (toWire ty)).flatten = .ok vs
  | [], _ => by simp [fromWireMany]
  | v :: vs, h => by
    simp only [List.all_cons, Bool.and_eq_true] at h
    obtain ⟨n, rfl⟩ := wfNum ty hs v h.1
    simp [fromWireMany, List.take_left' (toWire_length ty n), List.drop_left' (toWire_length ty n),
      fromWire_toWire ty n h.1, fromWireMany_enc ty hs vs h.2]

theorem flatten_toWire_length (ty : Ty) (hs : ty ≠ .string) : ∀ (vs : List Val), vs.all (wfVal ty) = true →
    (vs.map (toWire ty)).flatten.length = wireWidth ty * vs.length
  | [], _ => by simp
  | v :: vs, h => by
    simp only [List.all_cons, Bool.and_eq_true] at h
    obtain ⟨n, rfl⟩ := wfNum ty hs v h.1
    simp [toWire_length, flatten_toWire_length ty hs vs h.2, Nat.mul_add]
    omega


theorem convert_scalar (ty : Ty) (v : Val) (r : Bytes) (h : wfVal ty v = true) :
    convertStream ty [] (encScalar ty v ++ r) = .ok (.scalar v, r) := by
  by_cases hs : ty = .string
  · subst hs
    obtain ⟨b, rfl, hp, hl⟩ := wfStr v h
    have hS : wireChar .string = 'S' := by decide
    simp [convertStream, hS, encScalar, encElem, readString_enc b r hp hl]
  · obtain ⟨n, rfl⟩ := wfNum ty hs v h
    have hS : ¬ wireChar ty = 'S' := by rw [wireChar_S]; exact hs
    by_cases hb : ty = .byte
    · subst hb
      have hB : wireChar .byte = 'B' := by decide
      have e : encScalar .byte (.num n) ++ r = toWire .byte (.num n) ++ (zeros 3 ++ r) := by
        simp [encScalar, toWire_eq_spec _ _ h]
      rw [e]
      simp [convertStream, hS, hB, read_append _ _ _ (toWire_length .byte n), fromWire_toWire _ _ h,
        read_append 3 (zeros 3) r (zeros_length 3)]
    · have hB : ¬ wireChar ty = 'B' := by rw [wireChar_B]; exact hb
      have e : encScalar ty (.num n) = toWire ty (.num n) := by
        rw [toWire_eq_spec _ _ h]; cases ty <;> simp_all [encScalar]
      rw [e]
      simp [convertStream, hS, hB, read_append _ _ _ (toWire_length ty n), fromWire_toWire _ _ h]

theorem convert_array (ty : Ty) (k : Nat) (ks : List Nat) (vs : List Val) (r : Bytes)
    (hlen : prod (k :: ks) = vs.length) (hw : vs.all (wfVal ty) = true) (hl : vs.length < 2147483648) :
    convertStream ty (k :: ks) (encArray ty vs ++ r) = .ok (.array vs, r) := by
  by_cases hs : ty = .string
  · subst hs
    have hS : wireChar .string = 'S' := by decide
    have e : encArray .string vs ++ r = be 4 vs.length ++ ((vs.map (encElem .string)).flatten ++ r) := by
      simp [encArray, word]
    rw [e]
    simp [convertStream, hS, readLen_be _ _ hl, readStrings_enc vs r hw, decodeAll_wf vs hw, hlen]
  · have hS : ¬ wireChar ty = 'S' := by rw [wireChar_S]; exact hs
    have hflat := flatten_toWire_length ty hs vs hw
    by_cases hb : ty = .byte
    · subst hb
      have hB : wireChar .byte = 'B' := by decide
      have e : encArray .byte vs ++ r = be 4 vs.length ++ (be 4 vs.length ++
          ((vs.map (toWire .byte)).flatten ++ (zeros (pad4 vs.length) ++ r))) := by
        simp [encArray, word, map_toWire_eq _ hs vs hw]
      rw [e]
      simp [convertStream, hS, hB, readLen_be _ _ hl, read_append 4 (be 4 vs.length) _ (be_length 4 _),
        read_append _ _ _ hflat, fromWireMany_enc _ hs vs hw, hlen,
        read_append _ (zeros (pad4 vs.length)) r (zeros_length _)]
    · have hB : ¬ wireChar ty = 'B' := by rw [wireChar_B]; exact hb
      have e : encArray ty vs ++ r = be 4 vs.length ++ (be 4 vs.length ++
          ((vs.map (toWire ty)).flatten ++ r)) := by
        rw [map_toWire_eq _ hs vs hw]
        cases ty <;> simp_all [encArray, word]
      rw [e]
      simp [convertStream, hS, hB, readLen_be _ _ hl, read_append 4 (be 4 vs.length) _ (be_length 4 _),
        read_append _ _ _ hflat, fromWireMany_enc _ hs vs hw, hlen]


/-! ### the record-at-a-time path -/

theorem parserChar_B (ty : Ty) : parserChar ty = 'B' ↔ ty = .byte := by
  cases ty <;> decide

theorem splitRecord_enc : ∀ (cs : List Tmpl) (ds : List Data), simpleCols cs = true → WFs cs ds = true →
    splitRecord cs (encs cs ds) = .ok ds ∧ (encs cs ds).length = recordSize cs
  | [], [], _, _ => by simp [splitRecord, encs, recordSize]
  | [], _ :: _, _, h => by simp [WFs] at h
  | _ :: _, [], _, h => by simp [WFs] at h
  | .struct _ :: _, _ :: _, hf, _ => by simp [simpleCols] at hf
  | .seq _ :: _, _ :: _, hf, _ => by simp [simpleCols] at hf
  | .base ty sh :: cs, d :: ds, hf, h => by
    simp only [simpleCols, Bool.and_eq_true, bne_iff_ne, ne_eq, List.isEmpty_iff, beq_iff_eq] at hf
    simp only [WFs, Bool.and_eq_true] at h
    obtain ⟨⟨⟨⟨hS, hsh⟩, hwp⟩, hB⟩, hf'⟩ := hf
    subst hsh
    have hs : ty ≠ .string := fun e => hS ((parserChar_S ty).mpr e)
    have hb : ty ≠ .byte := fun e => hB ((parserChar_B ty).mpr e)
    cases d with
    | scalar v =>
      simp only [WF] at h
      obtain ⟨n, rfl⟩ := wfNum ty hs v h.1
      obtain ⟨ih1, ih2⟩ := splitRecord_enc cs ds hf' h.2
      have e : encScalar ty (.num n) = toWire ty (.num n) := by
        rw [toWire_eq_spec _ _ h.1]; cases ty <;> simp_all [encScalar]
      have hl : (toWire ty (.num n)).length = parserWidth ty := by rw [toWire_length, hwp]
      simp [splitRecord, encs, enc, e, List.take_left' hl, List.drop_left' hl, fromWire_toWire _ _ h.1,
        ih1, ih2, recordSize, hl]
    | array _ => simp [WF] at h
    | tuple _ => simp [WF] at h
    | rows _ => simp [WF] at h

theorem start_ne_end : ¬ (endOfSequence = Gen.START_OF_SEQUENCE) := by decide

theorem decRowsSimple_enc (cs : List Tmpl) (hf : simpleCols cs = true) :
    ∀ (rs : List Data) (f : Nat) (r : Bytes), WFrows cs rs = true → rs.length < f →
    decRowsSimple cs f (encRows cs rs ++ r) = .ok (rs, r)
  | [], f + 1, r, _, _ => by
    simp [decRowsSimple, encRows, read_append 4 endOfSequence r rfl, start_ne_end]
  | _, 0, _, _, h => by omega
  | .tuple ds :: rs, f + 1, r, h, hfu => by
    simp only [WFrows, Bool.and_eq_true] at h
    obtain ⟨h1, h2⟩ := splitRecord_enc cs ds hf h.1
    have e : encRows cs (.tuple ds :: rs) ++ r = startOfInstance ++ (encs cs ds ++ (encRows cs rs ++ r)) := by
      simp [encRows]
    have ih := decRowsSimple_enc cs hf rs f r h.2 (by simp at hfu; omega)
    rw [e, ← start_eq]
    simp [decRowsSimple, read_append 4 Gen.START_OF_SEQUENCE _ rfl, read_append _ (encs cs ds) _ h2,
      h1, ih]
  | .scalar _ :: _, _ + 1, _, h, _ => by simp [WFrows] at h
  | .array _ :: _, _ + 1, _, h, _ => by simp [WFrows] at h
  | .rows _ :: _, _ + 1, _, h, _ => by simp [WFrows] at h

theorem encRows_length (cs : List Tmpl) : ∀ (rs : List Data), WFrows cs rs = true →
    rs.length < (encRows cs rs).length
  | [], _ => by simp [encRows, endOfSequence]
  | .tuple ds :: rs, h => by
    simp only [WFrows, Bool.and_eq_true] at h
    have := encRows_length cs rs h.2
    simp [encRows, startOfInstance]
    omega
  | .scalar _ :: _, h => by simp [WFrows] at h
  | .array _ :: _, h => by simp [WFrows] at h
  | .rows _ :: _, h => by simp [WFrows] at h


/-! ### the whole decoder -/

mutual
theorem dec_enc : ∀ (d : Data) (t : Tmpl) (f : Nat) (r : Bytes), WF t d = true →
    (enc t d).length + tsize t ≤ f → dec f t (enc t d ++ r) = .ok (d, r)
  | _, _, 0, _, _, hfu => by cases ‹Tmpl› <;> simp [tsize] at hfu <;> omega
  | .scalar v, .base ty [], f + 1, r, h, _ => by
    simp only [WF] at h
    simp [dec, enc, convert_scalar ty v r h]
  | .array vs, .base ty (n :: ns), f + 1, r, h, _ => by
    simp only [WF, Bool.and_eq_true, beq_iff_eq, decide_eq_true_eq] at h
    simp [dec, enc, convert_array ty n ns vs r h.1.1.symm h.1.2 h.2]
  | .tuple ds, .struct cs, f + 1, r, h, hfu => by
    simp only [WF, Bool.and_eq_true] at h
    simp only [enc, tsize] at hfu
    simp [dec, enc, decs_enc ds cs f r h.2 (by omega)]
  | .rows rs, .seq cs, f + 1, r, h, hfu => by
    simp only [WF, Bool.and_eq_true] at h
    simp only [enc, tsize] at hfu
    simp only [dec, enc]
    split
    · next hs =>
      have := encRows_length cs rs h.2
      simp [decRowsSimple_enc cs hs rs f r h.2 (by omega)]
    · simp [decRows_enc rs cs f r h.2 (by omega)]
  | .array _, .base _ [], _ + 1, _, h, _ => by simp [WF] at h
  | .tuple _, .base _ [], _ + 1, _, h, _ => by simp [WF] at h
  | .rows _, .base _ [], _ + 1, _, h, _ => by simp [WF] at h
  | .scalar _, .base _ (_ :: _), _ + 1, _, h, _ => by simp [WF] at h
  | .tuple _, .base _ (_ :: _), _ + 1, _, h, _ => by simp [WF] at h
  | .rows _, .base _ (_ :: _), _ + 1, _, h, _ => by simp [WF] at h
  | .scalar _, .struct _, _ + 1, _, h, _ => by simp [WF] at h
  | .array _, .struct _, _ + 1, _, h, _ => by simp [WF] at h
  | .rows _, .struct _, _ + 1, _, h, _ => by simp [WF] at h
  | .scalar _, .seq _, _ + 1, _, h, _ => by simp [WF] at h
  | .array _, .seq _, _ + 1, _, h, _ => by simp [WF] at h
  | .tuple _, .seq _, _ + 1, _, h, _ => by simp [WF] at h
theorem decs_enc : ∀ (ds : List Data) (cs : List Tmpl) (f : Nat) (r : Bytes), WFs cs ds = true →
    (encs cs ds).length + tsizes cs ≤ f → decs f cs (encs cs ds ++ r) = .ok (ds, r)
  | _, cs, 0, _, _, hfu => by cases cs <;> simp [tsizes] at hfu <;> omega
  | [], [], f + 1, r, _, _ => by simp [decs, encs]
  | _ :: _, [], _ + 1, _, h, _ => by simp [WFs] at h
  | [], _ :: _, _ + 1, _, h, _ => by simp [WFs] at h
  | d :: ds, c :: cs, f + 1, r, h, hfu => by
    simp only [WFs, Bool.and_eq_true] at h
    simp only [encs, tsizes, List.length_append] at hfu
    have e : encs (c :: cs) (d :: ds) ++ r = enc c d ++ (encs cs ds ++ r) := by simp [encs]
    rw [e]
    simp [decs, dec_enc d c f (encs cs ds ++ r) h.1 (by omega), decs_enc ds cs f r h.2 (by omega)]
theorem decRows_enc : ∀ (rs : List Data) (cs : List Tmpl) (f : Nat) (r : Bytes), WFrows cs rs = true →
    (encRows cs rs).length + tsizes cs + 1 ≤ f → decRows f cs (encRows cs rs ++ r) = .ok (rs, r)
  | _, _, 0, _, _, hfu => by omega
  | [], cs, f + 1, r, _, _ => by
    simp [decRows, encRows, read_append 4 endOfSequence r rfl, start_ne_end]
  | .tuple ds :: rs, cs, f + 1, r, h, hfu => by
    simp only [WFrows, Bool.and_eq_true] at h
    have hl : startOfInstance.length = 4 := rfl
    simp only [encRows, List.length_append, hl] at hfu
    have e : encRows cs (.tuple ds :: rs) ++ r = Gen.START_OF_SEQUENCE ++ (encs cs ds ++ (encRows cs rs ++ r)) := by
      simp [encRows, start_eq]
    rw [e]
    simp [decRows, read_append 4 Gen.START_OF_SEQUENCE _ rfl,
      decs_enc ds cs f (encRows cs rs ++ r) h.1 (by omega), decRows_enc rs cs f r h.2 (by omega)]
  | .scalar _ :: _, _, _ + 1, _, h, _ => by simp [WFrows] at h
  | .array _ :: _, _, _ + 1, _, h, _ => by simp [WFrows] at h
  | .rows _ :: _, _, _ + 1, _, h, _ => by simp [WFrows] at h
end

/-- the decoder, with the fuel it gives itself, inverts the reference encoder and leaves what follows -/
theorem decImpl_enc (t : Tmpl) (d : Data) (r : Bytes) (h : WF t d = true) :
    decImpl t (enc t d ++ r) = .ok (d, r) := by
  unfold decImpl fuelFor
  apply dec_enc d t _ r h
  simp
  omega

end Pydap.Xdr
