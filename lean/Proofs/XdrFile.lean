/-
  C01: `open_dods_file` (PydapModel/XdrFile.lean) on the body the server emits: the text-mode loop stops at the
  `Data:` line, the offset computed from the text is where the XDR part starts, the decoder returns the source values.
-/
import PydapModel.XdrFile
import Proofs.XdrEnc
import Proofs.XdrDec
namespace Pydap.Xdr
open Pydap.XdrSpec

theorem textLines_eq_nil (s : Bytes) : textLines s = [] ↔ s = [] := by
  cases s with
  | nil => simp [textLines]
  | cons b s =>
    simp only [textLines]
    split
    · simp
    · split <;> simp

/-- a text that ends a line splits there: the lines of what follows do not depend on what came before -/
theorem textLines_append (a rest : Bytes) :
    textLines (a ++ [10] ++ rest) = textLines (a ++ [10]) ++ textLines rest := by
  induction a with
  | nil => simp [textLines]
  | cons b a ih =>
    simp only [List.cons_append, textLines]
    split
    · rw [ih]; rfl
    · rw [ih]
      have hne : textLines (a ++ [10]) ≠ [] := by
        intro h
        have := (textLines_eq_nil _).1 h
        simp at this
      cases h : textLines (a ++ [10]) with
      | nil => exact absurd h hne
      | cons l ls => simp

/-- the lines, joined, are the text -/
theorem textLines_flatten (s : Bytes) : (textLines s).flatten = s := by
  induction s with
  | nil => simp [textLines]
  | cons b s ih =>
    simp only [textLines]
    split
    · simp [ih]
    · cases h : textLines s with
      | nil => rw [(textLines_eq_nil s).1 h]; simp
      | cons l ls => rw [h] at ih; simp at ih ⊢; exact ih

theorem mem_of_mem_textLines (s l : Bytes) (hl : l ∈ textLines s) (b : UInt8) (hb : b ∈ l) : b ∈ s := by
  rw [← textLines_flatten s]
  exact List.mem_flatten.2 ⟨l, hl, hb⟩

theorem asciiIgnore_ascii (s : Bytes) (h : ∀ b ∈ s, b.toNat < 128) : asciiIgnore s = s := by
  unfold asciiIgnore
  exact List.filter_eq_self.2 (by simpa using h)

/-- the loop: lines that are not the `Data:` line are accumulated, the first `Data:` line ends it,
    whatever follows is never looked at -/
theorem ddsOfLines_stop (L : List Bytes) (m : Bytes) (R : List Bytes)
    (hL : ∀ l ∈ L, asciiIgnore l = l ∧ pyStrip l ≠ dataWord) (hm : pyStrip (asciiIgnore m) = dataWord) :
    ddsOfLines (L ++ m :: R) = L.flatten := by
  induction L with
  | nil => simp [ddsOfLines, hm]
  | cons l L ih =>
    have h1 := hL l (by simp)
    simp only [List.cons_append, ddsOfLines, h1.1, List.flatten_cons]
    rw [if_neg h1.2, ih (fun l hl => hL l (by simp [hl]))]

theorem body_split (dds0 : Bytes) (t : Tmpl) (d : Data) :
    body (dds0 ++ [10]) t d = dds0 ++ [10] ++ (dataWord ++ [10] ++ encImpl t d) := by
  simp [body, dataMarker, dataWord]

/-- **`open_dods_file` on the saved body**: the DDS text (all of it, final newline included) and the source values,
    nothing left over.  `hascii`: the DDS is ASCII (else `len(dds)` undercounts the offset); `hno`: no DDS line
    strips to `Data:`.  The XDR part is arbitrary: it may contain `\nData:\n`, bytes ≥ 128, any number of 0x0A. -/
theorem openDodsFile_body (dds0 : Bytes) (t : Tmpl) (d : Data) (h : WF t d = true)
    (hascii : ∀ b ∈ dds0, b.toNat < 128)
    (hno : ∀ l ∈ textLines (dds0 ++ [10]), pyStrip l ≠ [68, 97, 116, 97, 58]) :
    openDodsFile t (body (dds0 ++ [10]) t d) = (dds0 ++ [10], .ok (d, [])) := by
  have hasc' : ∀ b ∈ dds0 ++ [10], b.toNat < 128 := by
    intro b hb
    rcases List.mem_append.1 hb with hb | hb
    · exact hascii b hb
    · simp at hb; subst hb; decide
  have hlines : textLines (body (dds0 ++ [10]) t d)
      = textLines (dds0 ++ [10]) ++ (dataWord ++ [10]) :: textLines (encImpl t d) := by
    rw [body_split, textLines_append dds0, textLines_append dataWord]
    rfl
  have hdds : ddsOfLines (textLines (body (dds0 ++ [10]) t d)) = dds0 ++ [10] := by
    rw [hlines, ddsOfLines_stop _ _ _ _ (by decide), textLines_flatten]
    intro l hl
    exact ⟨asciiIgnore_ascii l fun b hb => hasc' b (mem_of_mem_textLines _ l hl b hb), hno l hl⟩
  have hdrop : (body (dds0 ++ [10]) t d).drop ((dds0 ++ [10]).length + dataMarker.length) = encImpl t d := by
    have e : body (dds0 ++ [10]) t d = (dds0 ++ [10] ++ dataMarker) ++ encImpl t d := by simp [body]
    rw [e]
    exact List.drop_left' (by simp; omega)
  have hdec : decImpl t (encImpl t d) = .ok (d, []) := by
    have := decImpl_enc t d [] h
    rw [List.append_nil] at this
    rw [encImpl_eq t d h]
    exact this
  unfold openDodsFile
  simp only [hdds, hdrop, hdec]

/-- … through any lossless content coding of the saved bytes -/
theorem openDodsFile_body_coded (z unz : Bytes → Bytes) (hz : ∀ b, unz (z b) = b)
    (dds0 : Bytes) (t : Tmpl) (d : Data) (h : WF t d = true)
    (hascii : ∀ b ∈ dds0, b.toNat < 128)
    (hno : ∀ l ∈ textLines (dds0 ++ [10]), pyStrip l ≠ [68, 97, 116, 97, 58]) :
    openDodsFile t (unz (z (body (dds0 ++ [10]) t d))) = (dds0 ++ [10], .ok (d, [])) := by
  rw [hz]
  exact openDodsFile_body dds0 t d h hascii hno

theorem pyStrip_subset (l : Bytes) (b : UInt8) (hb : b ∈ pyStrip l) : b ∈ l := by
  unfold pyStrip at hb
  have h1 := (List.dropWhile_sublist isPySpace (l := (l.dropWhile isPySpace).reverse)).subset (List.mem_reverse.1 hb)
  exact (List.dropWhile_sublist isPySpace (l := l)).subset (List.mem_reverse.1 h1)

/-- a sufficient condition for `hno` that needs no line structure: a text without `:` has no `Data:` line
    (DAP2 names — C07's `NameOk` — contain no colon, and the DDS printer adds none) -/
theorem no_dataLine_of_no_colon (dds0 : Bytes) (h : (58 : UInt8) ∉ dds0) :
    ∀ l ∈ textLines (dds0 ++ [10]), pyStrip l ≠ [68, 97, 116, 97, 58] := by
  intro l hl e
  have h1 : (58 : UInt8) ∈ pyStrip l := by rw [e]; decide
  have h2 := mem_of_mem_textLines _ l hl _ (pyStrip_subset l _ h1)
  rcases List.mem_append.1 h2 with h3 | h3
  · exact h h3
  · simp at h3

/-- the marker line as the text loop sees it: `"Data:\n".strip() == "Data:"` -/
theorem pyStrip_dataLine : pyStrip (asciiIgnore (dataWord ++ [10])) = dataWord := by decide

end Pydap.Xdr
