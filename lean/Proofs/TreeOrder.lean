/-
  C12 — round 7 (theorem audit, second part): the order in which the root container of a handle lists its children is a
  function of the history (`ghostRun`: only successful insertions / replacements / deletions made directly on it change
  it); histories without `outside` steps.
-/
import Proofs.TreeNames
import Proofs.TreeChildren
namespace Pydap.Tree
open Pydap.Quote

/-! ### the order of `children()` as a function of the history -/

theorem modifyAt_hdr (g : Obj → Except Err Obj) (k : Str) (ks : List Str) (o r : Obj)
    (h : modifyAt g (k :: ks) o = .ok r) : r.hdr = o.hdr := by
  simp only [modifyAt] at h
  split at h; · cases h
  split at h; · cases h
  cases hu : o.kids.update (quote k) (modifyAt g ks) with
  | error e => rw [hu] at h; cases h
  | ok kids' => rw [hu] at h; cases h; rfl

/-- the ghost: what one operation of the history does to the listing order of the root container held by handle `j`.
    Only a *successful* (non-raising) insertion / replacement / deletion made directly on that container changes it:
    `container[key] = item` un-lists the quoted key and lists it last, `del container[key]` un-lists the key. -/
def ghostStep (s : State) (op : Op) (j : Nat) (vis : List Str) : List Str :=
  match stepE s op with
  | .error _ => vis
  | .ok _ =>
    match op with
    | .set h path key _ => if h = j ∧ path = [] then vis.erase (quote key) ++ [quote key] else vis
    | .del h path key => if h = j ∧ path = [] then vis.erase key else vis
    | _ => vis

def ghostRun : State → List Op → Nat → List Str → List Str
  | _, [], _, vis => vis
  | s, op :: t, j, vis => ghostRun (step s op) t j (ghostStep s op j vis)

theorem get_err_of_dead (s : State) (j : Nat) (h : s.handles[j]? = some none) : s.get j = .error .outside := by
  simp [State.get, h]

/-- a consumed handle stays consumed -/
theorem dead_stays (s : State) (op : Op) (j : Nat) (h : s.handles[j]? = some none) :
    (step s op).handles[j]? = some none := by
  have hj : j < s.handles.length := by
    rcases Nat.lt_or_ge j s.handles.length with h' | h'
    · exact h'
    · rw [List.getElem?_eq_none h'] at h; cases h
  by_cases ht : j ∈ op.touches
  · have he := get_err_of_dead s j h
    have : ∃ e, stepE s op = .error e := by
      cases op with
      | new => simp [Op.touches] at ht
      | copy => simp [Op.touches] at ht
      | select => simp [Op.touches] at ht
      | set hh path key src =>
        simp only [Op.touches, List.mem_cons, List.not_mem_nil, or_false] at ht
        simp only [stepE, bind, Except.bind, pure, Except.pure, throw, throwThe, MonadExceptOf.throw]
        split
        · exact ⟨_, rfl⟩
        · rcases ht with ht | ht
          · subst ht; rw [he]; exact ⟨_, rfl⟩
          · subst ht
            cases hg : s.get hh with
            | error e => exact ⟨_, rfl⟩
            | ok o => simp only; rw [he]; exact ⟨_, rfl⟩
      | del hh path key =>
        simp only [Op.touches, List.mem_cons, List.not_mem_nil, or_false] at ht
        subst ht
        simp only [stepE, bind, Except.bind, he]; exact ⟨_, rfl⟩
      | setData hh path atom =>
        simp only [Op.touches, List.mem_cons, List.not_mem_nil, or_false] at ht
        subst ht
        simp only [stepE, bind, Except.bind, he]; exact ⟨_, rfl⟩
      | setAttr hh path k v =>
        simp only [Op.touches, List.mem_cons, List.not_mem_nil, or_false] at ht
        subst ht
        simp only [stepE, bind, Except.bind, he]; exact ⟨_, rfl⟩
    obtain ⟨e, he'⟩ := this
    simp only [step, he']; exact h
  · rw [step_frame s op j hj ht]; exact h

/-- one step: handle `j` is consumed, or the root container it holds lists its children in the order the ghost says -/
theorem step_visible (s : State) (op : Op) (j : Nat) (o : Obj) (hj : s.handles[j]? = some (some o)) :
    (step s op).handles[j]? = some none ∨
    ∃ o', (step s op).handles[j]? = some (some o') ∧ o'.hdr.visible = ghostStep s op j o.hdr.visible := by
  have hlt : j < s.handles.length := by
    rcases Nat.lt_or_ge j s.handles.length with h' | h'
    · exact h'
    · rw [List.getElem?_eq_none h'] at hj; cases hj
  unfold step ghostStep
  cases h : stepE s op with
  | error e => exact Or.inr ⟨o, hj, rfl⟩
  | ok s' =>
    simp only
    cases op with
    | new kind name atom =>
      simp only [stepE] at h; cases h
      exact Or.inr ⟨o, by rw [List.getElem?_append_left hlt]; exact hj, rfl⟩
    | copy hh path =>
      simp only [stepE, bind, Except.bind, pure, Except.pure] at h
      split at h; · cases h
      split at h; · cases h
      split at h; · cases h
      cases h
      exact Or.inr ⟨o, by rw [List.getElem?_append_left hlt]; exact hj, rfl⟩
    | select hh path keys =>
      simp only [stepE, bind, Except.bind, pure, Except.pure] at h
      split at h; · cases h
      split at h; · cases h
      split at h; · cases h
      cases h
      exact Or.inr ⟨o, by rw [List.getElem?_append_left hlt]; exact hj, rfl⟩
    | set hh path key src =>
      simp only [stepE, bind, Except.bind, pure, Except.pure, throw, throwThe, MonadExceptOf.throw] at h
      split at h; · cases h
      rename_i hne
      cases h1 : s.get hh with
      | error e => rw [h1] at h; cases h
      | ok c =>
        rw [h1] at h; simp only at h
        cases h2 : s.get src with
        | error e => rw [h2] at h; cases h
        | ok item =>
          rw [h2] at h; simp only at h
          cases h3 : modifyAt (fun c => setItem c key item) path c with
          | error e => rw [h3] at h; cases h
          | ok c' =>
            rw [h3] at h; cases h
            simp only
            by_cases hs : j = src
            · subst hs
              left
              rw [List.getElem?_set_self (by simpa using hlt)]
            · rw [List.getElem?_set_ne (fun e => hs e.symm)]
              by_cases hh' : j = hh
              · subst hh'
                have hc : c = o := by
                  have := get_some s j c h1; rw [hj] at this; cases this; rfl
                subst hc
                right
                refine ⟨c', by rw [List.getElem?_set_self hlt], ?_⟩
                cases path with
                | nil =>
                  simp only [modifyAt] at h3
                  obtain ⟨a, b⟩ := setItem_visible c item c' key h3
                  simp [a, b]
                | cons k ks =>
                  rw [modifyAt_hdr _ k ks c c' h3]; simp
              · right
                refine ⟨o, by rw [List.getElem?_set_ne (fun e => hh' e.symm)]; exact hj, ?_⟩
                have hne' : ¬ (hh = j ∧ path = []) := fun e => hh' e.1.symm
                simp [hne']
    | del hh path key =>
      simp only [stepE, bind, Except.bind, pure, Except.pure] at h
      cases h1 : s.get hh with
      | error e => rw [h1] at h; cases h
      | ok c =>
        rw [h1] at h; simp only at h
        cases h3 : modifyAt (fun c => delItem c key) path c with
        | error e => rw [h3] at h; cases h
        | ok c' =>
          rw [h3] at h; cases h
          simp only
          right
          by_cases hh' : j = hh
          · subst hh'
            have hc : c = o := by
              have := get_some s j c h1; rw [hj] at this; cases this; rfl
            subst hc
            refine ⟨c', by rw [List.getElem?_set_self hlt], ?_⟩
            cases path with
            | nil =>
              simp only [modifyAt] at h3
              rw [delItem_eq c c' key h3]; simp
            | cons k ks =>
              rw [modifyAt_hdr _ k ks c c' h3]; simp
          · refine ⟨o, by rw [List.getElem?_set_ne (fun e => hh' e.symm)]; exact hj, ?_⟩
            have hne' : ¬ (hh = j ∧ path = []) := fun e => hh' e.1.symm
            simp [hne']
    | setData hh path atom =>
      simp only [stepE, bind, Except.bind, pure, Except.pure] at h
      cases h1 : s.get hh with
      | error e => rw [h1] at h; cases h
      | ok c =>
        rw [h1] at h; simp only at h
        cases h3 : modifyAt (fun c => setData c (.atom atom)) path c with
        | error e => rw [h3] at h; cases h
        | ok c' =>
          rw [h3] at h; cases h
          simp only
          right
          by_cases hh' : j = hh
          · subst hh'
            have hc : c = o := by
              have := get_some s j c h1; rw [hj] at this; cases this; rfl
            subst hc
            refine ⟨c', by rw [List.getElem?_set_self hlt], ?_⟩
            cases path with
            | nil =>
              simp only [modifyAt] at h3
              have := congrArg Hdr.visible (setData_strip c c' _ h3).1
              simpa [stripH] using this
            | cons k ks => rw [modifyAt_hdr _ k ks c c' h3]
          · exact ⟨o, by rw [List.getElem?_set_ne (fun e => hh' e.symm)]; exact hj, rfl⟩
    | setAttr hh path k v =>
      simp only [stepE, bind, Except.bind, pure, Except.pure] at h
      cases h1 : s.get hh with
      | error e => rw [h1] at h; cases h
      | ok c =>
        rw [h1] at h; simp only at h
        cases h3 : modifyAt (fun c => Except.ok (setAttr c k (.nat v))) path c with
        | error e => rw [h3] at h; cases h
        | ok c' =>
          rw [h3] at h; cases h
          simp only
          right
          by_cases hh' : j = hh
          · subst hh'
            have hc : c = o := by
              have := get_some s j c h1; rw [hj] at this; cases this; rfl
            subst hc
            refine ⟨c', by rw [List.getElem?_set_self hlt], ?_⟩
            cases path with
            | nil => simp only [modifyAt] at h3; cases h3; rfl
            | cons k' ks => rw [modifyAt_hdr _ k' ks c c' h3]
          · exact ⟨o, by rw [List.getElem?_set_ne (fun e => hh' e.symm)]; exact hj, rfl⟩

theorem dead_run (ops : List Op) : ∀ (s : State) (j : Nat), s.handles[j]? = some none →
    (run s ops).handles[j]? = some none := by
  induction ops with
  | nil => intro s j h; exact h
  | cons op t ih =>
    intro s j h
    simp only [run, List.foldl_cons]
    exact ih _ j (dead_stays s op j h)

/-- **the listing order is a function of the history**: whatever history runs from a store in which handle `j` holds the
    container `o`, if `j` is still live afterwards its container lists its children in the order `ghostRun` computes
    from the history alone, starting from `o`'s listing -/
theorem run_visible (ops : List Op) : ∀ (s : State) (j : Nat) (o o' : Obj), s.handles[j]? = some (some o) →
    (run s ops).handles[j]? = some (some o') → o'.hdr.visible = ghostRun s ops j o.hdr.visible := by
  induction ops with
  | nil => intro s j o o' h h'; simp only [run, List.foldl_nil] at h'; rw [h] at h'; cases h'; rfl
  | cons op t ih =>
    intro s j o o' h h'
    simp only [run, List.foldl_cons] at h'
    rcases step_visible s op j o h with hd | ⟨o1, h1, hv⟩
    · have := dead_run t _ j hd
      simp only [run] at this
      rw [this] at h'; cases h'
    · have := ih (step s op) j o1 o' h1 h'
      simp only [ghostRun]
      rw [this, hv]


/-! ### histories the model describes step by step (no `outside`) -/

/-- the model describes the step: it succeeds, or raises an exception the code raises too (`KeyError`, `TypeError`,
    `IndexError`) — not the model's own refusal `outside` -/
def Op.described (s : State) (op : Op) : Bool :=
  match stepE s op with
  | .error .outside => false
  | _ => true

/-- no step of the history is `outside` (executable; the driver's `outside` count is its negation) -/
def noOutside : State → List Op → Bool
  | _, [] => true
  | s, op :: t => op.described s && noOutside (step s op) t

theorem run_snoc (s : State) (a : List Op) (op : Op) : run s (a ++ [op]) = step (run s a) op := by
  simp [run, List.foldl_append]

/-- **in a history without `outside` every step is a described one**: it either succeeds with the store `run` reaches, or
    raises a modelled exception and leaves the store as it was — never the totalised "refused, treated as failed" -/
theorem noOutside_steps (a : List Op) : ∀ (s : State) (op : Op) (b : List Op), noOutside s (a ++ op :: b) = true →
    (∃ s', stepE (run s a) op = .ok s' ∧ run s (a ++ [op]) = s') ∨
    (∃ e, e ≠ .outside ∧ stepE (run s a) op = .error e ∧ run s (a ++ [op]) = run s a) := by
  induction a with
  | nil =>
    intro s op b h
    simp only [List.nil_append, noOutside, Bool.and_eq_true, Op.described] at h
    rw [run_snoc]
    simp only [run, List.foldl_nil, step]
    cases hs : stepE s op with
    | ok s' => exact Or.inl ⟨s', rfl, rfl⟩
    | error e =>
      refine Or.inr ⟨e, ?_, rfl, rfl⟩
      intro he; subst he
      rw [hs] at h; exact absurd h.1 (by simp)
  | cons x t ih =>
    intro s op b h
    simp only [List.cons_append, noOutside, Bool.and_eq_true] at h
    have := ih (step s x) op b h.2
    simpa [run] using this

/-- the path does not lead through a Base variable (a missing key is fine: that is a `KeyError`) -/
def navOk : List Str → Obj → Bool
  | [], _ => true
  | k :: ks, o => o.hdr.kind != .base && (match o.kids.find? (quote k) with
      | some c => navOk ks c
      | none => true)

theorem update_error (k : Str) (g : Obj → Except Err Obj) (f : Forest) (e : Err) (h : f.update k g = .error e) :
    (f.find? k = none ∧ e = .keyError) ∨ ∃ c, f.find? k = some c ∧ g c = .error e := by
  induction f with
  | nil => simp only [Forest.update] at h; cases h; exact Or.inl ⟨rfl, rfl⟩
  | cons h0 kids rest _ ihr =>
    simp only [Forest.update] at h
    simp only [Forest.find?]
    split at h
    · rename_i hk
      rw [if_pos hk]
      cases hg : g ⟨h0, kids⟩ with
      | error e' =>
        rw [hg] at h; cases h
        exact Or.inr ⟨_, rfl, hg⟩
      | ok r => rw [hg] at h; cases h
    · rename_i hk
      rw [if_neg hk]
      cases hu : Forest.update k g rest with
      | error e' =>
        rw [hu] at h; cases h
        exact ihr hu
      | ok r => rw [hu] at h; cases h

/-- an edit below a path is refused by the model only if the path leads through a Base variable or the edit itself is
    refused on the object the path ends on -/
theorem modifyAt_outside (g : Obj → Except Err Obj) (path : List Str) : ∀ o, modifyAt g path o = .error .outside →
    navOk path o = true → ∃ c, navigate path o = .ok c ∧ g c = .error .outside := by
  induction path with
  | nil => intro o h _; exact ⟨o, rfl, h⟩
  | cons k ks ih =>
    intro o h hn
    simp only [navOk, Bool.and_eq_true, bne_iff_ne, ne_eq] at hn
    simp only [modifyAt] at h
    simp only [navigate]
    rw [if_neg hn.1] at h ⊢
    cases hf : o.kids.find? (quote k) with
    | none => rw [hf] at h; cases h
    | some c =>
      rw [hf] at h hn
      simp only at h hn ⊢
      cases hu : o.kids.update (quote k) (modifyAt g ks) with
      | ok kids' => rw [hu] at h; cases h
      | error e =>
        rw [hu] at h; cases h
        rcases update_error _ _ _ _ hu with ⟨hnone, _⟩ | ⟨c', hc', hg⟩
        · rw [hf] at hnone; cases hnone
        · rw [hf] at hc'; cases hc'
          exact ih c hg hn.2

/-- **`del handle[path][key]` and `handle[path].attributes[k] = v` are always described** when the handle is live and the
    path does not lead through a Base variable -/
theorem del_setAttr_described (s : State) (h : Nat) (path : List Str) (o : Obj) (hg : s.get h = .ok o)
    (hn : navOk path o = true) :
    (∀ key, (Op.del h path key).described s = true) ∧ (∀ k v, (Op.setAttr h path k v).described s = true) := by
  refine ⟨fun key => ?_, fun k v => ?_⟩
  · simp only [Op.described, stepE, bind, Except.bind, hg]
    cases hm : modifyAt (fun c => delItem c key) path o with
    | ok r => rfl
    | error e =>
      cases e with
      | outside =>
        obtain ⟨c, _, hc⟩ := modifyAt_outside _ path o hm hn
        unfold delItem at hc
        split at hc; · cases hc
        split at hc <;> cases hc
      | _ => rfl
  · simp only [Op.described, stepE, bind, Except.bind, hg]
    cases hm : modifyAt (fun c => pure (setAttr c k (.nat v))) path o with
    | ok r => rfl
    | error e =>
      cases e with
      | outside =>
        obtain ⟨c, _, hc⟩ := modifyAt_outside _ path o hm hn
        cases hc
      | _ => rfl


theorem visibleOk_of_inv (o : Obj) (ho : invO o) : visibleOk o.hdr.visible o.kids = true := by
  have hv := ((shapeO_parts o).1 ho.1).2.2.1
  simp only [visOk, Bool.and_eq_true, List.all_eq_true, decide_eq_true_eq] at hv
  simp only [visibleOk, List.all_eq_true]
  intro k hk
  have := hv.1 k hk
  simp only [List.contains_eq_mem, decide_eq_true_eq, beq_iff_eq] at this
  obtain ⟨c, hc, _⟩ := find?_of_mem_keys k o.kids this.1
  rw [this.2, hc]; rfl

theorem delItem_not_outside (o : Obj) (key : Str) : delItem o key ≠ .error .outside := by
  unfold delItem
  split; · intro h; cases h
  split <;> (intro h; cases h)

theorem insertItem_not_outside (o : Obj) (key : Str) (item : Obj) : insertItem o key item ≠ .error .outside := by
  unfold insertItem
  by_cases hc : o.hdr.visible.contains key = true
  · simp only [hc, if_true, bind, Except.bind]
    cases hd : delItem o key with
    | error e =>
      intro h; cases h
      exact delItem_not_outside o key hd
    | ok o1 => intro h; cases h
  · simp only [hc, bind, Except.bind, pure, Except.pure]
    intro h; cases h

/-- `container[key] = item` on a Structure / Sequence / Grid container is never refused by the model when the item
    satisfies the invariant and is not a dataset -/
theorem setItemStruct_not_outside (o item : Obj) (key : Str) (hi : invO item) :
    setItemStruct o key item ≠ .error .outside := by
  unfold setItemStruct
  simp only [bind, Except.bind, throw, throwThe, MonadExceptOf.throw]
  split
  · intro h; cases h
  · unfold setId
    rw [if_pos (visibleOk_of_inv item hi)]
    simp only
    exact insertItem_not_outside _ _ _

/-- **`handle[path][key] = handles[src]` is always described** when both handles are live and different, the path does not
    lead through a Base variable, the target is not a dataset (Structure / Sequence / Grid; a Base target raises
    `TypeError`) and the inserted root satisfies the invariant and is not a dataset -/
theorem set_described (s : State) (h src : Nat) (path : List Str) (key : Str) (o item : Obj) (hne : h ≠ src)
    (hg : s.get h = .ok o) (hg2 : s.get src = .ok item) (hn : navOk path o = true) (hi : invO item)
    (hk : item.hdr.kind ≠ .dataset) (ht : ∀ c, navigate path o = .ok c → c.hdr.kind ≠ .dataset) :
    (Op.set h path key src).described s = true := by
  simp only [Op.described, stepE, bind, Except.bind, throw, throwThe, MonadExceptOf.throw, if_neg hne, hg, hg2]
  cases hm : modifyAt (fun c => setItem c key item) path o with
  | ok r => rfl
  | error e =>
    cases e with
    | outside =>
      exfalso
      obtain ⟨c, hc1, hc⟩ := modifyAt_outside _ path o hm hn
      have hcd := ht c hc1
      unfold setItem at hc
      split at hc
      · cases hc
      · rename_i hd; exact hcd hd
      · rw [if_neg hk] at hc
        exact setItemStruct_not_outside c item key hi hc
    | _ => rfl


end Pydap.Tree
