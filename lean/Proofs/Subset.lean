import PydapModel.Subset
import Proofs.Slice
import Proofs.SliceTuple
import Proofs.Hyperslab
namespace Pydap

/-! ## one axis -/

/-- numpy's selection for one entry of an expanded basic index on an axis of length `L`;
    integer axes are kept with length one -/
def axisSel (L : Nat) : Idx → List Nat
  | Idx.int i => (selInt L i).toList
  | Idx.sl s => sel L s
  | Idx.ell => []

/-- the property's domain for one axis entry, relative to an axis of length `L`:
    ints in `[-L, L)`, slices with bounds ≥ `-L` (arbitrarily far beyond `L` on the positive
    side), step ≥ 1, and a non-empty numpy selection -/
def ValidIdx (L : Nat) : Idx → Prop
  | Idx.int i => -(L : Int) ≤ i ∧ i < L
  | Idx.sl s => (∀ a, s.start = some a → -(L : Int) ≤ a) ∧ (∀ b, s.stop = some b → -(L : Int) ≤ b)
      ∧ (∀ k, s.step = some k → 1 ≤ k) ∧ sel L s ≠ []
  | Idx.ell => False

theorem nonNeg_all : NonNegSl PSlice.all :=
  ⟨by simp [PSlice.all], by simp [PSlice.all], by simp [PSlice.all]⟩

theorem fixSl_nonneg (N : Nat) (s : PSlice)
    (hstart : ∀ i, s.start = some i → -(N : Int) ≤ i)
    (hstop : ∀ j, s.stop = some j → -(N : Int) ≤ j)
    (hstep : ∀ k, s.step = some k → 1 ≤ k) :
    NonNegSl (fixSl N s) := by
  obtain ⟨st, sp, se⟩ := s
  constructor
  · intro a ha
    cases st <;> simp [fixSl] at ha hstart <;> (subst ha; try split) <;> omega
  · intro b hb
    cases st <;> cases sp <;> simp [fixSl] at hb hstart hstop <;> subst hb <;>
      (repeat' split) <;> omega
  · intro k hk
    cases se <;> simp [fixSl, orElse] at hk hstep <;> (subst hk; try split) <;> omega

theorem sel_single (L : Nat) (m : Int) (h0 : 0 ≤ m) (h1 : m < L) :
    sel L ⟨some m, some (m + 1), none⟩ = [m.toNat] := by
  have ea : (npBound L 0 (some m)).toNat = m.toNat := by
    simp only [npBound]; rw [if_neg (by omega)]; omega
  have eb : (npBound L L (some (m + 1))).toNat = m.toNat + 1 := by
    simp only [npBound]; rw [if_neg (by omega)]; omega
  simp only [sel, ea, eb]
  have : (m.toNat + 1 - m.toNat + (Option.getD (none : Option Int) 1).toNat - 1) / (Option.getD (none : Option Int) 1).toNat = 1 := by
    simp
  rw [this]
  simp [List.range']

/-- the normalised entry (as the slice `combine_slices` sees) has non-negative fields and
    selects what numpy selects -/
theorem fixed_axis (L : Nat) (e : Idx) (he : ValidIdx L e) :
    NonNegSl (toSlice (fixAxis L e)) ∧ sel L (toSlice (fixAxis L e)) = axisSel L e
      ∧ (toSlice (fixAxis L e)).stop ≠ none := by
  cases e with
  | ell => exact absurd he (by simp [ValidIdx])
  | int i =>
    obtain ⟨hl, hu⟩ := he
    by_cases hneg : i < 0
    · have hs : selInt L i = some (i + L).toNat := by
        unfold selInt; rw [if_neg (by omega), if_pos ⟨hl, hneg⟩]
      simp only [fixAxis, if_pos hneg, toSlice, axisSel, hs, Option.toList]
      refine ⟨⟨?_, ?_, ?_⟩, sel_single L (i + L) (by omega) (by omega), by simp⟩
      · intro a ha; simp at ha; omega
      · intro b hb; simp at hb; omega
      · intro k hk; simp at hk
    · have hs : selInt L i = some i.toNat := by
        unfold selInt; rw [if_pos ⟨by omega, hu⟩]
      simp only [fixAxis, if_neg hneg, toSlice, axisSel, hs, Option.toList]
      refine ⟨⟨?_, ?_, ?_⟩, sel_single L i (by omega) hu, by simp⟩
      · intro a ha; simp at ha; omega
      · intro b hb; simp at hb; omega
      · intro k hk; simp at hk
  | sl s =>
    obtain ⟨h1, h2, h3, _⟩ := he
    simp only [fixAxis, toSlice, axisSel]
    exact ⟨fixSl_nonneg L s h1 h2 h3, fix_preserves L s h1 h2 h3, by simp [fixSl]⟩

theorem axisSel_ne_nil (L : Nat) (e : Idx) (he : ValidIdx L e) : axisSel L e ≠ [] := by
  cases e with
  | ell => exact absurd he (by simp [ValidIdx])
  | int i =>
    obtain ⟨hl, hu⟩ := he
    by_cases hneg : i < 0
    · have hs : selInt L i = some (i + L).toNat := by
        unfold selInt; rw [if_neg (by omega), if_pos ⟨hl, hneg⟩]
      simp [axisSel, hs]
    · have hs : selInt L i = some i.toNat := by
        unfold selInt; rw [if_pos ⟨by omega, hu⟩]
      simp [axisSel, hs]
  | sl s => exact he.2.2.2

theorem sel_stop_zero (N : Nat) (r : PSlice) (h : NonNegSl r) (hs : r.stop = some 0) : sel N r = [] := by
  rw [sel_eq_natSel N r h]
  have : stopN N r = 0 := by simp [stopN, hs]
  rw [this]
  unfold natSel
  have : cdiv (min 0 N - min (startN r) N) (stepN r) = 0 :=
    (cdiv_eq_zero_iff _ _ (stepN_pos h)).mpr (by omega)
  rw [this]; rfl

/-- the request slice of one axis: stored slice `p` composed with the normalised entry -/
def reqAxis (N : Nat) (p : PSlice) (e : Idx) : PSlice :=
  combine1 p (toSlice (fixAxis (sel N p).length e))

/-- what numpy selects on that axis from the source: entry `e` applied to the pre-sliced axis -/
def axisSpec (N : Nat) (p : PSlice) (e : Idx) : List (Option Nat) :=
  (axisSel (sel N p).length e).map fun j => (sel N p)[j]?

/-- **per-axis end-to-end law**: the composed request slice is printable (`NormSl`) and selects,
    on the source axis, element `j` of the pre-selection for every `j` numpy selects -/
theorem axis_law (N : Nat) (p : PSlice) (hp : NonNegSl p) (e : Idx)
    (he : ValidIdx (sel N p).length e) :
    NormSl (reqAxis N p e) ∧ (sel N (reqAxis N p e)).map some = axisSpec N p e := by
  obtain ⟨hn, hsel, hstop⟩ := fixed_axis _ e he
  have law := combine1_sel N p _ hp hn
  rw [hsel] at law
  have hne : sel N (reqAxis N p e) ≠ [] := by
    intro h0
    have : (axisSel (sel N p).length e).map (fun j => (sel N p)[j]?) = [] := by
      rw [← law]; unfold reqAxis at h0; rw [h0]; rfl
    exact axisSel_ne_nil _ e he (by simpa using this)
  refine ⟨?_, law⟩
  have hc : NonNegSl (reqAxis N p e) := combine1_nonneg hp hn
  -- shape of the combined slice
  obtain ⟨b2, hb2⟩ := Option.ne_none_iff_exists'.mp hstop
  have hform : ∃ a b k, reqAxis N p e = ⟨some a, some b, some k⟩ := by
    unfold reqAxis combine1
    rw [hb2]
    cases p.stop <;> exact ⟨_, _, _, rfl⟩
  obtain ⟨a, b, k, hr⟩ := hform
  refine ⟨a, b, k, hr, hc.start a (by rw [hr]), ?_, hc.step k (by rw [hr])⟩
  have hb0 := hc.stop b (by rw [hr])
  by_cases hb : b = 0
  · exact absurd (sel_stop_zero N _ hc (by rw [hr, hb])) hne
  · omega

/-! ## all axes -/

def padPre (pre : List PSlice) (rank : Nat) : List PSlice :=
  pre ++ List.replicate (rank - pre.length) PSlice.all

def selList : List Nat → List PSlice → List (List Nat)
  | n :: ns, p :: ps => sel n p :: selList ns ps
  | _, _ => []

def reqList : List Nat → List PSlice → List Idx → List PSlice
  | n :: ns, p :: ps, e :: es => reqAxis n p e :: reqList ns ps es
  | _, _, _ => []

def specList : List Nat → List PSlice → List Idx → List (List (Option Nat))
  | n :: ns, p :: ps, e :: es => axisSpec n p e :: specList ns ps es
  | _, _, _ => []

/-- all three lists have the same length and every axis entry is in the domain relative to the
    pre-sliced axis -/
def ValidList : List Nat → List PSlice → List Idx → Prop
  | [], [], [] => True
  | n :: ns, p :: ps, e :: es => NonNegSl p ∧ ValidIdx (sel n p).length e ∧ ValidList ns ps es
  | _, _, _ => False

theorem selList_length (shape : List Nat) (P : List PSlice) (h : P.length = shape.length) :
    (selList shape P).length = shape.length := by
  induction shape generalizing P with
  | nil => cases P <;> simp_all [selList]
  | cons n ns ih => cases P with
    | nil => simp at h
    | cons p ps => simp [selList, ih ps (by simpa using h)]

theorem npSlices_full (shape : List Nat) (P : List PSlice) (h : P.length = shape.length) :
    npSlices shape P = .ok (selList shape P) := by
  induction shape generalizing P with
  | nil => cases P with
    | nil => rfl
    | cons p ps => simp at h
  | cons n ns ih => cases P with
    | nil => simp at h
    | cons p ps => simp [npSlices, selList, ih ps (by simpa using h), Except.map]

theorem npSlices_nil (shape : List Nat) :
    npSlices shape [] = .ok (selList shape (List.replicate shape.length PSlice.all)) := by
  induction shape with
  | nil => rfl
  | cons n ns ih => simp [npSlices, ih, Except.map, selList, List.replicate]

/-- a short tuple of slices behaves as the tuple padded with full slices -/
theorem npSlices_pad (shape : List Nat) (pre : List PSlice) (h : pre.length ≤ shape.length) :
    npSlices shape pre = .ok (selList shape (padPre pre shape.length)) := by
  induction shape generalizing pre with
  | nil => cases pre with
    | nil => rfl
    | cons p ps => simp at h
  | cons n ns ih => cases pre with
    | nil => simpa [padPre] using npSlices_nil (n :: ns)
    | cons p ps =>
      have := ih ps (by simpa using h)
      simp [npSlices, this, Except.map, padPre, selList]

theorem padPre_length (pre : List PSlice) (rank : Nat) (h : pre.length ≤ rank) :
    (padPre pre rank).length = rank := by simp [padPre]; omega

theorem openSlice_eq (pre : List PSlice) (cshape : List Nat) :
    openSlice pre cshape = (padPre pre cshape.length).map Idx.sl := by
  simp [openSlice, padPre]

theorem validList_length {shape : List Nat} {P : List PSlice} {E : List Idx} (h : ValidList shape P E) :
    P.length = shape.length ∧ E.length = shape.length := by
  induction shape generalizing P E with
  | nil => cases P <;> cases E <;> simp_all [ValidList]
  | cons n ns ih => cases P with
    | nil => cases E <;> simp [ValidList] at h
    | cons p ps => cases E with
      | nil => simp [ValidList] at h
      | cons e es => have := ih h.2.2; simp [this.1, this.2]

/-- the client's composed index is, axis by axis, `reqAxis` -/
theorem combine_zipFix (shape : List Nat) (P : List PSlice) (E : List Idx) (h : ValidList shape P E) :
    combine (P.map Idx.sl) (zipFix E (selShape (selList shape P))) = reqList shape P E := by
  induction shape generalizing P E with
  | nil => cases P <;> cases E <;> simp_all [ValidList, selList, selShape, zipFix, combine, reqList]
  | cons n ns ih => cases P with
    | nil => cases E <;> simp [ValidList] at h
    | cons p ps => cases E with
      | nil => simp [ValidList] at h
      | cons e es =>
        have := ih ps es h.2.2
        simp only [selShape] at this
        simp [selList, selShape, zipFix, combine, reqList, reqAxis, toSlice, this]

theorem reqList_norm (shape : List Nat) (P : List PSlice) (E : List Idx) (h : ValidList shape P E) :
    ∀ r ∈ reqList shape P E, NormSl r := by
  induction shape generalizing P E with
  | nil => cases P <;> cases E <;> simp_all [ValidList, reqList]
  | cons n ns ih => cases P with
    | nil => cases E <;> simp [ValidList] at h
    | cons p ps => cases E with
      | nil => simp [ValidList] at h
      | cons e es =>
        intro r hr
        simp only [reqList, List.mem_cons] at hr
        rcases hr with rfl | hr
        · exact (axis_law n p h.1 e h.2.1).1
        · exact ih ps es h.2.2 r hr

theorem reqList_length (shape : List Nat) (P : List PSlice) (E : List Idx) (h : ValidList shape P E) :
    (reqList shape P E).length = shape.length := by
  induction shape generalizing P E with
  | nil => cases P <;> cases E <;> simp_all [ValidList, reqList]
  | cons n ns ih => cases P with
    | nil => cases E <;> simp [ValidList] at h
    | cons p ps => cases E with
      | nil => simp [ValidList] at h
      | cons e es => simp [reqList, ih ps es h.2.2]

theorem selList_reqList (shape : List Nat) (P : List PSlice) (E : List Idx) (h : ValidList shape P E) :
    (selList shape (reqList shape P E)).map (List.map some) = specList shape P E := by
  induction shape generalizing P E with
  | nil => cases P <;> cases E <;> simp_all [ValidList, reqList, selList, specList]
  | cons n ns ih => cases P with
    | nil => cases E <;> simp [ValidList] at h
    | cons p ps => cases E with
      | nil => simp [ValidList] at h
      | cons e es =>
        simp [reqList, selList, specList, ih ps es h.2.2, (axis_law n p h.1 e h.2.1).2]

/-- **the whole chain** for an index whose numpy expansion is `E`
    (`fix_slice` agrees with numpy's expansion: C03's tuple theorems): open with the URL
    pre-constraint, index, print, parse on the server, slice the source. -/
theorem remoteIndex_spec (shape : List Nat) (pre : List PSlice) (idx E : List Idx)
    (hlen : pre.length ≤ shape.length)
    (hfix : ∀ cshape : List Nat, cshape.length = shape.length → fixSlice idx cshape = zipFix E cshape)
    (hv : ValidList shape (padPre pre shape.length) E) :
    ∃ R, remoteIndex shape pre idx = .ok R ∧
      R.map (List.map some) = specList shape (padPre pre shape.length) E ∧
      R = selList shape (reqList shape (padPre pre shape.length) E) := by
  have hP := padPre_length pre shape.length hlen
  have hcl : (selShape (selList shape (padPre pre shape.length))).length = shape.length := by
    simp [selShape, selList_length shape _ hP]
  have hreq : proxyIndex (openSlice pre (selShape (selList shape (padPre pre shape.length))))
      (selShape (selList shape (padPre pre shape.length))) idx
      = reqList shape (padPre pre shape.length) E := by
    unfold proxyIndex
    rw [openSlice_eq, hcl, hfix _ hcl]
    exact combine_zipFix shape _ E hv
  refine ⟨selList shape (reqList shape (padPre pre shape.length) E), ?_, selList_reqList shape _ E hv, rfl⟩
  unfold remoteIndex constrainedShape
  rw [npSlices_pad shape pre hlen]
  simp only [Except.map]
  rw [hreq]
  unfold serveSlab
  rw [parseHyperslab_hyperslabText _ (reqList_norm shape _ E hv)]
  exact npSlices_full shape _ (reqList_length shape _ E hv)

/-! ## grids -/

theorem expandKey_noEll (key : List Idx) (n : Nat) (h : NoEll key) : expandKey key n = key := by
  induction key with
  | nil => rfl
  | cons x xs ih =>
    have hx : x ≠ Idx.ell := h x (by simp)
    have hxs : NoEll xs := fun y hy => h y (by simp [hy])
    cases x with
    | ell => exact absurd rfl hx
    | int i => simp [expandKey, ih hxs]
    | sl s => simp [expandKey, ih hxs]

theorem expandKey_ell (pre post : List Idx) (n : Nat) (h : NoEll pre) :
    expandKey (pre ++ Idx.ell :: post) n = pre ++ List.replicate n (Idx.sl PSlice.all) ++ post := by
  induction pre with
  | nil => simp [expandKey]
  | cons x xs ih =>
    have hx : x ≠ Idx.ell := h x (by simp)
    have hxs : NoEll xs := fun y hy => h y (by simp [hy])
    cases x with
    | ell => exact absurd rfl hx
    | int i => simp [expandKey, ih hxs]
    | sl s => simp [expandKey, ih hxs]

/-- with one Ellipsis the repaired key is exactly numpy's expansion -/
theorem expandKey_ell_np (pre post : List Idx) (rank : Nat) (h : NoEll pre)
    (hl : pre.length + post.length ≤ rank) :
    expandKey (pre ++ Idx.ell :: post) (rank + 1 - (pre ++ Idx.ell :: post).length)
      = npExpand pre (some post) rank := by
  rw [expandKey_ell pre post _ h]
  simp only [npExpand, List.length_append, List.length_cons]
  congr 3
  omega

theorem pairMaps_getElem (l : List Idx) (i0 m j : Nat) (hj : j < l.length) (hm : j < m) :
    (pairMaps l i0 m)[j]? = some (i0 + j, [l[j]]) := by
  induction l generalizing i0 m j with
  | nil => simp at hj
  | cons e es ih =>
    cases m with
    | zero => omega
    | succ m =>
      cases j with
      | zero => simp [pairMaps]
      | succ j =>
        simp only [pairMaps, List.getElem?_cons_succ, List.getElem_cons_succ]
        rw [ih (i0 + 1) m j (by simpa using hj) (by omega), Nat.add_assoc, Nat.add_comm 1 j]

theorem pairMaps_length (l : List Idx) (i0 m : Nat) : (pairMaps l i0 m).length = min l.length m := by
  induction l generalizing i0 m with
  | nil => simp [pairMaps]
  | cons e es ih => cases m with
    | zero => simp [pairMaps]
    | succ m => simp [pairMaps, ih]

/-- axis `j` of the array request -/
theorem reqList_getElem (shape : List Nat) (P : List PSlice) (E : List Idx) (h : ValidList shape P E)
    (j : Nat) (hj : j < shape.length) :
    (reqList shape P E)[j]? =
      some (reqAxis shape[j] (P[j]'(by rw [(validList_length h).1]; exact hj))
        (E[j]'(by rw [(validList_length h).2]; exact hj))) := by
  induction shape generalizing P E j with
  | nil => simp at hj
  | cons n ns ih => cases P with
    | nil => cases E <;> simp [ValidList] at h
    | cons p ps => cases E with
      | nil => simp [ValidList] at h
      | cons e es =>
        cases j with
        | zero => simp [reqList]
        | succ j => simpa [reqList] using ih ps es h.2.2 j (by simpa using hj)

/-- a map is a rank-1 variable: its own request for the entry of its axis is `reqAxis` -/
theorem map_request (N : Nat) (p : PSlice) (e : Idx) (he : e ≠ Idx.ell) :
    proxyIndex [Idx.sl p] [(sel N p).length] [e] = [reqAxis N p e] := by
  cases e with
  | ell => exact absurd rfl he
  | int i => simp [proxyIndex, fixSlice, expandEll, zipFix, combine, reqAxis, toSlice]
  | sl s => simp [proxyIndex, fixSlice, expandEll, zipFix, combine, reqAxis, toSlice]

end Pydap
