import Proofs.DasStatement
/-! What `expected ds` means, in the property's words (C08): lookups instead of the model-shaped lists. -/
namespace Pydap.Das

/-! #### variables -/

theorem mem_expectVars_of_mem (cs : List Var) (v : Var) (hv : v ∈ cs) :
    ∀ pd ∈ expectVar v, pd ∈ expectVars cs := by
  induction cs with
  | nil => cases hv
  | cons w rest ih =>
    intro pd hpd
    simp only [expectVars, List.mem_append]
    rcases List.mem_cons.mp hv with rfl | hv
    · exact Or.inr hpd
    · exact Or.inl (ih hv pd hpd)

/-- every variable of a node holds exactly its own attribute map (sorted by key) -/
theorem expected_own (cs : List Var) (v : Var) (hv : v ∈ cs) : ([v.name], sortKeys v.attrs) ∈ expectVars cs := by
  apply mem_expectVars_of_mem cs v hv
  obtain ⟨k, n, a, ch⟩ := v
  cases k <;> simp [expectVar, Var.name, Var.attrs]

/-- … at any depth: what holds below a Structure / Sequence holds under its name -/
theorem expected_sub (cs : List Var) (v : Var) (hv : v ∈ cs) (hk : v.kind = .struct ∨ v.kind = .seq)
    (q : List Text) (d : Dict) (h : (q, d) ∈ expectVars v.children) : (v.name :: q, d) ∈ expectVars cs := by
  apply mem_expectVars_of_mem cs v hv
  obtain ⟨k, n, a, ch⟩ := v
  have hm : (n :: q, d) ∈ (expectVars ch).map (pre n) := List.mem_map.mpr ⟨(q, d), h, rfl⟩
  rcases hk with hk | hk <;> simp only [Var.kind] at hk <;> subst hk <;>
    simp only [expectVar, Var.name, List.mem_append] <;> exact Or.inl hm

/-- the members of a Grid (never printed; excluded from the property) hold nothing -/
theorem expected_member (cs : List Var) (g m : Var) (hg : g ∈ cs) (hk : g.kind = .grid) (hm : m ∈ g.children) :
    ([g.name, m.name], []) ∈ expectVars cs := by
  apply mem_expectVars_of_mem cs g hg
  obtain ⟨k, n, a, ch⟩ := g
  simp only [Var.kind] at hk; subst hk
  simp only [expectVar, Var.name, List.mem_append]
  exact Or.inl (List.mem_map.mpr ⟨m, List.mem_reverse.mpr hm, rfl⟩)

/-! #### globals -/

theorem dget_dset_ne (d : Dict) (k k' : Text) (v : AVal) (h : k ≠ k') : dget (dset d k' v) k = dget d k := by
  induction d with
  | nil =>
    have : (k == k') = false := by simpa using h
    simp [dset, dget, List.lookup, this]
  | cons x rest ih =>
    obtain ⟨a, b⟩ := x
    unfold dset
    by_cases hak : a = k'
    · subst hak
      simp only [if_true, dget, List.lookup]
      have : (k == a) = false := by simpa using h
      simp [this]
    · simp only [hak, if_false, dget, List.lookup]
      cases hka : (k == a) with
      | true => rfl
      | false => simpa [dget] using ih

theorem dget_dupdate_miss (e : Dict) : ∀ (d : Dict) (k : Text), k ∉ keys e → dget (dupdate d e) k = dget d k := by
  induction e with
  | nil => intro d k _; rfl
  | cons x rest ih =>
    intro d k hk
    obtain ⟨a, b⟩ := x
    have h1 : k ≠ a := fun h => hk (by simp [keys, h])
    have h2 : k ∉ keys rest := fun h => hk (by simp only [keys, List.map_cons, List.mem_cons]; right; exact h)
    show dget (dupdate (dset d a b) rest) k = dget d k
    rw [ih _ k h2, dget_dset_ne d k a b h1]

theorem dget_dupdate_hit (e : Dict) : ∀ (d : Dict) (k : Text) (v : AVal), (keys e).Nodup → dget e k = some v →
    dget (dupdate d e) k = some v := by
  induction e with
  | nil => intro d k v _ h; cases h
  | cons x rest ih =>
    intro d k v hnd h
    obtain ⟨a, b⟩ := x
    have hnd' := List.nodup_cons.mp hnd
    show dget (dupdate (dset d a b) rest) k = some v
    by_cases hka : k = a
    · subst hka
      have : b = v := by simpa [dget, List.lookup] using h
      subst this
      rw [dget_dupdate_miss rest _ k hnd'.1, dget_dset_self]
    · have : dget rest k = some v := by
        have hb : (k == a) = false := by simpa using hka
        simpa [dget, List.lookup, hb] using h
      exact ih _ k v hnd'.2 this


theorem dget_filter (l : Dict) (p : Text × AVal → Bool) (k : Text) (v : AVal) (h : dget l k = some v)
    (hp : p (k, v) = true) : dget (l.filter p) k = some v := by
  induction l with
  | nil => cases h
  | cons x rest ih =>
    obtain ⟨a, b⟩ := x
    by_cases hka : k = a
    · subst hka
      have : b = v := by simpa [dget, List.lookup] using h
      subst this
      simp [List.filter, hp, dget]
    · have hb : (k == a) = false := by simpa using hka
      have h' : dget rest k = some v := by simpa [dget, List.lookup, hb] using h
      cases hpx : p (a, b) with
      | true => simpa [List.filter, hpx, dget, List.lookup, hb] using ih h'
      | false => simpa [List.filter, hpx] using ih h'

theorem keys_filter_nodup (l : Dict) (p : Text × AVal → Bool) (h : (keys l).Nodup) : (keys (l.filter p)).Nodup :=
  List.Nodup.sublist (List.Sublist.map _ List.filter_sublist) h

/-- **a plain global attribute is found among the client's globals** (it also wins over a name inside NC_GLOBAL/DODS_EXTRA) -/
theorem expected_global_plain (ds : Dataset) (hnd : (keys ds.attrs).Nodup) (k : Text) (v : AVal)
    (h : dget ds.attrs k = some v) (hp : isGlobalDict (k, v) = false) :
    dget (expected ds).globals k = some v := by
  unfold expected
  apply dget_dupdate_hit _ _ k v (keys_filter_nodup _ _ (nodup_keys_sort _ hnd))
  apply dget_filter
  · rw [dget_sortKeys _ hnd]; exact h
  · simp [notGlobal, hp]

/-- no dict-valued NC_GLOBAL/DODS_EXTRA entry of `l` defines the name `k` -/
def NoMention (l : Dict) (k : Text) : Prop := ∀ g e, (g, AVal.dict e) ∈ l → g ∈ globalNames → k ∉ keys e

theorem mergeGlobals_miss (l : Dict) (k : Text) : ∀ acc : Dict, NoMention l k →
    dget (mergeGlobals l acc) k = dget acc k := by
  induction l with
  | nil => intro acc _; rfl
  | cons x rest ih =>
    intro acc hn
    obtain ⟨g, v⟩ := x
    have hr : NoMention rest k := fun g' e' hm hg => hn g' e' (List.mem_cons_of_mem _ hm) hg
    cases v with
    | sc y => simpa [mergeGlobals] using ih acc hr
    | list y => simpa [mergeGlobals] using ih acc hr
    | dict e =>
      simp only [mergeGlobals]
      split
      · rename_i hc
        rw [ih _ hr]
        exact dget_dupdate_miss e acc k (hn g e (by simp) (by simpa using hc))
      · exact ih acc hr

/-- **an entry of a dict-valued NC_GLOBAL / DODS_EXTRA is found among the client's globals** when the name is defined
    only there (no dataset attribute of that name, not in the other container: the property does not say who wins) -/
theorem expected_global_merged (ds : Dataset) (hnd : (keys ds.attrs).Nodup) (g : Text) (e : Dict) (k : Text) (v : AVal)
    (hg : g ∈ globalNames) (hm : (g, AVal.dict e) ∈ ds.attrs) (he : (keys e).Nodup) (hk : dget e k = some v)
    (hplain : k ∉ keys ds.attrs)
    (hother : ∀ g' e', (g', AVal.dict e') ∈ ds.attrs → g' ∈ globalNames → g' ≠ g → k ∉ keys e') :
    dget (expected ds).globals k = some v := by
  unfold expected
  have hS : (keys (sortKeys ds.attrs)).Nodup := nodup_keys_sort _ hnd
  have hkS : k ∉ keys (sortKeys ds.attrs) := fun h => hplain ((keys_sort_perm ds.attrs).mem_iff.mp h)
  have hkF : k ∉ keys ((sortKeys ds.attrs).filter notGlobal) := fun h =>
    hkS ((List.Sublist.map _ List.filter_sublist).subset h)
  rw [dget_dupdate_miss _ _ k hkF]
  obtain ⟨l1, l2, hl⟩ := List.append_of_mem ((mem_sortKeys _ _).mpr hm)
  rw [hl] at hS ⊢
  rw [keys_append] at hS
  have hS' := List.nodup_append.mp hS
  have hg1 : g ∉ keys l1 := fun h => hS'.2.2 g h g (by simp [keys]) rfl
  have hg2 : g ∉ keys l2 := (List.nodup_cons.mp hS'.2.1).1
  have hsub : ∀ x, x ∈ l1 ∨ x ∈ l2 → x ∈ ds.attrs := by
    intro x hx
    apply (mem_sortKeys x ds.attrs).mp
    rw [hl]
    rcases hx with hx | hx
    · exact List.mem_append_left _ hx
    · exact List.mem_append_right _ (List.mem_cons_of_mem _ hx)
  have hn1 : NoMention l1 k := fun g' e' hm' hg' =>
    hother g' e' (hsub _ (Or.inl hm')) hg' (fun h => hg1 (by rw [← h]; exact List.mem_map.mpr ⟨_, hm', rfl⟩))
  have hn2 : NoMention l2 k := fun g' e' hm' hg' =>
    hother g' e' (hsub _ (Or.inr hm')) hg' (fun h => hg2 (by rw [← h]; exact List.mem_map.mpr ⟨_, hm', rfl⟩))
  rw [mergeGlobals_append]
  have hc : globalNames.contains g = true := by simpa using hg
  simp only [mergeGlobals, hc, if_true]
  rw [mergeGlobals_miss l2 k _ hn2]
  exact dget_dupdate_hit e _ k v he hk

end Pydap.Das
