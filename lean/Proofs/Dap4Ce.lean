/-
  The request text of `BaseProxyDap4.__getitem__` is read back by the DAP4 branch of `parse_ce`
  as exactly one projection item: the id and the slices.
-/
import PydapModel.Dap4Ce
import PydapModel.Dap4Index
import Proofs.Hyperslab
namespace Pydap.Dap4
open Pydap Pydap.Handler

/-- characters an id may be made of here: none of the constraint-expression syntax (`%` is excluded too: an id
    that carries percent-escapes goes through urllib's `unquote`, which is not the identity on it) -/
def idChar (c : Char) : Bool :=
  !(c = '%' || c = '|' || c = ';' || c = '(' || c = ')' || c = '.' || c = '[' || c = '<' || c = '>' || c = '=')

def IdOk (id : List Char) : Prop := id ≠ [] ∧ ∀ c ∈ id, idChar c = true

/-- the characters of a hyperslab text -/
def slabChar (c : Char) : Prop := isDigit c = true ∨ c = ':' ∨ c = '[' ∨ c = ']'

theorem groupText_chars' {s : PSlice} (h : NormSl s) : ∀ c ∈ groupText s, isDigit c = true ∨ c = ':' := by
  obtain ⟨a, b, k, rfl, ha, hb, hk, ht⟩ := hyperTriple_norm h
  unfold groupText
  rw [ht]
  intro c hc
  simp only [List.append_assoc, List.mem_append, List.mem_cons, List.not_mem_nil, or_false] at hc
  rcases hc with hc | hc | hc | hc | hc
  · exact .inl (intText_allDigits a ha c hc)
  · exact .inr hc
  · exact .inl (intText_allDigits k (by omega) c hc)
  · exact .inr hc
  · exact .inl (intText_allDigits (b - 1) (by omega) c hc)

theorem slab_chars (l : List PSlice) (h : ∀ s ∈ l, NormSl s) : ∀ c ∈ hyperslabText l, slabChar c := by
  rw [hyperslabText_eq l h]
  intro c hc
  simp only [List.mem_flatMap, List.mem_map] at hc
  obtain ⟨g, ⟨s, hs, rfl⟩, hc⟩ := hc
  simp only [List.mem_append, List.mem_cons, List.not_mem_nil, or_false] at hc
  rcases hc with (rfl | hc) | rfl
  · exact .inr (.inr (.inl rfl))
  · rcases groupText_chars' (h s hs) c hc with d | e
    · exact .inl d
    · exact .inr (.inl e)
  · exact .inr (.inr (.inr rfl))

theorem last_close (gs : List (List Char)) : ∀ g : List Char,
    (g ++ [']'] ++ gs.flatMap fun g => ['['] ++ g ++ [']']).getLast? = some ']' := by
  induction gs with
  | nil => intro g; simp
  | cons g' gs ih =>
    intro g
    have := ih (g ++ [']'] ++ ['['] ++ g')
    simpa [List.flatMap_cons, List.append_assoc] using this

/-- a hyperslab text is empty or `[` … `]` -/
theorem slab_shape (l : List PSlice) (h : ∀ s ∈ l, NormSl s) :
    hyperslabText l = [] ∨ ∃ t, hyperslabText l = '[' :: t ∧ t ≠ [] ∧ t.getLast? = some ']' := by
  rw [hyperslabText_eq l h]
  cases l with
  | nil => exact .inl rfl
  | cons s ss =>
    right
    refine ⟨groupText s ++ [']'] ++ (ss.map groupText).flatMap fun g => ['['] ++ g ++ [']'], ?_, by simp, ?_⟩
    · simp [List.flatMap_cons, List.append_assoc]
    · exact last_close _ _

theorem slabChar_ne {c : Char} (h : slabChar c) :
    c ≠ '%' ∧ c ≠ '|' ∧ c ≠ ';' ∧ c ≠ '(' ∧ c ≠ ')' ∧ c ≠ '.' ∧ c ≠ '<' ∧ c ≠ '>' ∧ c ≠ '=' := by
  refine ⟨?_, ?_, ?_, ?_, ?_, ?_, ?_, ?_, ?_⟩ <;>
    (intro e; subst e; rcases h with h | h | h | h <;> revert h <;> decide)

theorem idChar_ne {c : Char} (h : idChar c = true) :
    c ≠ '%' ∧ c ≠ '|' ∧ c ≠ ';' ∧ c ≠ '(' ∧ c ≠ ')' ∧ c ≠ '.' ∧ c ≠ '[' ∧ c ≠ '<' ∧ c ≠ '>' ∧ c ≠ '=' := by
  refine ⟨?_, ?_, ?_, ?_, ?_, ?_, ?_, ?_, ?_, ?_⟩ <;> (intro e; subst e; exact absurd h (by decide))

theorem unqAux_noPct (s : Str) (h : ∀ c ∈ s, c ≠ '%') : unqAux 0 s = s := by
  induction s with
  | nil => rfl
  | cons c cs ih =>
    rw [unqAux, if_neg (h c (by simp)), ih (fun x hx => h x (by simp [hx]))]

theorem tokTop_single (key : Char) (cs : Str) (h : ∀ c ∈ cs, c ≠ '(' ∧ c ≠ ')' ∧ c ≠ key) :
    ∀ cur : Str, tokTop key cs 0 cur = [cur.reverse ++ cs] := by
  induction cs with
  | nil => intro cur; simp [tokTop]
  | cons c cs ih =>
    intro cur
    obtain ⟨h1, h2, h3⟩ := h c (by simp)
    rw [tokTop, if_neg h1, if_neg h2, if_neg (by intro ⟨e, _⟩; exact h3 e), ih (fun x hx => h x (by simp [hx]))]
    simp

theorem splitName_id (id H : Str) (hid : ∀ c ∈ id, c ≠ '[')
    (hH : H = [] ∨ ∃ t, H = '[' :: t ∧ t ≠ [] ∧ t.getLast? = some ']') : splitName (id ++ H) = (id, H) := by
  induction id with
  | nil =>
    rcases hH with rfl | ⟨t, rfl, ht, hl⟩
    · rfl
    · simp only [List.nil_append]
      rw [splitName, if_pos ⟨rfl, ht, hl⟩]
  | cons c cs ih =>
    have := ih (fun x hx => hid x (by simp [hx]))
    rw [List.cons_append, splitName, if_neg (by intro ⟨e, _⟩; exact hid c (by simp) e), this]

/-- **the request is read back**: `parse_ce("dap4.ce=" + id + hyperslab(slices), "dap4")` is the one projection
    item `(id, slices)` and no selection -/
theorem parseCE4_request (id : Str) (sl : List PSlice) (hid : IdOk id) (hs : ∀ s ∈ sl, NormSl s) :
    parseCE4 ("dap4.ce=".toList ++ id ++ hyperslabText sl) = .ok ([.path [(id, sl)]], []) := by
  have hH := slab_chars sl hs
  have hall : ∀ c ∈ id ++ hyperslabText sl,
      c ≠ '%' ∧ c ≠ '|' ∧ c ≠ ';' ∧ c ≠ '(' ∧ c ≠ ')' ∧ c ≠ '.' ∧ c ≠ '<' ∧ c ≠ '>' ∧ c ≠ '=' := by
    intro c hc
    rcases List.mem_append.mp hc with m | m
    · obtain ⟨a1, a2, a3, a4, a5, a6, _, a8, a9, a10⟩ := idChar_ne (hid.2 c m)
      exact ⟨a1, a2, a3, a4, a5, a6, a8, a9, a10⟩
    · exact slabChar_ne (hH c m)
  have hne : id ++ hyperslabText sl ≠ [] := by
    intro e; exact hid.1 (List.append_eq_nil_iff.mp e).1
  unfold parseCE4
  have e1 : ("dap4.ce=".toList ++ id ++ hyperslabText sl).take 8 = dap4Prefix := by
    rw [List.append_assoc]; rfl
  have e2 : ("dap4.ce=".toList ++ id ++ hyperslabText sl).drop 8 = id ++ hyperslabText sl := by
    rw [List.append_assoc]; rfl
  rw [if_neg (by intro ⟨_, h⟩; exact h e1), e2]
  have e3 : unquote (id ++ hyperslabText sl) = id ++ hyperslabText sl :=
    unqAux_noPct _ (fun c hc => (hall c hc).1)
  rw [e3, splitOnChar_no_sep '|' _ (fun c hc => (hall c hc).2.1)]
  have e4 : [id ++ hyperslabText sl].filter (· ≠ []) = [id ++ hyperslabText sl] := by simp [hne]
  simp only [e4]
  have e5 : (id ++ hyperslabText sl).any isRelChar = false := by
    rw [List.any_eq_false]
    intro c hc
    obtain ⟨_, _, _, _, _, _, a, b, d⟩ := hall c hc
    simp [isRelChar, a, b, d]
  rw [e5]
  simp only [Bool.false_eq_true, if_false]
  rw [tokTop_single ';' _ (fun c hc => ⟨(hall c hc).2.2.2.1, (hall c hc).2.2.2.2.1, (hall c hc).2.2.1⟩)]
  simp only [List.reverse_nil, List.nil_append, List.mapM_cons, List.mapM_nil]
  have e6 : parseProjToken (id ++ hyperslabText sl) = .ok (.path [(id, sl)]) := by
    unfold parseProjToken
    have : (id ++ hyperslabText sl).contains '(' = false := by
      apply Bool.eq_false_iff.mpr
      intro h
      exact (hall '(' (List.contains_iff_mem.mp h)).2.2.2.1 rfl
    rw [this]
    simp only [Bool.false_eq_true, if_false]
    rw [splitOnChar_no_sep '.' _ (fun c hc => (hall c hc).2.2.2.2.2.1)]
    simp only [List.mapM_cons, List.mapM_nil]
    unfold parsePart
    rw [splitName_id id _ (fun c hc => (idChar_ne (hid.2 c hc)).2.2.2.2.2.2.1) (slab_shape sl hs)]
    simp only [parseHyperslab_hyperslabText sl hs]
    rfl
  rw [e6]
  rfl

end Pydap.Dap4
