/-
  C16 — which accesses an outcome justifies: every `open`/`listdir`/handler call of `serveAt` is the one its outcome
  stands for; everything else is a `stat`.
-/
import PydapModel.Path
import Proofs.Path
import Proofs.PathServe
namespace Pydap.Path

/-- what an access may be, given the outcome: a `stat`, or the one open/list/handler call the outcome stands for -/
def Justified (o : Outcome) (a : Access) : Prop :=
  a.op = .stat ∨ (a.op = .serve ∧ o = .file a.path) ∨
  (a.op = .listdir ∧ ∃ cat files dirs, o = .listing cat a.path files dirs) ∨
  (a.op = .handler ∧ o = .dap a.path)

theorem index_justified (exts : List Seg) (fs : FS) (c : Bool) (d : Segs) (es : List Seg) :
    ∀ a ∈ (index exts fs c d es).1, Justified (index exts fs c d es).2 a := by
  intro a ha
  simp only [index, List.mem_cons, List.mem_map] at ha
  rcases ha with rfl | ⟨e, _, rfl⟩
  · right; right; left; exact ⟨rfl, _, _, _, rfl⟩
  · left; rfl

theorem serveDap_justified (exts : List Seg) (fs : FS) (p : Segs) :
    ∀ a ∈ (serveDap exts fs p).1, Justified (serveDap exts fs p).2 a := by
  intro a ha
  cases hf : (fs (stripExt p)).isFile <;> cases hh : hasHandler exts (stripExt p) <;>
    simp [serveDap, hf, hh] at ha ⊢ <;>
    rcases ha with rfl | rfl | rfl <;> simp [Justified]

theorem serveAt_justified (exts : List Seg) (fs : FS) (root p : Segs) :
    ∀ a ∈ (serveAt exts fs root p).1, Justified (serveAt exts fs root p).2 a := by
  intro a ha
  cases hc : contained root p with
  | false => simp [serveAt, hc] at ha
  | true =>
    cases hf : fs p with
    | file =>
      simp [serveAt, hc, hf] at ha ⊢
      rcases ha with rfl | rfl <;> simp [Justified]
    | dir es =>
      simp only [serveAt, hc, hf, Bool.not_true, Bool.false_eq_true, if_false, List.mem_cons] at ha ⊢
      rcases ha with rfl | ha
      · left; rfl
      · exact index_justified exts fs false p es a ha
    | missing =>
      by_cases hb : basename p = catalogName
      · cases hd : fs (dirname p) with
        | dir es =>
          simp only [serveAt, hc, hf, hb, hd, Bool.not_true, Bool.false_eq_true, if_false, if_true, List.mem_cons] at ha ⊢
          rcases ha with rfl | rfl | ha
          · left; rfl
          · left; rfl
          · exact index_justified exts fs true (dirname p) es a ha
        | file =>
          simp only [serveAt, hc, hf, hb, hd, Bool.not_true, Bool.false_eq_true, if_false, if_true, List.mem_cons] at ha ⊢
          rcases ha with rfl | ha
          · left; rfl
          · exact serveDap_justified exts fs p a ha
        | missing =>
          simp only [serveAt, hc, hf, hb, hd, Bool.not_true, Bool.false_eq_true, if_false, if_true, List.mem_cons] at ha ⊢
          rcases ha with rfl | ha
          · left; rfl
          · exact serveDap_justified exts fs p a ha
      · simp only [serveAt, hc, hf, hb, Bool.not_true, Bool.false_eq_true, if_false] at ha ⊢
        exact serveDap_justified exts fs p a ha
end Pydap.Path
