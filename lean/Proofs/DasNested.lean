import Proofs.DasIds
import Proofs.DasExpect
/-! `add_attributes` on a NESTED DAS in general position (C08): containers in any order, for any subset of the variables
    at any depth, strangers anywhere.  Every variable looks its container up in the ORIGINAL container of its parent. -/
namespace Pydap.Das

/-- `N` after the variable called `n` took its container (only a dict is taken) -/
def popKid (N : Dict) (n : Text) : Dict :=
  match dget N n with
  | some (.dict _) => derase N n
  | _ => N

/-- a container after each of the variables `cs` took its own container out of it -/
def stripKids (N : Dict) (cs : List Var) : Dict := cs.foldr (fun v acc => popKid acc v.name) N

/-- a subtree for which the DAS has no container: every variable in it holds nothing -/
def emptyVars (cs : List Var) : List (List Text × Dict) := (walkVars [] cs).reverse.map fun p => (p, [])

mutual
/-- what the variable `v` and its descendants hold (visiting order, ids relative to the parent), given the container `N`
    of the parent as the text wrote it: with a container `n { … }` in `N`, `v` holds its entries except the containers its
    own children take, and the children are looked up inside it; without one, the whole subtree holds nothing -/
def heldVar (N : Dict) : Var → List (List Text × Dict)
  | .mk _ n _ ch =>
    match dget N n with
    | some (.dict E) => (heldVars E ch).map (pre n) ++ [([n], dupdate [] (stripKids E ch))]
    | _ => (emptyVars ch).map (pre n) ++ [([n], [])]
def heldVars (N : Dict) : List Var → List (List Text × Dict)
  | [] => []
  | v :: rest => heldVars N rest ++ heldVar N v
end

mutual
/-- sibling names pairwise distinct at every level (what Python's containers enforce) -/
def VarDistinct : Var → Prop
  | .mk _ _ _ cs => (cs.map Var.name).Nodup ∧ VarsDistinct cs
def VarsDistinct : List Var → Prop
  | [] => True
  | v :: rest => VarDistinct v ∧ VarsDistinct rest
end

theorem dget_popKid_ne (N : Dict) (n k : Text) (h : k ≠ n) : dget (popKid N n) k = dget N k := by
  unfold popKid
  split
  · exact dget_derase_ne N n k h
  · rfl

theorem dget_stripKids_ne (cs : List Var) (N : Dict) (k : Text) (h : k ∉ cs.map Var.name) :
    dget (stripKids N cs) k = dget N k := by
  induction cs with
  | nil => rfl
  | cons v rest ih =>
    have h1 : k ≠ v.name := fun e => h (by simp [e])
    have h2 : k ∉ rest.map Var.name := fun e => h (by simp only [List.map_cons, List.mem_cons]; right; exact e)
    show dget (popKid (stripKids N rest) v.name) k = dget N k
    rw [dget_popKid_ne _ _ _ h1, ih h2]

/-- the id path runs through something that is no container: nothing happens -/
theorem nestedStep_miss (N : Dict) (n q : Text) (qs : List Text) (va : Dict)
    (h : ∀ E, dget N n ≠ some (.dict E)) : nestedStep N (n :: q :: qs) va = .ok (N, va) := by
  unfold nestedStep
  have e2 : (n :: q :: qs).dropLast = n :: (q :: qs).dropLast := by simp [List.dropLast]
  cases hl : (n :: q :: qs).getLast? with
  | none => rfl
  | some kk =>
    simp only [e2]
    cases hd : dget N n with
    | none => simp [reduceGet, getItem, hd]
    | some x =>
      cases x with
      | dict E => exact absurd hd (h E)
      | sc y =>
        cases hq : (q :: qs).dropLast with
        | nil => simp [reduceGet, getItem, hd]
        | cons a b => simp [reduceGet, getItem, hd]
      | list y =>
        cases hq : (q :: qs).dropLast with
        | nil => simp [reduceGet, getItem, hd]
        | cons a b => simp [reduceGet, getItem, hd]

theorem nestedAll_miss (ps : List (List Text)) (N : Dict) (n : Text) (hne : ∀ p ∈ ps, p ≠ [])
    (h : ∀ E, dget N n ≠ some (.dict E)) :
    nestedAll N (ps.map (n :: ·)) = .ok (N, ps.map fun p => (n :: p, [])) := by
  induction ps with
  | nil => rfl
  | cons p ps ih =>
    obtain ⟨q, qs, rfl⟩ : ∃ q qs, p = q :: qs := by
      cases p with
      | nil => exact absurd rfl (hne [] (by simp))
      | cons q qs => exact ⟨q, qs, rfl⟩
    simp only [List.map_cons, nestedAll, nestedStep_miss N n q qs [] h,
      ih (fun p hp => hne p (by simp [hp]))]

/-- the variable's own visit inside its parent's container -/
theorem nestedStep_own (N : Dict) (n : Text) (va : Dict) :
    nestedStep N [n] va = match dget N n with
      | some (.dict E) => .ok (derase N n, dupdate va E)
      | _ => .ok (N, va) := by
  unfold nestedStep
  simp only [List.getLast?_singleton, List.dropLast_singleton, reduceGet]
  cases hd : dget N n with
  | none => rfl
  | some x => cases x <;> simp [setNested]


theorem heldVar_congr (N N' : Dict) (v : Var) (h : dget N' v.name = dget N v.name) : heldVar N' v = heldVar N v := by
  obtain ⟨k, n, a, ch⟩ := v
  simp only [Var.name] at h
  simp only [heldVar, h]

mutual
/-- one variable and its subtree, visited inside the parent's container `N` -/
theorem nested_var : (v : Var) → (N : Dict) → VarDistinct v →
    nestedAll N (walkVar [] v).reverse = .ok (popKid N v.name, heldVar N v)
  | .mk k n a ch, N, hd => by
    simp only [VarDistinct] at hd
    have hne : ∀ p ∈ (walkVars [] ch).reverse, p ≠ [] := fun p hp => walkVars_ne ch p (List.mem_reverse.mp hp)
    rw [walkVar_nil, nestedAll_append]
    simp only [Var.name, heldVar, popKid]
    cases hN : dget N n with
    | none =>
      rw [nestedAll_miss _ N n hne (by intro E h; rw [hN] at h; cases h)]
      simp only [nestedAll, nestedStep_own, hN]
      simp [emptyVars, List.map_map, Function.comp_def, pre]
    | some x =>
      cases x with
      | sc y =>
        rw [nestedAll_miss _ N n hne (by intro E h; rw [hN] at h; cases h)]
        simp only [nestedAll, nestedStep_own, hN]
        simp [emptyVars, List.map_map, Function.comp_def, pre]
      | list y =>
        rw [nestedAll_miss _ N n hne (by intro E h; rw [hN] at h; cases h)]
        simp only [nestedAll, nestedStep_own, hN]
        simp [emptyVars, List.map_map, Function.comp_def, pre]
      | dict E =>
        rw [nestedAll_local _ N E n hne hN, nested_vars ch E hd.2 hd.1]
        simp only [nestedAll, nestedStep_own, dget_dset_self, derase_dset]
        simp [pre]
/-- the children `cs` of one node, visited in reverse inside the node's container `N` -/
theorem nested_vars : (cs : List Var) → (N : Dict) → VarsDistinct cs → (cs.map Var.name).Nodup →
    nestedAll N (walkVars [] cs).reverse = .ok (stripKids N cs, heldVars N cs)
  | [], N, _, _ => by simp [walkVars, nestedAll, stripKids, heldVars]
  | v :: rest, N, hd, hn => by
    simp only [VarsDistinct] at hd
    have hn' : v.name ∉ rest.map Var.name ∧ (rest.map Var.name).Nodup := List.nodup_cons.mp hn
    simp only [walkVars, List.reverse_append]
    rw [nestedAll_append, nested_vars rest N hd.2 hn'.2]
    simp only
    rw [nested_var v (stripKids N rest) hd.1]
    simp only [heldVars]
    rw [heldVar_congr N (stripKids N rest) v (dget_stripKids_ne rest N v.name hn'.1)]
    rfl
end


/-! #### the flat lookup: at the top level it IS the nested one; below, it must find no container -/

theorem attachStep_top (A : Dict) (n : Text) (init : Dict) : attachStep A [n] init = nestedStep A [n] init := by
  unfold attachStep
  simp only [dotted]
  cases hd : dget A n with
  | none => rfl
  | some x =>
    cases x with
    | sc y => rfl
    | list y => rfl
    | dict e =>
      simp only [nestedStep_own, hd, dget_derase_self]

theorem dget_derase_some (A : Dict) (n key : Text) (x : AVal) (h : dget (derase A n) key = some x) :
    dget A key = some x := by
  by_cases hk : key = n
  · subst hk; rw [dget_derase_self] at h; cases h
  · rwa [dget_derase_ne A n key hk] at h

/-- a visit never creates a container at the top level of the parsed dict -/
theorem nestedStep_dictkeys (A : Dict) (p : List Text) (va : Dict) (A1 va1 : Dict)
    (h : nestedStep A p va = .ok (A1, va1)) (key : Text) (e1 : Dict) (hk : dget A1 key = some (.dict e1)) :
    ∃ e, dget A key = some (.dict e) := by
  match p, h with
  | [], h => simp [nestedStep] at h; rw [← h.1] at hk; exact ⟨e1, hk⟩
  | [n], h =>
    rw [nestedStep_own] at h
    cases hd : dget A n with
    | none => simp [hd] at h; rw [← h.1] at hk; exact ⟨e1, hk⟩
    | some x =>
      cases x with
      | sc y => simp [hd] at h; rw [← h.1] at hk; exact ⟨e1, hk⟩
      | list y => simp [hd] at h; rw [← h.1] at hk; exact ⟨e1, hk⟩
      | dict E =>
        simp [hd] at h; rw [← h.1] at hk; exact ⟨e1, dget_derase_some A n key _ hk⟩
  | k :: q :: qs, h =>
    cases hd : dget A k with
    | none =>
      rw [nestedStep_miss A k q qs va (by intro E hh; rw [hd] at hh; cases hh)] at h
      simp at h; rw [← h.1] at hk; exact ⟨e1, hk⟩
    | some x =>
      cases x with
      | sc y =>
        rw [nestedStep_miss A k q qs va (by intro E hh; rw [hd] at hh; cases hh)] at h
        simp at h; rw [← h.1] at hk; exact ⟨e1, hk⟩
      | list y =>
        rw [nestedStep_miss A k q qs va (by intro E hh; rw [hd] at hh; cases hh)] at h
        simp at h; rw [← h.1] at hk; exact ⟨e1, hk⟩
      | dict N =>
        rw [nestedStep_local A N k q qs va hd] at h
        cases hs : nestedStep N (q :: qs) va with
        | error e => rw [hs] at h; cases h
        | ok r =>
          obtain ⟨N', d⟩ := r
          rw [hs] at h
          simp at h
          rw [← h.1] at hk
          by_cases hkk : key = k
          · subst hkk; exact ⟨N, hd⟩
          · rw [dget_dset_ne A key k _ hkk] at hk; exact ⟨e1, hk⟩

/-- with no container under the dotted id of a variable below the top level, the loop is the nested one -/
theorem attachAll_eq_nested (ps : List (List Text)) : ∀ (A : Dict),
    (∀ p ∈ ps, p.length ≠ 1 → ∀ e, dget A (dotted p) ≠ some (.dict e)) → attachAll A ps = nestedAll A ps := by
  induction ps with
  | nil => intro A _; rfl
  | cons p ps ih =>
    intro A h
    have hstep : attachStep A p [] = nestedStep A p [] := by
      by_cases hl : p.length = 1
      · obtain ⟨n, rfl⟩ := List.length_eq_one_iff.mp hl
        exact attachStep_top A n []
      · have := h p (by simp) hl
        unfold attachStep
        split
        · rename_i e he; exact absurd he (this e)
        · rfl
    simp only [attachAll, nestedAll, hstep]
    cases hs : nestedStep A p [] with
    | error e => rfl
    | ok r =>
      obtain ⟨A1, va⟩ := r
      simp only
      have hA1 : ∀ q ∈ ps, q.length ≠ 1 → ∀ e, dget A1 (dotted q) ≠ some (.dict e) := by
        intro q hq hl e he
        obtain ⟨e0, he0⟩ := nestedStep_dictkeys A p [] A1 va hs _ e he
        exact h q (List.mem_cons_of_mem _ hq) hl e0 he0
      rw [ih A1 hA1]
      cases nestedAll A1 ps <;> rfl

/-- what `add_attributes` must produce from a nested DAS in general position -/
def nestedExpected (cs : List Var) (A : Dict) : Attached :=
  ⟨dupdate (mergeGlobals A []) (stripKids (A.filter notGlobal) cs), heldVars (A.filter notGlobal) cs⟩

/-- **`add_attributes` on a nested DAS in general position, whole tree** -/
theorem nested_attach (name : Text) (cs : List Var) (A : Dict)
    (hd : VarsDistinct cs) (hn : (cs.map Var.name).Nodup)
    (hflat : ∀ p ∈ visitIds cs, p.length ≠ 1 → ∀ e, dget (A.filter notGlobal) (dotted p) ≠ some (.dict e))
    (hself : ∀ e, dget (stripKids (A.filter notGlobal) cs) name ≠ some (.dict e)) :
    addAttributes name cs A = .ok (nestedExpected cs A) := by
  unfold addAttributes nestedExpected
  have h1 := attachAll_eq_nested (visitIds cs) (A.filter notGlobal) hflat
  unfold visitIds notGlobal at h1
  unfold visitIds notGlobal at hflat
  unfold notGlobal at hself
  have h2 := nested_vars cs (A.filter fun kv => !isGlobalDict kv) hd hn
  simp only [h1, h2, attachStep_top, nestedStep_own]
  unfold notGlobal
  cases hN : dget (stripKids (A.filter fun kv => !isGlobalDict kv) cs) name with
  | none => rfl
  | some x =>
    cases x with
    | sc y => rfl
    | list y => rfl
    | dict E => exact absurd hN (hself E)


/-! #### the outcome read as lookups -/

theorem mem_heldVars_of_mem (N : Dict) (cs : List Var) (v : Var) (hv : v ∈ cs) :
    ∀ pd ∈ heldVar N v, pd ∈ heldVars N cs := by
  induction cs with
  | nil => cases hv
  | cons w rest ih =>
    intro pd hpd
    simp only [heldVars, List.mem_append]
    rcases List.mem_cons.mp hv with rfl | hv
    · exact Or.inr hpd
    · exact Or.inl (ih hv pd hpd)

/-- a variable whose parent container holds a container under its name: it holds that container's entries minus the
    containers its own children take, and what its children hold inside it is listed under its name -/
theorem held_some (N : Dict) (cs : List Var) (v : Var) (hv : v ∈ cs) (E : Dict) (h : dget N v.name = some (.dict E)) :
    ([v.name], dupdate [] (stripKids E v.children)) ∈ heldVars N cs
    ∧ ∀ q d, (q, d) ∈ heldVars E v.children → (v.name :: q, d) ∈ heldVars N cs := by
  obtain ⟨k, n, a, ch⟩ := v
  simp only [Var.name, Var.children] at h ⊢
  refine ⟨mem_heldVars_of_mem N cs _ hv _ ?_, fun q d hq => mem_heldVars_of_mem N cs _ hv _ ?_⟩
  · simp [heldVar, h]
  · simp only [heldVar, h, List.mem_append]
    exact Or.inl (List.mem_map.mpr ⟨(q, d), hq, rfl⟩)

/-- a variable the DAS has no container for: it and every variable below it hold nothing -/
theorem held_none (N : Dict) (cs : List Var) (v : Var) (hv : v ∈ cs) (h : ∀ E, dget N v.name ≠ some (.dict E)) :
    ([v.name], []) ∈ heldVars N cs ∧ ∀ p ∈ walkVars [] v.children, (v.name :: p, []) ∈ heldVars N cs := by
  obtain ⟨k, n, a, ch⟩ := v
  simp only [Var.name, Var.children] at h ⊢
  have hu : heldVar N (.mk k n a ch) = (emptyVars ch).map (pre n) ++ [([n], [])] := by
    cases hd : dget N n with
    | none => simp only [heldVar, hd]
    | some x =>
      cases x with
      | sc y => simp only [heldVar, hd]
      | list y => simp only [heldVar, hd]
      | dict E => exact absurd hd (h E)
  refine ⟨mem_heldVars_of_mem N cs _ hv _ ?_, fun p hp => mem_heldVars_of_mem N cs _ hv _ ?_⟩
  · rw [hu]; simp
  · rw [hu]
    simp only [List.mem_append]
    refine Or.inl (List.mem_map.mpr ⟨(p, []), ?_, rfl⟩)
    exact List.mem_map.mpr ⟨p, List.mem_reverse.mpr hp, rfl⟩

/-- what stays in a container (at the top level: what becomes global): a name that is no child keeps its entry -/
theorem strip_other (N : Dict) (cs : List Var) (k : Text) (h : k ∉ cs.map Var.name) :
    dget (stripKids N cs) k = dget N k := dget_stripKids_ne cs N k h

/-- … a plain attribute (string, number, list) keeps its entry even when it is named like a child -/
theorem strip_plain (N : Dict) (cs : List Var) (k : Text) (h : ∀ E, dget N k ≠ some (.dict E)) :
    dget (stripKids N cs) k = dget N k := by
  induction cs with
  | nil => rfl
  | cons v rest ih =>
    show dget (popKid (stripKids N rest) v.name) k = dget N k
    by_cases hk : k = v.name
    · subst hk
      unfold popKid
      split
      · rename_i E hE; rw [ih] at hE; exact absurd hE (h E)
      · exact ih
    · rw [dget_popKid_ne _ _ _ hk, ih]

/-- … and the container of a child is gone -/
theorem strip_child (N : Dict) (cs : List Var) (k : Text) (E : Dict) (hk : k ∈ cs.map Var.name)
    (h : dget N k = some (.dict E)) : dget (stripKids N cs) k = none := by
  induction cs with
  | nil => cases hk
  | cons v rest ih =>
    show dget (popKid (stripKids N rest) v.name) k = none
    by_cases hkv : k = v.name
    · subst hkv
      by_cases hr : v.name ∈ rest.map Var.name
      · have := ih hr
        unfold popKid
        rw [this]
        exact this
      · have hM := dget_stripKids_ne rest N v.name hr
        unfold popKid
        rw [hM, h]
        exact dget_derase_self _ _
    · have hr : k ∈ rest.map Var.name := by
        simp only [List.map_cons, List.mem_cons] at hk
        rcases hk with hk | hk
        · exact absurd hk hkv
        · exact hk
      rw [dget_popKid_ne _ _ _ hkv]; exact ih hr

/-- every loop reports exactly the ids it visits, in order -/
theorem nestedAll_ids (ps : List (List Text)) : ∀ (A A' : Dict) (out : List (List Text × Dict)),
    nestedAll A ps = .ok (A', out) → out.map (·.1) = ps := by
  induction ps with
  | nil => intro A A' out h; simp [nestedAll] at h; simp [← h.2]
  | cons p ps ih =>
    intro A A' out h
    simp only [nestedAll] at h
    cases hs : nestedStep A p [] with
    | error e => rw [hs] at h; cases h
    | ok r =>
      obtain ⟨A1, va⟩ := r
      rw [hs] at h
      simp only at h
      cases hr : nestedAll A1 ps with
      | error e => rw [hr] at h; cases h
      | ok r2 =>
        obtain ⟨A2, o2⟩ := r2
        rw [hr] at h
        simp at h
        rw [← h.2]
        simp [ih A1 A2 o2 hr]

/-- **exactly once**: the outcome lists every variable id once, in visiting order -/
theorem heldVars_ids (N : Dict) (cs : List Var) (hd : VarsDistinct cs) (hn : (cs.map Var.name).Nodup) :
    (heldVars N cs).map (·.1) = visitIds cs :=
  nestedAll_ids _ N _ _ (nested_vars cs N hd hn)


theorem attachAll_ids (ps : List (List Text)) : ∀ (A A' : Dict) (out : List (List Text × Dict)),
    attachAll A ps = .ok (A', out) → out.map (·.1) = ps := by
  induction ps with
  | nil => intro A A' out h; simp [attachAll] at h; simp [← h.2]
  | cons p ps ih =>
    intro A A' out h
    simp only [attachAll] at h
    cases hs : attachStep A p [] with
    | error e => rw [hs] at h; cases h
    | ok r =>
      obtain ⟨A1, va⟩ := r
      rw [hs] at h
      simp only at h
      cases hr : attachAll A1 ps with
      | error e => rw [hr] at h; cases h
      | ok r2 =>
        obtain ⟨A2, o2⟩ := r2
        rw [hr] at h
        simp at h
        rw [← h.2]
        simp [ih A1 A2 o2 hr]

/-- whatever the parsed dict: `add_attributes` reports every variable id exactly once, in visiting order -/
theorem addAttributes_ids (name : Text) (cs : List Var) (A : Dict) (r : Attached)
    (h : addAttributes name cs A = .ok r) : r.vars.map (·.1) = visitIds cs := by
  unfold addAttributes at h
  cases ha : attachAll (A.filter fun kv => !isGlobalDict kv) (walkVars [] cs).reverse with
  | error e => simp only [ha] at h; cases h
  | ok r1 =>
    obtain ⟨A1, vars⟩ := r1
    simp only [ha] at h
    cases hs : attachStep A1 [name] (mergeGlobals A []) with
    | error e => rw [hs] at h; cases h
    | ok r2 =>
      obtain ⟨A2, g1⟩ := r2
      rw [hs] at h
      simp at h
      rw [← h]
      exact attachAll_ids _ _ _ _ ha

/-- **exactly once, served datasets**: `expected ds` lists every variable id once, in visiting order; the id texts are
    pairwise distinct when names are dot-free -/
theorem expected_ids (ds : Dataset) (hg : DsG ds) : (expected ds).vars.map (·.1) = visitIds ds.children :=
  addAttributes_ids ds.name ds.children (dsDict ds) _ (attach_tree ds hg)

theorem expected_ids_nodup (ds : Dataset) (hg : DsG ds) (hnames : VarsNames ds.children) :
    ((expected ds).vars.map fun pd => dotted pd.1).Nodup := by
  have h := expected_ids ds hg
  have hn : (ds.children.map Var.name).Nodup := (List.nodup_append.mp hg.nodup).2.1
  have := ids_nodup ds.children hnames hn
  rw [← h, List.map_map] at this
  exact this

/-- a purely nested text (no top-level name with a dot) has no container under any dotted id below the top level -/
theorem hflat_of_nodot (cs : List Var) (A0 : Dict) (h : NoDot (keys A0)) :
    ∀ p ∈ visitIds cs, p.length ≠ 1 → ∀ e, dget A0 (dotted p) ≠ some (.dict e) := by
  intro p hp hl e he
  have hne : p ≠ [] := walkVars_ne cs p (List.mem_reverse.mp hp)
  match p, hne, hl with
  | [n], _, hl => exact hl rfl
  | k :: q :: qs, _, _ =>
    exact h _ (mem_keys_of_dget A0 _ _ he) (dotted_has_dot k q qs)

/-- a nested DAS in general position for the tree `s {a}, b`: a stranger container first, `b` before `s`, NC_GLOBAL between
    them, inside `s` a stranger container, the container of `a` and a plain entry, a plain global last -/
def exNestedA : Dict :=
  [("HDF_GLOBAL".toList, .dict [("k".toList, .sc (.str "v".toList))]),
   ("b".toList, .dict [("u".toList, .sc (.num "1".toList false))]),
   ("NC_GLOBAL".toList, .dict [("n".toList, .sc (.num "3".toList false))]),
   ("s".toList, .dict [("zz".toList, .dict [("w".toList, .sc (.str "q".toList))]),
                       ("a".toList, .dict [("x".toList, .sc (.num "1.0".toList true))]),
                       ("t".toList, .sc (.num "7".toList false))]),
   ("title".toList, .sc (.str "hi".toList))]

theorem exTmpl_distinct : VarsDistinct exTmpl ∧ (exTmpl.map Var.name).Nodup :=
  ⟨⟨⟨by decide, ⟨by decide, trivial⟩, trivial⟩, ⟨by decide, trivial⟩, trivial⟩, by decide⟩

theorem exNestedA_flat : ∀ p ∈ visitIds exTmpl, p.length ≠ 1 →
    ∀ e, dget (exNestedA.filter notGlobal) (dotted p) ≠ some (.dict e) := by
  intro p hp hl e he
  have hp' : p ∈ [["b".toList], ["s".toList, "a".toList], ["s".toList]] := hp
  simp only [List.mem_cons, List.not_mem_nil, or_false] at hp'
  rcases hp' with rfl | rfl | rfl
  · exact hl rfl
  · have : dget (exNestedA.filter notGlobal) (dotted ["s".toList, "a".toList]) = none := rfl
    rw [this] at he; cases he
  · exact hl rfl

end Pydap.Das
