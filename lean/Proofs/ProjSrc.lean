/-
  The source text of handlers/dap.py `SequenceProxy._projection` and `SequenceProxy.id`, translated on every run by
  harness/py2lean.py into MiniPy syntax (PydapModel/Generated/ProjSrc.lean), computes the text the model writes
  (`SeqClient.projText`, `SeqClient.proxyId`; C04, C14).  Inputs of the blocks (opaque, named in the generator):
  `self.sub_children`, the list `list(self.template.children())` (only its truth value is read; given by the children's
  ids), the comprehension `[child.id for child in self.template.children()]`, `self.template.id`,
  `hyperslab(self.slice)`, `isinstance(self.template, SequenceType)` and `self.id`.
-/
import Proofs.MiniPy
import Proofs.DmrSrc
import Proofs.CeSrc
import PydapModel.SeqClient
import PydapModel.Generated.ProjSrc
set_option linter.unusedSimpArgs false
namespace Pydap
open MiniPy

/-! ### text -/

theorem codesOf_append (a b : List Char) : codesOf (a ++ b) = codesOf a ++ codesOf b := by simp [codesOf]

theorem joinStrs_codesOf (c : Char) (l : List (List Char)) :
    joinStrs [c.toNat] (l.map codesOf) = codesOf (SeqClient.joinWith c l) := by
  induction l with
  | nil => rfl
  | cons a t ih =>
    cases t with
    | nil => rfl
    | cons b r =>
      simp only [List.map_cons, joinStrs, SeqClient.joinWith, codesOf_append, codesOf_cons] at ih ⊢
      rw [ih]; simp

theorem toNat_eq_46 (c : Char) : (c.toNat = 46) ↔ c = '.' :=
  ⟨fun h => Char.toNat_inj' (by rw [h]; rfl), fun h => by rw [h]; rfl⟩

/-- `"." in text` -/
theorem findGo_dot (t : List Char) (i : Nat) : (findGo [46] i (codesOf t)).isSome = decide ('.' ∈ t) := by
  induction t generalizing i with
  | nil => simp [findGo, codesOf]
  | cons c r ih =>
    rw [codesOf_cons]
    simp only [findGo, List.isPrefixOf, Bool.and_true, List.mem_cons]
    by_cases h : c = '.'
    · subst h; simp
    · have h1 : (46 == c.toNat) = false := by
        simp only [beq_eq_false_iff_ne, ne_eq]; exact fun e => h ((toNat_eq_46 c).mp e.symm)
      have h2 : ¬ ('.' = c) := fun e => h e.symm
      rw [h1]; simp only [Bool.false_eq_true, if_false, ih (i + 1), h2, false_or]

/-- `text.rpartition(".")`: the text before and after the last dot -/
def rpartDot : List Char → Option (List Char × List Char)
  | [] => none
  | x :: t =>
    match rpartDot t with
    | some (h, r) => some (x :: h, r)
    | none => if x = '.' then some ([], t) else none

theorem rpartGo_dot (s : List Char) :
    rpartGo [46] (codesOf s) = (rpartDot s).map fun ab => (codesOf ab.1, codesOf ab.2) := by
  induction s with
  | nil => rfl
  | cons c r ih =>
    rw [codesOf_cons]
    simp only [rpartGo, rpartDot, ih]
    cases hr : rpartDot r with
    | some ab => rfl
    | none =>
      simp only [Option.map_none, List.isPrefixOf, Bool.and_true, List.length_singleton, List.drop_succ_cons, List.drop_zero]
      by_cases h : c = '.'
      · subst h; rfl
      · have h1 : (46 == c.toNat) = false := by
          simp only [beq_eq_false_iff_ne, ne_eq]; exact fun e => h ((toNat_eq_46 c).mp e.symm)
        simp [h1, h]

/-- what `rpartDot` finds: the last dot -/
theorem rpartDot_some (s a b : List Char) (h : rpartDot s = some (a, b)) : s = a ++ '.' :: b ∧ '.' ∉ b := by
  induction s generalizing a with
  | nil => simp [rpartDot] at h
  | cons c r ih =>
    simp only [rpartDot] at h
    cases hr : rpartDot r with
    | some ab =>
      obtain ⟨a', b'⟩ := ab
      rw [hr] at h
      simp only [Option.some.injEq, Prod.mk.injEq] at h
      obtain ⟨rfl, rfl⟩ := h
      have := ih a' hr
      exact ⟨by rw [this.1]; simp, this.2⟩
    | none =>
      rw [hr] at h
      by_cases hc : c = '.'
      · simp only [hc, if_true, Option.some.injEq, Prod.mk.injEq] at h
        obtain ⟨rfl, rfl⟩ := h
        refine ⟨by simp [hc], ?_⟩
        clear ih
        induction r with
        | nil => simp
        | cons x t iht =>
          simp only [rpartDot] at hr
          cases ht : rpartDot t with
          | some q => rw [ht] at hr; simp at hr
          | none =>
            rw [ht] at hr
            by_cases hx : x = '.'
            · simp [hx] at hr
            · simp only [List.mem_cons, not_or]; exact ⟨fun e => hx e.symm, iht ht⟩
      · simp [hc] at h

theorem rpartDot_none (s : List Char) : rpartDot s = none ↔ '.' ∉ s := by
  induction s with
  | nil => simp [rpartDot]
  | cons c r ih =>
    simp only [rpartDot, List.mem_cons, not_or]
    cases hr : rpartDot r with
    | some q =>
      simp only [reduceCtorEq, false_iff, not_and]
      intro _ e
      rw [ih.mpr e] at hr; cases hr
    | none =>
      by_cases hc : c = '.'
      · simp [hc]
      · simp only [hc, if_false, true_iff]; exact ⟨fun e => hc e.symm, ih.mp hr⟩

/-! ### `_projection` -/

theorem truthy_slist (l : List (List Nat)) : truthy (.slist l) = !l.isEmpty := rfl

def projEnv (sc : Bool) (ids : List (List Char)) (tid hs : List Char) (isSeq : Bool) (sid : List Char) : Env :=
  [("self.sub_children", .bool sc), ("@children", mkS (ids.map codesOf)), ("@child_ids", mkS (ids.map codesOf)),
   ("self.template.id", .str (codesOf tid)), ("@hyperslab", .str (codesOf hs)),
   ("@template_is_sequence", .bool isSeq), ("self.id", .str (codesOf sid))]

/-- what the source computes, on text -/
def projSpec (sc : Bool) (ids : List (List Char)) (tid hs : List Char) (isSeq : Bool) (sid : List Char) : List Char :=
  if sc = true ∧ ids ≠ [] then
    match ids with
    | [] => []
    | i0 :: rest => SeqClient.joinWith ',' ((tid ++ hs ++ i0.drop tid.length) :: rest)
  else if isSeq = false ∧ '.' ∈ sid then
    match rpartDot sid with
    | some (a, b) => a ++ hs ++ '.' :: b
    | none => sid ++ hs
  else sid ++ hs

theorem src_seq_projection_eq (sc : Bool) (ids : List (List Char)) (tid hs : List Char) (isSeq : Bool) (sid : List Char) :
    runItem (projEnv sc ids tid hs isSeq sid) Gen.src_seq_projection "@ret"
      = .ok (.str (codesOf (projSpec sc ids tid hs isSeq sid))) := by
  unfold Gen.src_seq_projection projEnv projSpec
  by_cases h1 : sc = true ∧ ids ≠ []
  · obtain ⟨hsc, hne⟩ := h1
    subst hsc
    cases ids with
    | nil => exact absurd rfl hne
    | cons i0 rest =>
      simp (decide := true) only [runItem, exec, eval, bind_ok', lookup_cons_eq, lookup_cons_ne, lookup_setVar_eq,
        lookup_setVar_ne, truthy_bool', if_true, mkS, List.map_cons, truthy_slist, List.isEmpty_cons, Bool.not_false,
        List.getElem?_cons_zero, asInt_int, Int.natCast_nonneg, Int.toNat_natCast, List.length_cons, Nat.zero_lt_succ,
        List.set_cons_zero, codesOf_length]
      rw [if_pos ⟨trivial, hne⟩, ← joinStrs_codesOf]
      simp only [List.map_cons, codesOf_append, codesOf_drop]
      rfl
  · rw [if_neg h1]
    have hfind := findGo_dot sid 0
    have hcase : sc = false ∨ (sc = true ∧ ids = []) := by
      cases sc
      · exact .inl rfl
      · refine .inr ⟨rfl, ?_⟩
        cases ids with
        | nil => rfl
        | cons a t => exact absurd ⟨rfl, by simp⟩ h1
    by_cases h2 : isSeq = false ∧ '.' ∈ sid
    · obtain ⟨hq, hd⟩ := h2
      subst hq
      rw [if_pos ⟨rfl, hd⟩]
      cases hr : rpartDot sid with
      | none => exact absurd hd ((rpartDot_none sid).mp hr)
      | some ab =>
        obtain ⟨a, b⟩ := ab
        have hgo := rpartGo_dot sid
        rw [hr] at hgo
        rcases hcase with rfl | ⟨rfl, rfl⟩ <;>
        simp (decide := true) only [runItem, exec, eval, bind_ok', lookup_cons_eq, lookup_cons_ne, lookup_setVar_eq,
          lookup_setVar_ne, truthy_bool', if_true, if_false, Bool.false_eq_true, Bool.not_false, hfind, hd, decide_true,
          strRpartition, hgo, Option.map_some, List.isEmpty_cons, List.map_nil, mkS, truthy_ilist, List.isEmpty_nil,
          Bool.not_true, codesOf_append, codesOf_cons, List.append_assoc, List.singleton_append] <;> rfl
    · have hdd : (!isSeq && decide ('.' ∈ sid)) = false := by
        cases isSeq
        · simp only [true_and] at h2; simp [h2]
        · rfl
      rw [if_neg h2]
      rcases hcase with rfl | ⟨rfl, rfl⟩ <;>
      simp (decide := true) only [runItem, exec, eval, bind_ok', lookup_cons_eq, lookup_cons_ne, lookup_setVar_eq,
        lookup_setVar_ne, truthy_bool', if_true, if_false, Bool.false_eq_true, Bool.not_false, hfind, and_bool, hdd,
        List.isEmpty_cons, List.map_nil, mkS, truthy_ilist, List.isEmpty_nil,
        Bool.not_true, codesOf_append]


/-! ### `id` -/

theorem src_seq_id_eq (sc : Bool) (ids : List (List Char)) (tid hs : List Char) (isSeq : Bool) (sid : List Char) :
    runItem (projEnv sc ids tid hs isSeq sid) Gen.src_seq_id "@ret"
      = .ok (.str (codesOf (if sc = true then SeqClient.joinWith ',' ids else tid))) := by
  unfold Gen.src_seq_id projEnv
  cases sc
  · simp (decide := true) only [runItem, exec, eval, bind_ok', lookup_cons_eq, lookup_cons_ne, lookup_setVar_eq,
      lookup_setVar_ne, truthy_bool', if_false, Bool.false_eq_true]
  · cases ids with
    | nil =>
      simp (decide := true) only [runItem, exec, eval, bind_ok', lookup_cons_eq, lookup_cons_ne, lookup_setVar_eq,
        lookup_setVar_ne, truthy_bool', if_true, mkS, List.map_nil]
      rfl
    | cons a r =>
      simp (decide := true) only [runItem, exec, eval, bind_ok', lookup_cons_eq, lookup_cons_ne, lookup_setVar_eq,
        lookup_setVar_ne, truthy_bool', if_true, mkS, List.map_cons]
      rw [← List.map_cons]
      exact congrArg (fun x => Except.ok (Val.str x)) (joinStrs_codesOf ',' (a :: r))

/-! ### the model's inputs -/

open Proxy SeqClient in
/-- `[child.id for child in self.template.children()]`: the visible children's ids -/
def childIds (t : Proxy.Tmpl) : List (List Char) := t.visible.map fun k => Proxy.joinDot (t.path ++ [k])

open Proxy SeqClient in
/-- the environment of a sequence proxy `p` with template `t`; `isSeq` = `isinstance(self.template, SequenceType)` -/
def proxyEnv (t : Proxy.Tmpl) (p : Proxy.SeqProxy) (isSeq : Bool) : Env :=
  projEnv p.subChildren (childIds t) (Proxy.joinDot t.path) (hyperslabText p.slice) isSeq (SeqClient.proxyId t p)

open Proxy SeqClient in
theorem proxyId_eq (t : Proxy.Tmpl) (p : Proxy.SeqProxy) :
    SeqClient.proxyId t p = if p.subChildren = true then SeqClient.joinWith ',' (childIds t) else Proxy.joinDot t.path := by
  unfold SeqClient.proxyId Proxy.seqIds childIds
  cases p.subChildren <;> simp [SeqClient.joinWith]

open Proxy SeqClient in
/-- outside the single-column branch the source's text is the model's `projText` -/
theorem projSpec_model (t : Proxy.Tmpl) (p : Proxy.SeqProxy) (isSeq : Bool)
    (hg : isSeq = true ∨ '.' ∉ SeqClient.proxyId t p ∨ (p.subChildren = true ∧ t.visible ≠ [])) :
    projSpec p.subChildren (childIds t) (Proxy.joinDot t.path) (hyperslabText p.slice) isSeq (SeqClient.proxyId t p)
      = SeqClient.projText t p := by
  unfold projSpec SeqClient.projText
  have hne : childIds t ≠ [] ↔ t.visible ≠ [] := by simp [childIds]
  by_cases h1 : p.subChildren = true ∧ t.visible ≠ []
  · rw [if_pos ⟨h1.1, hne.mpr h1.2⟩, if_pos h1]
    have : Proxy.seqIds t p = childIds t := by simp [Proxy.seqIds, childIds, h1.1]
    rw [this]
    cases childIds t <;> rfl
  · rw [if_neg (fun e => h1 ⟨e.1, hne.mp e.2⟩), if_neg h1]
    have h2 : ¬ (isSeq = false ∧ '.' ∈ SeqClient.proxyId t p) := by
      rintro ⟨ha, hb⟩
      rcases hg with hg | hg | hg
      · rw [ha] at hg; cases hg
      · exact hg hb
      · exact h1 hg
    rw [if_neg h2]

end Pydap
