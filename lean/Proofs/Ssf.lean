/-
  Helper lemmas for the server-side-function model (C19).
-/
import PydapModel.Ssf
import Proofs.Handler
namespace Pydap.Ssf
open Pydap Pydap.Handler

/-! ### `bounds`: a loop of filters is one filter -/

def keepAll (iv : Axis → Int × Int) (cs : List (Option Axis × Nat)) (r : List Int) : Bool :=
  cs.all fun c => match c.1 with
    | none => true
    | some ax => keepRow iv ax c.2 r

theorem boundsLoop_eq_filter (iv : Axis → Int × Int) :
    ∀ (cs : List (Option Axis × Nat)) (rows : List (List Int)),
      boundsLoop iv cs rows = rows.filter (keepAll iv cs)
  | [], rows => by
    have e : keepAll iv [] = fun _ => true := by funext r; simp [keepAll]
    rw [boundsLoop, e]; exact (List.filter_eq_self.mpr (fun _ _ => rfl)).symm
  | (none, i) :: cs, rows => by
    rw [boundsLoop, boundsLoop_eq_filter iv cs rows]
    congr 1
  | (some ax, i) :: cs, rows => by
    rw [boundsLoop, boundsLoop_eq_filter iv cs _, List.filter_filter]
    congr 1
    funext r
    simp [keepAll, Bool.and_comm]

theorem inIv_iff (lo hi v : Int) : inIv lo hi v = true ↔ lo ≤ v ∧ v ≤ hi := by
  unfold inIv
  split
  · simp; omega
  · simp

/-! ### `mean`: lengths -/

theorem sumAxis_length : ∀ (sh : List Nat) (k : Nat) (d : List Int), k < sh.length → d.length = prod sh →
    (sumAxis sh k d).length = prod (sh.eraseIdx k)
  | [], _, _, hk, _ => by simp at hk
  | n :: sh, 0, d, _, _ => by simp [sumAxis]
  | n :: sh, k + 1, d, hk, hd => by
    simp only [sumAxis, List.length_flatMap, List.eraseIdx_cons_succ, prod]
    rw [sum_map_const _ _ (prod (sh.eraseIdx k))]
    · simp
    · intro i hi
      have hin : i < n := by simpa using hi
      apply sumAxis_length sh k _ (by simpa using hk)
      have h1 := Nat.mul_le_mul_right (prod sh) (show i + 1 ≤ n from hin)
      rw [Nat.succ_mul] at h1
      simp only [prod] at hd
      simp only [List.length_take, List.length_drop, hd]
      omega

/-! ### `is_call`: a comparison in front of the first parenthesis -/

theorem functionMatch_name (s n a : Str) (h : functionMatch s = some (n, a)) : n = s.takeWhile (· ≠ '(') := by
  unfold functionMatch at h
  split at h
  · simp at h
  · split at h
    · simp at h
    · simp only [Option.some.injEq, Prod.mk.injEq] at h; exact h.1.symm

theorem takeWhile_lhs (lhs rest : Str) (c : Char) (hc : c ≠ '(') (hl : '(' ∉ lhs) :
    (lhs ++ c :: rest).takeWhile (· ≠ '(') = lhs ++ c :: rest.takeWhile (· ≠ '(') := by
  induction lhs with
  | nil => simp [hc]
  | cons x xs ih =>
    have hx : x ≠ '(' := fun e => hl (by simp [e])
    have hxs : '(' ∉ xs := fun e => hl (by simp [e])
    have := ih hxs
    simp only [List.cons_append, List.takeWhile_cons, hx, ne_eq, not_false_eq_true, decide_true, ite_true]
    rw [← this]

theorem isCallSel_comparison (lhs rest : Str) (c : Char) (hc : c = '<' ∨ c = '>' ∨ c = '=')
    (hl : '(' ∉ lhs) : isCallSel (lhs ++ c :: rest) = false := by
  unfold isCallSel
  cases h : functionMatch (lhs ++ c :: rest) with
  | none => rfl
  | some na =>
    obtain ⟨n, a⟩ := na
    have hn := functionMatch_name _ _ _ h
    have hc' : c ≠ '(' := by rcases hc with h | h | h <;> simp [h]
    rw [takeWhile_lhs lhs rest c hc' hl] at hn
    simp only [hn, relopSearch, Bool.not_eq_false', List.any_append, List.any_cons]
    rcases hc with h | h | h <;> simp [h]

end Pydap.Ssf
