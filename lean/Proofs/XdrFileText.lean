/-
  C01: `open_dods_file` through the response text — the file reader parses the whole printed DDS (final newline
  included, unlike `safe_dds_and_data`), so C07's round trip applies to it as it stands.
-/
import PydapModel.XdrFileText
import Proofs.XdrFile
import Proofs.EndToEndText
namespace Pydap.E2E
open Pydap Pydap.Xdr

theorem encodeAscii_snoc_nl (s0 : Dds.Text) : encodeAscii (s0 ++ ['\n']) = encodeAscii s0 ++ [10] := by
  simp [encodeAscii]

theorem mem_encodeAscii_lt (s : Dds.Text) (h : ∀ c ∈ s, c.toNat < 128) : ∀ b ∈ encodeAscii s, b.toNat < 128 := by
  intro b hb
  unfold encodeAscii at hb
  obtain ⟨c, hc, rfl⟩ := List.mem_map.1 hb
  have := h c hc
  have e : (UInt8.ofNat c.toNat).toNat = c.toNat := by
    simp; omega
  omega

/-- **the saved response text, any dataset**: for every well-formed dataset `d` (C07's domain) whose DDS text is ASCII
    and has no line that strips to `Data:`, and every declaration/value pair `(t, data)` the parsed DDS converts to,
    `open_dods_file` — text loop, DDS parse, declaration conversion, seek, XDR decode — recovers the declared tree and
    exactly the values from the saved body, with nothing left over -/
theorem fileDecode_body (d : Dds.Dataset) (s0 : Dds.Text) (t : Tmpl) (data : Data) (hwf : Dds.WFds d)
    (hp : Dds.printDs d = .ok (s0 ++ ['\n'])) (hascii : ∀ c ∈ s0, c.toNat < 128)
    (hno : ∀ l ∈ textLines (encodeAscii s0 ++ [10]), pyStrip l ≠ [68, 97, 116, 97, 58])
    (ht : tmplOfDataset (Dds.normDs d) = some t) (hd : WF t data = true) :
    fileDecode (body (encodeAscii (s0 ++ ['\n'])) t data) = .ok (Dds.normDs d, data, []) := by
  have h := openDodsFile_body (encodeAscii s0) t data hd (mem_encodeAscii_lt s0 hascii) hno
  unfold openDodsFile at h
  simp only [Prod.mk.injEq] at h
  obtain ⟨h1, h2⟩ := h
  have hasc' : ∀ c ∈ s0 ++ ['\n'], c.toNat < 128 := by
    intro c hc
    rcases List.mem_append.1 hc with hc | hc
    · exact hascii c hc
    · simp at hc; subst hc; decide
  rw [h1] at h2
  unfold fileDecode
  rw [encodeAscii_snoc_nl, h1, ← encodeAscii_snoc_nl, decode_encode _ hasc', Dds.parse_print d _ hp hwf]
  simp only [ht]
  rw [encodeAscii_snoc_nl, h2]

end Pydap.E2E
