/-
  C12 — round 7 (theorem audit): a predicate on names that holds of every name a history constructs a variable with
  holds of every name stored anywhere in the store afterwards (names are never invented: they are moved, copied,
  re-quoted — a fixed point — or dropped).  Instantiated with "contains no `/`" this turns the hypothesis of the
  lookup theorems ("no stored name on the chain contains `/`") into a guard on the inputs of the history.
-/
import Proofs.TreeAudit
namespace Pydap.Tree
open Pydap.Quote

section
variable (P : Str → Bool)

/-- every name stored in the forest, at any depth, hidden children included, satisfies `P` -/
def namesOk : Forest → Bool
  | .nil => true
  | .cons h kids rest => P h.name && namesOk kids && namesOk rest

def namesO (o : Obj) : Bool := P o.hdr.name && namesOk P o.kids

theorem namesOk_contents (f : Forest) : namesOk P f = (contents f).all (fun e => P e.1) := by
  induction f with
  | nil => rfl
  | cons h kids rest ihk ihr => simp [namesOk, contents, entry, ihk, ihr, List.all_append, Bool.and_assoc]

theorem namesO_contents (o : Obj) : namesO P o = (contentsO o).all (fun e => P e.1) := by
  simp [namesO, contentsO, entry, namesOk_contents]

theorem namesO_mk (h : Hdr) (kids : Forest) (a : P h.name = true) (b : namesOk P kids = true) :
    namesO P ⟨h, kids⟩ = true := by simp [namesO, a, b]

theorem namesOk_remove (k : Str) (f : Forest) (h : namesOk P f = true) : namesOk P (f.remove k) = true := by
  induction f with
  | nil => rfl
  | cons h0 kids rest _ ihr =>
    simp only [namesOk, Bool.and_eq_true] at h
    simp only [Forest.remove]
    split
    · exact h.2
    · simp only [namesOk, Bool.and_eq_true]; exact ⟨h.1, ihr h.2⟩

theorem namesOk_put (o : Obj) (f : Forest) (hf : namesOk P f = true) (ho : namesO P o = true) :
    namesOk P (f.put o) = true := by
  simp only [namesO, Bool.and_eq_true] at ho
  induction f with
  | nil => simp [Forest.put, namesOk, ho.1, ho.2]
  | cons h0 kids rest _ ihr =>
    simp only [namesOk, Bool.and_eq_true] at hf
    simp only [Forest.put]
    split
    · simp only [namesOk, Bool.and_eq_true]; exact ⟨⟨ho.1, ho.2⟩, hf.2⟩
    · simp only [namesOk, Bool.and_eq_true]; exact ⟨hf.1, ihr hf.2⟩

theorem namesOk_find (k : Str) (f : Forest) (c : Obj) (hf : namesOk P f = true) (h : f.find? k = some c) :
    namesO P c = true := by
  induction f with
  | nil => cases h
  | cons h0 kids rest _ ihr =>
    simp only [namesOk, Bool.and_eq_true] at hf
    simp only [Forest.find?] at h
    split at h
    · cases h; exact namesO_mk P _ _ hf.1.1 hf.1.2
    · exact ihr hf.2 h

theorem namesOk_update (k : Str) (g : Obj → Except Err Obj) (f f' : Forest)
    (hg : ∀ o r, namesO P o = true → g o = .ok r → namesO P r = true)
    (hf : namesOk P f = true) (h : f.update k g = .ok f') : namesOk P f' = true := by
  induction f generalizing f' with
  | nil => simp [Forest.update] at h
  | cons h0 kids rest _ ihr =>
    simp only [namesOk, Bool.and_eq_true] at hf
    simp only [Forest.update] at h
    split at h
    · cases hg0 : g ⟨h0, kids⟩ with
      | error e => rw [hg0] at h; cases h
      | ok r =>
        rw [hg0] at h; cases h
        have := hg _ r (namesO_mk P _ _ hf.1.1 hf.1.2) hg0
        simp only [namesO, Bool.and_eq_true] at this
        simp only [namesOk, Bool.and_eq_true]; exact ⟨this, hf.2⟩
    · cases hu : Forest.update k g rest with
      | error e => rw [hu] at h; cases h
      | ok r =>
        rw [hu] at h; cases h
        simp only [namesOk, Bool.and_eq_true]; exact ⟨hf.1, ihr r hf.2 hu⟩

theorem namesOk_setIdKids (pk : Kind) (pid : Str) (vis : List Str) (f : Forest) :
    namesOk P (setIdKids pk pid vis f) = namesOk P f := by
  rw [namesOk_contents, namesOk_contents, setIdKids_contents]

theorem delItem_names (o r : Obj) (key : Str) (ho : namesO P o = true) (h : delItem o key = .ok r) :
    namesO P r = true := by
  rw [delItem_eq o r key h]
  simp only [namesO, Bool.and_eq_true] at ho ⊢
  exact ⟨ho.1, namesOk_remove P _ _ ho.2⟩

theorem setId_names (item r : Obj) (nid : Str) (h : setId item nid = .ok r) : namesO P r = namesO P item := by
  rw [setId_eq item r nid h]
  simp only [namesO, namesOk_setIdKids]

theorem insertItem_names (o item r : Obj) (key : Str) (ho : namesO P o = true) (hi : namesO P item = true)
    (h : insertItem o key item = .ok r) : namesO P r = true := by
  obtain ⟨o1, h1, hr⟩ := insertItem_eq o item r key h
  have ho1 : namesO P o1 = true := by
    rcases h1 with h1 | h1
    · rw [h1]; exact ho
    · exact delItem_names P o o1 key ho h1
  rw [hr]
  simp only [namesO, Bool.and_eq_true] at ho1 ⊢
  exact ⟨ho1.1, namesOk_put P _ _ ho1.2 hi⟩

theorem setItem_names (o item r : Obj) (key : Str) (ho : namesO P o = true) (hi : namesO P item = true)
    (h : setItem o key item = .ok r) : namesO P r = true := by
  obtain ⟨_, _, nid, it, h1, h2⟩ := setItem_decomp o item r key h
  exact insertItem_names P o it r _ ho (by rw [setId_names P item it nid h1]; exact hi) h2

theorem modifyAt_names (g : Obj → Except Err Obj)
    (hg : ∀ o r, namesO P o = true → g o = .ok r → namesO P r = true) (path : List Str) :
    ∀ o r, namesO P o = true → modifyAt g path o = .ok r → namesO P r = true := by
  induction path with
  | nil => intro o r ho h; exact hg o r ho h
  | cons k ks ih =>
    intro o r ho h
    simp only [modifyAt] at h
    split at h; · cases h
    split at h; · cases h
    cases hu : o.kids.update (quote k) (modifyAt g ks) with
    | error e => rw [hu] at h; cases h
    | ok kids' =>
      rw [hu] at h; cases h
      simp only [namesO, Bool.and_eq_true] at ho ⊢
      exact ⟨ho.1, namesOk_update P _ _ _ _ ih ho.2 hu⟩

theorem navigate_names (path : List Str) : ∀ o c, namesO P o = true → navigate path o = .ok c → namesO P c = true := by
  induction path with
  | nil => intro o c ho h; simp only [navigate] at h; cases h; exact ho
  | cons k ks ih =>
    intro o c ho h
    simp only [navigate] at h
    split at h; · cases h
    split at h
    · cases h
    · rename_i c1 hf
      simp only [namesO, Bool.and_eq_true] at ho
      exact ih c1 c (namesOk_find P _ _ _ ho.2 hf) h

theorem getItem_names (o c : Obj) (key : Str) (ho : namesO P o = true) (h : getItem o key = .ok c) :
    namesO P c = true := by
  unfold getItem at h
  split at h
  · rename_i c1 hf
    cases h
    simp only [namesO, Bool.and_eq_true] at ho
    exact namesOk_find P _ _ _ ho.2 hf
  · split at h; · cases h
    split at h
    · cases h; exact ho
    · split at h <;> cases h

theorem copyObj_names (next : Nat) (o c : Obj) (n : Nat) (ho : invE o) (h : copyObj next o = .ok (c, n)) :
    namesO P c = namesO P o := by
  rw [namesO_contents, namesO_contents, (copyObj_spec next o c n ho h).2.2.2]

theorem namesOk_strip (f : Forest) : namesOk P (strip f) = namesOk P f := by
  induction f with
  | nil => rfl
  | cons h kids rest ihk ihr => simp [strip, namesOk, stripH, ihk, ihr]

theorem setData_names (o r : Obj) (d : DRef) (h : setData o d = .ok r) : namesO P r = namesO P o := by
  obtain ⟨a, b⟩ := setData_strip o r d h
  have hn : r.hdr.name = o.hdr.name := by
    have := congrArg Hdr.name a
    simpa [stripH] using this
  simp only [namesO, hn]
  rw [← namesOk_strip P r.kids, b, namesOk_strip]

theorem setAttr_names (o : Obj) (k : Str) (v : AVal) : namesO P (setAttr o k v) = namesO P o := rfl

theorem selectInto_names (keys : List Str) : ∀ next shell o r n, invE o → namesO P shell = true →
    namesO P o = true → selectInto next shell o keys = .ok (r, n) → namesO P r = true := by
  induction keys with
  | nil =>
    intro next shell o r n _ hs _ h
    simp only [selectInto] at h; cases h
    exact hs
  | cons k ks ih =>
    intro next shell o r n hoE hs ho h
    simp only [selectInto, bind, Except.bind] at h
    cases hg : getItem o k with
    | error e => rw [hg] at h; cases h
    | ok c =>
      rw [hg] at h; simp only at h
      cases hc : copyObj next c with
      | error e => rw [hc] at h; cases h
      | ok p =>
        obtain ⟨cc, n1⟩ := p
        rw [hc] at h; simp only at h
        cases hset : setItem shell k cc with
        | error e => rw [hset] at h; cases h
        | ok shell' =>
          rw [hset] at h; simp only at h
          have hcc : namesO P cc = true := by
            rw [copyObj_names P next c cc n1 (getItem_invE o c k hoE hg) hc]
            exact getItem_names P o c k ho hg
          exact ih _ _ _ _ _ hoE (setItem_names P shell cc shell' k hs hcc hset) ho h

theorem select_names (next : Nat) (o r : Obj) (keys : List Str) (n : Nat) (hoE : invE o) (ho : namesO P o = true)
    (h : select next o keys = .ok (r, n)) : namesO P r = true := by
  have hq := (invE_name o hoE).1
  have hname : P o.hdr.name = true := by
    simp only [namesO, Bool.and_eq_true] at ho; exact ho.1
  have hshell : ∀ (k : Kind) (a : List (Str × AVal)) (d : DRef), namesO P (mkObj next k o.hdr.name a d) = true := by
    intro k a d
    simp [namesO, mkObj, namesOk, hq, hname]
  unfold select at h
  split at h
  · cases h
  · unfold selectSeq at h
    simp only [bind, Except.bind] at h
    cases hi : selectInto (next + 1) (mkObj next .seq o.hdr.name o.hdr.attrs o.hdr.data) o keys with
    | error e => rw [hi] at h; cases h
    | ok p =>
      obtain ⟨out, n1⟩ := p
      rw [hi] at h; simp only at h
      split at h; · cases h
      cases hd : setData out (.copy (.items o.hdr.data keys)) with
      | error e => rw [hd] at h; cases h
      | ok out' =>
        rw [hd] at h; simp only [pure, Except.pure] at h; cases h
        rw [setData_names P out r _ hd]
        exact selectInto_names P keys _ _ _ _ _ hoE (hshell _ _ _) ho hi
  · unfold selectGrid at h
    simp only [bind, Except.bind] at h
    split at h; · cases h
    split at h; · cases h
    cases hch : children o with
    | error e => rw [hch] at h; cases h
    | ok ds =>
      rw [hch] at h; simp only at h
      split at h
      · cases h
      · rename_i p hi
        obtain ⟨out, n1⟩ := p
        simp only at h
        split at h; · cases h
        simp only [pure, Except.pure] at h; cases h
        exact selectInto_names P keys _ _ _ _ _ hoE (by rw [setAttr_names]; exact hshell _ _ _) ho hi
  · rw [namesO_contents, (selectStruct_shares next o r keys n hoE h).2.1, ← namesO_contents]
    exact ho

/-! ### over the store and over histories -/

def AllNames (s : State) : Prop := ∀ o, some o ∈ s.handles → namesO P o = true

/-- the names a history constructs variables with satisfy `P` after quoting -/
def Op.newOk : Op → Prop
  | .new _ name _ => P (quote name) = true
  | _ => True

theorem get_names (s : State) (h : Nat) (o : Obj) (hs : AllNames P s) (hg : s.get h = .ok o) : namesO P o = true :=
  hs o (List.mem_of_getElem? (get_some s h o hg))

theorem allNames_set (s : State) (h : Nat) (o' : Obj) (n : Nat) (hs : AllNames P s) (ho : namesO P o' = true) :
    AllNames P ⟨s.handles.set h (some o'), n⟩ := by
  intro x hm
  rcases List.mem_or_eq_of_mem_set hm with hm | hm
  · exact hs x hm
  · cases hm; exact ho

theorem allNames_append (s : State) (r : Obj) (n : Nat) (hs : AllNames P s) (ho : namesO P r = true) :
    AllNames P ⟨s.handles ++ [some r], n⟩ := by
  intro x hm
  rcases List.mem_append.1 hm with hm | hm
  · exact hs x hm
  · simp only [List.mem_singleton, Option.some.injEq] at hm
    subst hm; exact ho

theorem stepE_names (s s' : State) (op : Op) (hg : Good s) (hs : AllNames P s) (he : Op.newOk P op)
    (h : stepE s op = .ok s') : AllNames P s' := by
  cases op with
  | new kind name atom =>
    simp only [stepE] at h; cases h
    exact allNames_append P s _ _ hs (by
      have he' : P (quote name) = true := he
      simp [namesO, mkObj, namesOk, he'])
  | set hh path key src =>
    simp only [stepE, bind, Except.bind, pure, Except.pure] at h
    split at h; · cases h
    cases h1 : s.get hh with
    | error e => rw [h1] at h; cases h
    | ok o =>
      rw [h1] at h; simp only at h
      cases h2 : s.get src with
      | error e => rw [h2] at h; cases h
      | ok item =>
        rw [h2] at h; simp only at h
        cases h3 : modifyAt (fun c => setItem c key item) path o with
        | error e => rw [h3] at h; cases h
        | ok o' =>
          rw [h3] at h; cases h
          have ho' := modifyAt_names P _ (fun c r hc hr => setItem_names P c item r key hc (get_names P s src item hs h2) hr)
            path o o' (get_names P s hh o hs h1) h3
          intro x hm
          rcases List.mem_or_eq_of_mem_set hm with hm | hm
          · exact allNames_set P s hh o' s.next hs ho' x hm
          · cases hm
  | del hh path key =>
    simp only [stepE, bind, Except.bind, pure, Except.pure] at h
    cases h1 : s.get hh with
    | error e => rw [h1] at h; cases h
    | ok o =>
      rw [h1] at h; simp only at h
      cases h3 : modifyAt (fun c => delItem c key) path o with
      | error e => rw [h3] at h; cases h
      | ok o' =>
        rw [h3] at h; cases h
        exact allNames_set P s hh o' s.next hs
          (modifyAt_names P _ (fun c r hc hr => delItem_names P c r key hc hr) path o o' (get_names P s hh o hs h1) h3)
  | copy hh path =>
    simp only [stepE, bind, Except.bind, pure, Except.pure] at h
    cases h1 : s.get hh with
    | error e => rw [h1] at h; cases h
    | ok o =>
      rw [h1] at h; simp only at h
      cases h2 : navigate path o with
      | error e => rw [h2] at h; cases h
      | ok c =>
        rw [h2] at h; simp only at h
        cases h3 : copyObj s.next c with
        | error e => rw [h3] at h; cases h
        | ok p =>
          obtain ⟨r, n⟩ := p
          rw [h3] at h; cases h
          have hc := navigate_invE path o c (get_invE s hh o hg h1) h2
          exact allNames_append P s r n hs (by
            rw [copyObj_names P s.next c r n hc h3]
            exact navigate_names P path o c (get_names P s hh o hs h1) h2)
  | select hh path keys =>
    simp only [stepE, bind, Except.bind, pure, Except.pure] at h
    cases h1 : s.get hh with
    | error e => rw [h1] at h; cases h
    | ok o =>
      rw [h1] at h; simp only at h
      cases h2 : navigate path o with
      | error e => rw [h2] at h; cases h
      | ok c =>
        rw [h2] at h; simp only at h
        cases h3 : select s.next c keys with
        | error e => rw [h3] at h; cases h
        | ok p =>
          obtain ⟨r, n⟩ := p
          rw [h3] at h; cases h
          have hc := navigate_invE path o c (get_invE s hh o hg h1) h2
          exact allNames_append P s r n hs
            (select_names P s.next c r keys n hc (navigate_names P path o c (get_names P s hh o hs h1) h2) h3)
  | setData hh path atom =>
    simp only [stepE, bind, Except.bind, pure, Except.pure] at h
    cases h1 : s.get hh with
    | error e => rw [h1] at h; cases h
    | ok o =>
      rw [h1] at h; simp only at h
      cases h3 : modifyAt (fun c => setData c (.atom atom)) path o with
      | error e => rw [h3] at h; cases h
      | ok o' =>
        rw [h3] at h; cases h
        exact allNames_set P s hh o' s.next hs
          (modifyAt_names P _ (fun c r hc hr => by rw [setData_names P c r _ hr]; exact hc) path o o'
            (get_names P s hh o hs h1) h3)
  | setAttr hh path k v =>
    simp only [stepE, bind, Except.bind, pure, Except.pure] at h
    cases h1 : s.get hh with
    | error e => rw [h1] at h; cases h
    | ok o =>
      rw [h1] at h; simp only at h
      cases h3 : modifyAt (fun c => Except.ok (setAttr c k (.nat v))) path o with
      | error e => rw [h3] at h; cases h
      | ok o' =>
        rw [h3] at h; cases h
        exact allNames_set P s hh o' s.next hs
          (modifyAt_names P _ (fun c r hc hr => by
            cases hr; rw [setAttr_names]; exact hc) path o o'
            (get_names P s hh o hs h1) h3)

theorem run_names (ops : List Op) : ∀ s, Good s → AllNames P s → (∀ op ∈ ops, op.ok ∧ Op.newOk P op) →
    AllNames P (run s ops) := by
  induction ops with
  | nil => intro s _ hs _; exact hs
  | cons op t ih =>
    intro s hg hs hall
    have h0 := hall op (by simp)
    simp only [run, List.foldl_cons]
    have hg' : Good (step s op) := step_good s op hg h0.1
    have hs' : AllNames P (step s op) := by
      unfold step
      cases hst : stepE s op with
      | error e => exact hs
      | ok s' => exact stepE_names P s s' op hg hs h0.2 hst
    exact ih _ hg' hs' (fun op ho => hall op (by simp [ho]))

end

/-! ### the instance: names without `/` -/

def noSlash (n : Str) : Bool := !n.contains slash

set_option maxRecDepth 100000 in
theorem encB_noslash : ∀ b : UInt8, b = 47 ∨ (47 : UInt8) ∉ encB b := by
  apply forall_byte
  decide

/-- a name without the byte of `/` is quoted to a name without `/` -/
theorem quote_noSlash (name : Str) (h : ∀ c ∈ name, (47 : UInt8) ∉ c) : noSlash (quote name) = true := by
  have hQ : ∀ bs : Bytes, (47 : UInt8) ∉ bs → slash ∉ chars (Q bs) := by
    intro bs hbs
    induction bs with
    | nil => simp [Q, chars]
    | cons b t ih =>
      simp only [List.mem_cons, not_or] at hbs
      have hq : Q (b :: t) = encB b ++ Q t := by simp [Q]
      rw [hq, chars_append]
      simp only [List.mem_append, not_or]
      refine ⟨?_, ih hbs.2⟩
      rcases encB_noslash b with e | e
      · exact absurd e.symm hbs.1
      · intro hm
        simp only [chars, List.mem_map] at hm
        obtain ⟨x, hx, hxe⟩ := hm
        have : x = 47 := by simpa [slash] using hxe
        subst this; exact e hx
  have key : slash ∉ quote name := by
    rw [quote_eq]
    simp only [List.mem_append, not_or]
    refine ⟨?_, ?_⟩
    · intro hm
      have : slash ∈ name := by
        split at hm
        · exact List.mem_of_mem_take hm
        · cases hm
      exact h _ this (by simp [slash])
    · apply hQ
      simp only [List.mem_flatten, not_exists, not_and]
      intro c hc
      have : c ∈ name := by
        split at hc
        · exact List.mem_of_mem_drop hc
        · exact hc
      exact h c this
  simpa [noSlash] using key

/-- the names on a chain of listed children are stored names -/
theorem Chain.names {P : Str → Bool} {root v : Obj} {ns : List Str} (h : Chain root ns v) (hr : namesO P root = true) :
    (∀ n ∈ ns, P n = true) ∧ namesO P v = true := by
  induction h with
  | @child c h0 =>
    obtain ⟨k, _, hf⟩ := h0
    simp only [namesO, Bool.and_eq_true] at hr
    have hc := namesOk_find P _ _ _ hr.2 hf
    refine ⟨?_, hc⟩
    intro n hn
    simp only [List.mem_singleton] at hn
    subst hn
    simp only [namesO, Bool.and_eq_true] at hc; exact hc.1
  | @step ns p c _ _ h0 ih =>
    obtain ⟨k, _, hf⟩ := h0
    obtain ⟨a, b⟩ := ih
    simp only [namesO, Bool.and_eq_true] at b
    have hc := namesOk_find P _ _ _ b.2 hf
    refine ⟨?_, hc⟩
    intro n hn
    simp only [List.mem_append, List.mem_singleton] at hn
    rcases hn with hn | hn
    · exact a n hn
    · subst hn
      simp only [namesO, Bool.and_eq_true] at hc; exact hc.1

/-- no `new` of the history uses a name with the byte of `/` (the other path separator the property excludes) -/
def Op.slashFree : Op → Bool
  | .new _ name _ => name.all (fun c => !c.contains 47)
  | _ => true

/-- **no stored name contains `/`** after any history in scope whose constructed names contain none -/
theorem run_noSlash (ops : List Op) (hok : ∀ op ∈ ops, op.ok) (hsl : ∀ op ∈ ops, op.slashFree = true) :
    AllNames noSlash (run State.init ops) := by
  refine run_names noSlash ops State.init good_init (fun _ hm => by simp [State.init] at hm) ?_
  intro op ho
  refine ⟨hok op ho, ?_⟩
  have := hsl op ho
  cases op with
  | new k name a =>
    simp only [Op.slashFree, List.all_eq_true, Bool.not_eq_true', List.contains_eq_mem, decide_eq_false_iff_not] at this
    exact quote_noSlash name this
  | _ => trivial

end Pydap.Tree
