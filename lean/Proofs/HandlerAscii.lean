import PydapModel.Handler
import Proofs.Handler
import Proofs.HandlerWF

/-!
  # The ASCII listing factors through the printed cells of the data response

  `asciiData fmt ds` depends on the data of `ds` only through `cellsData fmt ds`: the printed texts of the wire values
  (`dodsValues ds`), in wire order.  The layout (`layData`) sees the *declaration* only (`Decl`: names, shapes, column
  names and — the one piece of framing of the data response — the number of rows of a sequence); it consumes the
  cells from left to right, each exactly once, and nothing is left over.  This holds for every kind of variable.
-/

namespace Pydap.Handler
open Pydap

/-! ### declarations: what the layout may read -/

/-- declaration of an array: its name and shape -/
structure BDecl where
  name : Str
  shape : List Nat
deriving DecidableEq, Repr, Inhabited

inductive MDecl where
  | base (b : BDecl)
  | struct (name : Str) (members : List BDecl)
deriving DecidableEq, Repr, Inhabited

/-- declaration of a variable; `nrows` of a sequence is the number of START markers of the data response -/
inductive Decl where
  | base (b : BDecl)
  | struct (name : Str) (members : List MDecl)
  | grid (name : Str) (array : BDecl) (maps : List BDecl)
  | seq (name : Str) (cols : List Str) (nrows : Nat)
deriving Repr, Inhabited

def Base.decl (b : Base) : BDecl := ⟨b.name, b.shape⟩

def Member.decl : Member → MDecl
  | .base b => .base b.decl
  | .struct n bs => .struct n (bs.map Base.decl)

def declOf : Var → Decl
  | .base b => .base b.decl
  | .struct n ms => .struct n (ms.map Member.decl)
  | .grid n a ms => .grid n a.decl (ms.map Base.decl)
  | .seq n cols rows => .seq n (cols.map Prod.fst) rows.length

/-! ### the printed cells, in wire order -/

def cellsBase (fmt : Int → Str) (b : Base) : List Str := b.data.map (encode fmt b.srep)

def cellsMember (fmt : Int → Str) : Member → List Str
  | .base b => cellsBase fmt b
  | .struct _ bs => bs.flatMap (cellsBase fmt)

def cellsVar (fmt : Int → Str) : Var → List Str
  | .base b => cellsBase fmt b
  | .struct _ ms => ms.flatMap (cellsMember fmt)
  | .grid _ a ms => cellsBase fmt a ++ ms.flatMap (cellsBase fmt)
  | .seq _ _ rows => rows.flatMap fun r => r.map (fmtVal fmt)

def cellsData (fmt : Int → Str) (ds : Dataset) : List Str := ds.vars.flatMap (cellsVar fmt)

/-! ### the layout: a declaration and a stream of cell texts -/

/-- lay out one array: consumes `prod shape` cells, returns the text and the cells left -/
def layBase (id : Str) (shape : List Nat) (cells : List Str) : Str × List Str :=
  match shape with
  | [] => (id ++ ['\n'] ++ cells.headD [], cells.drop 1)
  | sh =>
    (id ++ ['\n'] ++
      (List.zip (ndindex sh) (cells.take (prod sh))).flatMap (fun p => idxText p.1 ++ [' '] ++ p.2 ++ ['\n']),
     cells.drop (prod sh))

/-- lay out a list of parts one after the other, each followed by a newline, threading the cells -/
def layList {δ : Type} (lay : δ → List Str → Str × List Str) : List δ → List Str → Str × List Str
  | [], cells => ([], cells)
  | d :: ds, cells =>
    ((lay d cells).1 ++ ['\n'] ++ (layList lay ds (lay d cells).2).1, (layList lay ds (lay d cells).2).2)

def layBases (parent : Str) : List BDecl → List Str → Str × List Str :=
  layList fun b => layBase (parent ++ ['.'] ++ b.name) b.shape

def layMember (parent : Str) : MDecl → List Str → Str × List Str
  | .base b => layBase (parent ++ ['.'] ++ b.name) b.shape
  | .struct n bs => layBases (parent ++ ['.'] ++ n) bs

/-- `n` lines of `k` cells each -/
def layRows (k : Nat) : Nat → List Str → Str × List Str
  | 0, cells => ([], cells)
  | n + 1, cells =>
    (joinWith (cs!", ") (cells.take k) ++ ['\n'] ++ (layRows k n (cells.drop k)).1, (layRows k n (cells.drop k)).2)

def layVar : Decl → List Str → Str × List Str
  | .base b => layBase b.name b.shape
  | .struct n ms => layList (layMember n) ms
  | .grid n a ms => layBases n (a :: ms)
  | .seq n cols nrows => fun cells =>
    (joinWith (cs!", ") (cols.map fun c => n ++ ['.'] ++ c) ++ ['\n'] ++ (layRows cols.length nrows cells).1,
     (layRows cols.length nrows cells).2)

def layData : List Decl → List Str → Str × List Str := layList layVar

/-! ### the cells are the printed wire values -/

theorem fmtVal_eq_encode (fmt : Int → Str) (x : Val) : fmtVal fmt x = encode fmt .str x := by
  cases x <;> rfl

/-- `c` is a print of `x` (the representation only matters for strings) -/
def PrintOf (fmt : Int → Str) (c : Str) (x : Val) : Prop := ∃ r, c = encode fmt r x

theorem forall₂_append {α β : Type} {R : α → β → Prop} {a₁ a₂ : List α} {b₁ b₂ : List β}
    (h₁ : List.Forall₂ R a₁ b₁) (h₂ : List.Forall₂ R a₂ b₂) : List.Forall₂ R (a₁ ++ a₂) (b₁ ++ b₂) := by
  induction h₁ with
  | nil => exact h₂
  | cons h _ ih => exact .cons h ih

theorem forall₂_flatMap {α β γ : Type} {R : α → β → Prop} (f : γ → List α) (g : γ → List β) :
    ∀ l : List γ, (∀ x ∈ l, List.Forall₂ R (f x) (g x)) → List.Forall₂ R (l.flatMap f) (l.flatMap g)
  | [], _ => .nil
  | x :: xs, h => by
    simp only [List.flatMap_cons]
    exact forall₂_append (h x (by simp)) (forall₂_flatMap f g xs fun y hy => h y (by simp [hy]))

theorem forall₂_map_left {α β : Type} {R : α → β → Prop} (f : β → α) (h : ∀ x, R (f x) x) :
    ∀ l : List β, List.Forall₂ R (l.map f) l
  | [] => .nil
  | x :: xs => .cons (h x) (forall₂_map_left f h xs)

theorem forall₂_length {α β : Type} {R : α → β → Prop} {a : List α} {b : List β}
    (h : List.Forall₂ R a b) : a.length = b.length := by
  induction h with
  | nil => rfl
  | cons _ _ ih => simp [ih]

theorem cellsBase_print (fmt : Int → Str) (b : Base) : List.Forall₂ (PrintOf fmt) (cellsBase fmt b) b.data :=
  forall₂_map_left _ (fun _ => ⟨b.srep, rfl⟩) _

theorem cellsMember_print (fmt : Int → Str) (m : Member) :
    List.Forall₂ (PrintOf fmt) (cellsMember fmt m) (memberValues m) := by
  cases m with
  | base b => exact cellsBase_print fmt b
  | struct n bs => exact forall₂_flatMap _ _ bs fun b _ => cellsBase_print fmt b

/-- every cell is the print of the wire value at the same position: none dropped, none added, none reordered -/
theorem cellsVar_print (fmt : Int → Str) (v : Var) :
    List.Forall₂ (PrintOf fmt) (cellsVar fmt v) (wireValues v) := by
  cases v with
  | base b => exact cellsBase_print fmt b
  | struct n ms => exact forall₂_flatMap _ _ ms fun m _ => cellsMember_print fmt m
  | grid n a ms =>
    exact forall₂_append (cellsBase_print fmt a) (forall₂_flatMap _ _ ms fun b _ => cellsBase_print fmt b)
  | seq n cols rows =>
    exact forall₂_flatMap _ _ rows fun r _ =>
      forall₂_map_left _ (fun x => ⟨.str, fmtVal_eq_encode fmt x⟩) r

theorem cellsData_print (fmt : Int → Str) (ds : Dataset) :
    List.Forall₂ (PrintOf fmt) (cellsData fmt ds) (dodsValues ds) :=
  forall₂_flatMap _ _ ds.vars fun v _ => cellsVar_print fmt v

theorem cellsVar_length (fmt : Int → Str) (v : Var) : (cellsVar fmt v).length = (wireValues v).length :=
  forall₂_length (cellsVar_print fmt v)

theorem cellsData_length (fmt : Int → Str) (ds : Dataset) : (cellsData fmt ds).length = (dodsValues ds).length :=
  forall₂_length (cellsData_print fmt ds)

theorem cellsVar_base (fmt : Int → Str) (b : Base) :
    cellsVar fmt (.base b) = (wireValues (.base b)).map (encode fmt b.srep) := rfl

theorem cellsVar_seq (fmt : Int → Str) (n : Str) (cols : List (Str × Str)) (rows : List (List Val)) :
    cellsVar fmt (.seq n cols rows) = (wireValues (.seq n cols rows)).map (fmtVal fmt) := by
  simp [cellsVar, wireValues, List.flatMap_def]

/-! ### the factorisation -/

/-- an array: the printer is the layout of its declaration applied to its cells; the cells of what follows are left -/
theorem layBase_spec (fmt : Int → Str) (id : Str) (b : Base) (h : b.WF) (rest : List Str) :
    asciiBase fmt id b = .ok (layBase id b.shape (cellsBase fmt b ++ rest)).1 ∧
    (layBase id b.shape (cellsBase fmt b ++ rest)).2 = rest := by
  unfold asciiBase layBase
  cases hs : b.shape with
  | nil =>
    obtain ⟨v, hv⟩ := prod_nil_data h hs
    simp [hv, cellsBase]
  | cons n sh =>
    have hl : (cellsBase fmt b).length = prod (n :: sh) := by rw [← hs, ← h.1]; simp [cellsBase]
    simp only [h.2.1, List.take_left' hl, List.drop_left' hl, and_true]
    simp [cellsBase, asciiLines, List.zip_map_right, List.flatMap_map]

/-- parts in a row: if every part factors, so does the list -/
theorem layList_spec {α δ : Type} (f : α → Except Exc Str) (d : α → δ) (c : α → List Str)
    (lay : δ → List Str → Str × List Str) :
    ∀ (l : List α),
      (∀ x ∈ l, ∀ rest, f x = .ok (lay (d x) (c x ++ rest)).1 ∧ (lay (d x) (c x ++ rest)).2 = rest) →
      ∀ rest,
        (do let parts ← l.mapM f; pure (parts.flatMap (· ++ ['\n'])) : Except Exc Str)
          = .ok (layList lay (l.map d) (l.flatMap c ++ rest)).1 ∧
        (layList lay (l.map d) (l.flatMap c ++ rest)).2 = rest
  | [], _, rest => by simp [layList, pure, Except.pure, bind, Except.bind]
  | x :: xs, h, rest => by
    have hx := h x (by simp) (xs.flatMap c ++ rest)
    have ih := layList_spec f d c lay xs (fun y hy => h y (by simp [hy])) rest
    have ih1 := ih.1
    simp only [bind, Except.bind, pure, Except.pure] at ih1
    simp only [List.map_cons, List.flatMap_cons, List.append_assoc, layList, hx.2, ih.2, and_true]
    simp only [List.mapM_cons, bind, Except.bind, pure, Except.pure, hx.1]
    split at ih1
    · cases ih1
    · rename_i ys hys
      simp only [Except.ok.injEq] at ih1
      simp [ih1]

theorem layBases_spec (fmt : Int → Str) (p : Str) (bs : List Base) (h : ∀ b ∈ bs, b.WF) (rest : List Str) :
    asciiMembers fmt p bs = .ok (layBases p (bs.map Base.decl) (bs.flatMap (cellsBase fmt) ++ rest)).1 ∧
    (layBases p (bs.map Base.decl) (bs.flatMap (cellsBase fmt) ++ rest)).2 = rest :=
  layList_spec (fun m => asciiBase fmt (p ++ ['.'] ++ m.name) m) Base.decl (cellsBase fmt)
    (fun b => layBase (p ++ ['.'] ++ b.name) b.shape) bs
    (fun b hb rest => layBase_spec fmt _ b (h b hb) rest) rest

theorem layMember_spec (fmt : Int → Str) (p : Str) (m : Member) (h : m.WF) (rest : List Str) :
    asciiMember fmt p m = .ok (layMember p m.decl (cellsMember fmt m ++ rest)).1 ∧
    (layMember p m.decl (cellsMember fmt m ++ rest)).2 = rest := by
  cases m with
  | base b => exact layBase_spec fmt _ b h rest
  | struct n bs => exact layBases_spec fmt _ bs h rest

theorem layRows_spec (fmt : Int → Str) (k : Nat) :
    ∀ (rows : List (List Val)), (∀ r ∈ rows, r.length = k) → ∀ rest : List Str,
      layRows k rows.length ((rows.flatMap fun r => r.map (fmtVal fmt)) ++ rest)
        = (rows.flatMap (fun r => joinWith (cs!", ") (r.map (fmtVal fmt)) ++ ['\n']), rest)
  | [], _, rest => rfl
  | r :: rs, h, rest => by
    have hl : (r.map (fmtVal fmt)).length = k := by simp [h r (by simp)]
    have ih := layRows_spec fmt k rs (fun y hy => h y (by simp [hy])) rest
    simp only [List.flatMap_cons, List.length_cons, layRows, List.append_assoc,
      List.take_left' hl, List.drop_left' hl, ih]

/-- **one variable, of any kind**: the ASCII listing of a well-formed variable is the layout of its declaration
    applied to the printed wire values; the layout consumes exactly the cells of the variable -/
theorem layVar_spec (fmt : Int → Str) (v : Var) (h : v.WF) (rest : List Str) :
    asciiVar fmt v = .ok (layVar (declOf v) (cellsVar fmt v ++ rest)).1 ∧
    (layVar (declOf v) (cellsVar fmt v ++ rest)).2 = rest := by
  cases v with
  | base b => exact layBase_spec fmt _ b h rest
  | struct n ms =>
    exact layList_spec (asciiMember fmt n) Member.decl (cellsMember fmt) (layMember n) ms
      (fun m hm rest => layMember_spec fmt n m (h m hm) rest) rest
  | grid n a ms =>
    have := layBases_spec fmt n (a :: ms) (by
      intro m hm; simp at hm; rcases hm with rfl | hm
      · exact h.1
      · exact h.2 m hm) rest
    simpa [asciiVar, declOf, layVar, cellsVar] using this
  | seq n cols rows =>
    have hr := layRows_spec fmt cols.length rows h rest
    simp only [declOf, layVar, cellsVar, List.length_map, hr, asciiVar, List.map_map, and_true]
    rfl

theorem asciiVar_factors (fmt : Int → Str) (v : Var) (h : v.WF) :
    asciiVar fmt v = .ok (layVar (declOf v) (cellsVar fmt v)).1 ∧
    (layVar (declOf v) (cellsVar fmt v)).2 = [] := by
  simpa using layVar_spec fmt v h []

/-- **the whole dataset** -/
theorem asciiData_factors (fmt : Int → Str) (ds : Dataset) (h : ds.WF) :
    asciiData fmt ds = .ok (layData (ds.vars.map declOf) (cellsData fmt ds)).1 ∧
    (layData (ds.vars.map declOf) (cellsData fmt ds)).2 = [] := by
  simpa [cellsData, asciiData, layData] using
    layList_spec (asciiVar fmt) declOf (cellsVar fmt) layVar ds.vars
      (fun v hv rest => layVar_spec fmt v (h v hv) rest) []

/-- consequence: two well-formed datasets with the same declaration whose data responses print alike
    have the same ASCII listing — the listing reads the data through the cells only -/
theorem asciiData_congr (fmt : Int → Str) (ds ds' : Dataset) (h : ds.WF) (h' : ds'.WF)
    (hd : ds.vars.map declOf = ds'.vars.map declOf) (hc : cellsData fmt ds = cellsData fmt ds') :
    asciiData fmt ds = asciiData fmt ds' := by
  rw [(asciiData_factors fmt ds h).1, (asciiData_factors fmt ds' h').1, hd, hc]

/-! ### sanity checks (non-vacuity) -/

instance : (m : Member) → Decidable m.WF
  | .base b => inferInstanceAs (Decidable b.WF)
  | .struct _ bs => inferInstanceAs (Decidable (∀ b ∈ bs, b.WF))

instance : (v : Var) → Decidable v.WF
  | .base b => inferInstanceAs (Decidable b.WF)
  | .struct _ ms => inferInstanceAs (Decidable (∀ m ∈ ms, m.WF))
  | .grid _ a ms => inferInstanceAs (Decidable (a.WF ∧ ∀ m ∈ ms, m.WF))
  | .seq _ cols rows => inferInstanceAs (Decidable (∀ r ∈ rows, r.length = cols.length))

instance (ds : Dataset) : Decidable ds.WF := inferInstanceAs (Decidable (∀ v ∈ ds.vars, v.WF))

section Examples

private def exScalar : Var := .base { name := cs!"s", ty := cs!"Int32", shape := [], dims := [], data := [7] }
private def exArr : Var :=
  .base { name := cs!"a", ty := cs!"Int32", shape := [2, 2], dims := [], data := [1, 2, 3, 4] }
private def exSeq : Var :=
  .seq cs!"q" [(cs!"x", cs!"Int32"), (cs!"t", cs!"String")] [[.int 1, .str cs!"u"], [.int 2, .str cs!"v"]]
private def exStruct : Var :=
  .struct cs!"S" [.base { name := cs!"b", ty := cs!"Int32", shape := [], dims := [], data := [5] },
                  .struct cs!"T" [{ name := cs!"c", ty := cs!"Int32", shape := [2], dims := [], data := [8, 9] }]]
private def exGrid : Var :=
  .grid cs!"G" { name := cs!"g", ty := cs!"Int32", shape := [2], dims := [cs!"x"], data := [3, 4] }
    [{ name := cs!"x", ty := cs!"Int32", shape := [2], dims := [cs!"x"], data := [0, 1] }]
private def exDs : Dataset := ⟨cs!"d", [exScalar, exArr, exSeq, exStruct, exGrid]⟩

example : exDs.WF := by decide +kernel

/-- the layout is fed texts: it cannot tell where they came from -/
example : (layVar (declOf exScalar) [cs!"7"]).1 = cs!"s\n7" := by decide +kernel
example : (layVar (declOf exArr) [cs!"1", cs!"2", cs!"3", cs!"4"]).1
    = cs!"a\n[0][0] 1\n[0][1] 2\n[1][0] 3\n[1][1] 4\n" := by decide +kernel
example : (layVar (declOf exSeq) [cs!"1", cs!"\"u\"", cs!"2", cs!"\"v\""])
    = (cs!"q.x, q.t\n1, \"u\"\n2, \"v\"\n", []) := by decide +kernel
example : (layVar (declOf exStruct) [cs!"5", cs!"8", cs!"9", cs!"next"])
    = (cs!"S.b\n5\nS.T.c\n[0] 8\n[1] 9\n\n\n", [cs!"next"]) := by decide +kernel
example : (layVar (declOf exGrid) [cs!"3", cs!"4", cs!"0", cs!"1"])
    = (cs!"G.g\n[0] 3\n[1] 4\n\nG.x\n[0] 0\n[1] 1\n\n", []) := by decide +kernel
example : cellsData intText exDs
    = [cs!"7", cs!"1", cs!"2", cs!"3", cs!"4", cs!"1", cs!"\"u\"", cs!"2", cs!"\"v\"", cs!"5", cs!"8", cs!"9",
       cs!"3", cs!"4", cs!"0", cs!"1"] := by decide +kernel
example : (dodsValues exDs).length = 16 := by decide +kernel
example : asciiData intText exDs = .ok (layData (exDs.vars.map declOf) (cellsData intText exDs)).1 := by decide +kernel
example : asciiData intText exDs = .ok (cs!"s\n7\na\n[0][0] 1\n[0][1] 2\n[1][0] 3\n[1][1] 4\n\n" ++
    cs!"q.x, q.t\n1, \"u\"\n2, \"v\"\n\nS.b\n5\nS.T.c\n[0] 8\n[1] 9\n\n\n\nG.g\n[0] 3\n[1] 4\n\nG.x\n[0] 0\n[1] 1\n\n\n") := by
  decide +kernel
/-- a cell short: the text changes and is visibly short (the layout does not invent values) -/
example : (layVar (declOf exArr) [cs!"1", cs!"2", cs!"3"]).1 = cs!"a\n[0][0] 1\n[0][1] 2\n[1][0] 3\n" := by decide +kernel

end Examples

end Pydap.Handler
