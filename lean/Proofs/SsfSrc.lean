/-
  The source text of the pass-through test of wsgi/ssf.py `ServerSideFunctions.handle` (the `if` statement after the first
  `path, response = req.path.rsplit(".", 1)`), translated on every run by harness/py2lean.py into MiniPy syntax
  (PydapModel/Generated/SsfSrc.lean), takes the decision of the model `Ssf.route` (C19): DAS requests and requests
  without calls are handed to the wrapped application.  `called` and `response` are inputs.
-/
import Proofs.MiniPy
import PydapModel.Ssf
import PydapModel.Generated.SsfSrc
set_option linter.unusedSimpArgs false
namespace Pydap
open MiniPy Ssf Handler

/-- `self.app(environ, start_response)` -/
def passTag : List Nat := [115, 101, 108, 102, 46, 97, 112, 112, 40, 101, 110, 118, 105, 114, 111, 110, 44, 32, 115, 116,
  97, 114, 116, 95, 114, 101, 115, 112, 111, 110, 115, 101, 41]

theorem das_codes : codesOf cs!"das" = [100, 97, 115] := by decide

/-- the statement returns `self.app(environ, start_response)` exactly when the response is `das` or nothing is
    called; otherwise it falls through (no `@ret`) -/
theorem src_ssf_pass_test_eq (resp : Str) (called : Bool) :
    runItem [("response", .str (codesOf resp)), ("called", .bool called)] Gen.src_ssf_pass_test "@ret"
      = (if resp = cs!"das" ∨ called = false then .ok (.str passTag) else .error .nameError) := by
  unfold Gen.src_ssf_pass_test
  have hd : decide (codesOf resp = [100, 97, 115]) = decide (resp = cs!"das") := by
    rw [← das_codes]; exact decide_eq_decide.mpr codesOf_inj
  have hd' : decide ([100, 97, 115] = codesOf resp) = decide (resp = cs!"das") := by
    rw [← hd]; exact decide_eq_decide.mpr eq_comm
  simp (decide := true) only [runItem, exec, eval, bind_ok', lookup_cons_eq, lookup_cons_ne, truthy_bool, hd, hd']
  have hnil : lookup [] "@ret" = .error .nameError := rfl
  by_cases h1 : resp = cs!"das" <;> cases called <;>
    simp (decide := true) only [h1, exec, bind_ok', lookup_setVar_eq, lookup_cons_ne, hnil, passTag, if_true, if_false,
      decide_true, decide_false, Bool.or_true, Bool.or_false, Bool.true_or, Bool.false_or, Bool.not_true, Bool.not_false,
      Bool.false_eq_true, or_true, or_false, true_or, false_or, reduceCtorEq]

/-- … which is the model's `route … = .pass` -/
theorem route_pass_iff (path query pre resp : Str) (proj : List ProjItem) (sel : List Str)
    (hq : parseCE query = .ok (proj, sel)) (hp : rsplitDot path = some (pre, resp)) :
    route path query = .pass ↔ (resp = cs!"das" ∨ hasCall proj sel = false) := by
  simp only [route, hq, hp]
  by_cases h : resp = cs!"das" ∨ hasCall proj sel = false <;> simp [h]

end Pydap
