/-
  The source text of the pass-through test of wsgi/ssf.py `ServerSideFunctions.handle` (the `if` statement after the first
  `path, response = req.path.rsplit(".", 1)`), translated on every run by harness/py2lean.py into MiniPy syntax
  (PydapModel/Generated/SsfSrc.lean), takes the decision of the model `Ssf.route` (C19): DAS requests and requests
  without calls are handed to the wrapped application.  `called` and `response` are inputs.
-/
import Proofs.MiniPy
import PydapModel.Ssf
import PydapModel.Generated.SsfSrc
set_option linter.unusedSimpArgs false
namespace Pydap
open MiniPy Ssf Handler

/-- `self.app(environ, start_response)` -/
def passTag : List Nat := [115, 101, 108, 102, 46, 97, 112, 112, 40, 101, 110, 118, 105, 114, 111, 110, 44, 32, 115, 116,
  97, 114, 116, 95, 114, 101, 115, 112, 111, 110, 115, 101, 41]

theorem das_codes : codesOf cs!"das" = [100, 97, 115] := by decide

/-- the statement returns `self.app(environ, start_response)` exactly when the response is `das` or nothing is
    called; otherwise it falls through (no `@ret`) -/
theorem src_ssf_pass_test_eq (resp : Str) (called : Bool) :
    runItem [("response", .str (codesOf resp)), ("called", .bool called)] Gen.src_ssf_pass_test "@ret"
      = (if resp = cs!"das" ∨ called = false then .ok (.str passTag) else .error .nameError) := by
  unfold Gen.src_ssf_pass_test
  have hd : decide (codesOf resp = [100, 97, 115]) = decide (resp = cs!"das") := by
    rw [← das_codes]; exact decide_eq_decide.mpr codesOf_inj
  have hd' : decide ([100, 97, 115] = codesOf resp) = decide (resp = cs!"das") := by
    rw [← hd]; exact decide_eq_decide.mpr eq_comm
  simp (decide := true) only [runItem, exec, eval, bind_ok', lookup_cons_eq, lookup_cons_ne, truthy_bool, hd, hd']
  have hnil : lookup [] "@ret" = .error .nameError := rfl
  by_cases h1 : resp = cs!"das" <;> cases called <;>
    simp (decide := true) only [h1, exec, bind_ok', lookup_setVar_eq, lookup_cons_ne, hnil, passTag, if_true, if_false,
      decide_true, decide_false, Bool.or_true, Bool.or_false, Bool.true_or, Bool.false_or, Bool.not_true, Bool.not_false,
      Bool.false_eq_true, or_true, or_false, true_or, false_or, reduceCtorEq]

/-- … which is the model's `route … = .pass` -/
theorem route_pass_iff (path query pre resp : Str) (proj : List ProjItem) (sel : List Str)
    (hq : parseCE query = .ok (proj, sel)) (hp : rsplitDot path = some (pre, resp)) :
    route path query = .pass ↔ (resp = cs!"das" ∨ hasCall proj sel = false) := by
  simp only [route, hq, hp]
  by_cases h : resp = cs!"das" ∨ hasCall proj sel = false <;> simp [h]

/-! ### `is_call`

  The two regexp calls of `is_call` are opaque inputs of the block: `@function_match` stands for
  `FUNCTION.match(selection)` and is bound to the model's `functionMatch` (None, or a match object given by its
  groups 0, 1, 2); `@relop_search` stands for `RELOP.search(match.group(1))` and is bound to the model's `relopSearch`
  of group 1 (None, or some match object).  That the argument the source passes to `RELOP.search` is group 1 — the
  name before the first parenthesis — is `src_is_call_relop_arg_eq`.  When `FUNCTION` does not match, the source does
  not evaluate the second call (`and` short-circuits): `@relop_search` is then arbitrary. -/

/-- `FUNCTION.match(s)` as MiniPy sees it -/
def fmatchVal (s : Str) : MiniPy.Val :=
  match functionMatch s with
  | some (name, args) => .matchObj [codesOf (name ++ '(' :: args ++ [')']), codesOf name, codesOf args]
  | none => .none

/-- `RELOP.search(text)` as MiniPy sees it: None, or a match object (whose groups `g` the block never reads) -/
def rsearchVal (g : List (List Nat)) (text : Str) : MiniPy.Val :=
  if relopSearch text then .matchObj g else .none

/-- what `@relop_search` is bound to for the selection `s` -/
def rsearchOf (g : List (List Nat)) (junk : MiniPy.Val) (s : Str) : MiniPy.Val :=
  match functionMatch s with
  | some (name, _) => rsearchVal g name
  | none => junk

/-- the argument of `RELOP.search` in the source is group 1 of the FUNCTION match: the model's `name` -/
theorem src_is_call_relop_arg_eq (s name args : Str) (h : functionMatch s = some (name, args)) :
    runItem [("selection", .str (codesOf s)), ("@function_match", fmatchVal s)] Gen.src_is_call_relop_arg "@arg"
      = .ok (.str (codesOf name)) := by
  unfold Gen.src_is_call_relop_arg fmatchVal
  rw [h]
  simp (decide := true) only [runItem, exec, eval, bind_ok', lookup_cons_eq, lookup_cons_ne, lookup_setVar_eq,
    lookup_setVar_ne, List.getElem?_cons_succ, List.getElem?_cons_zero]

/-- … and without a FUNCTION match the source cannot reach it: `None.group` raises -/
theorem src_is_call_relop_arg_none (s : Str) (h : functionMatch s = none) :
    runItem [("selection", .str (codesOf s)), ("@function_match", fmatchVal s)] Gen.src_is_call_relop_arg "@arg"
      = .error (.raised "AttributeError") := by
  unfold Gen.src_is_call_relop_arg fmatchVal
  rw [h]
  simp (decide := true) only [runItem, exec, eval, bind_ok', bind_error', lookup_cons_eq, lookup_cons_ne,
    lookup_setVar_eq, lookup_setVar_ne]

theorem truthy_matchObj (g : List (List Nat)) : truthy (.matchObj g) = true := rfl

/-- the whole body returns the model's `isCallSel` -/
theorem src_is_call_eq (s : Str) (g : List (List Nat)) (junk : MiniPy.Val) :
    runItem [("selection", .str (codesOf s)), ("@function_match", fmatchVal s), ("@relop_search", rsearchOf g junk s)]
        Gen.src_is_call "@ret"
      = .ok (.bool (isCallSel s)) := by
  unfold Gen.src_is_call fmatchVal rsearchOf isCallSel rsearchVal
  cases h : functionMatch s with
  | none =>
    simp (decide := true) only [runItem, exec, eval, bind_ok', lookup_cons_eq, lookup_cons_ne, lookup_setVar_eq,
      lookup_setVar_ne, truthy_none, truthy_bool', if_false, Bool.false_eq_true]
  | some na =>
    obtain ⟨name, args⟩ := na
    cases hr : relopSearch name <;>
      simp (decide := true) only [runItem, exec, eval, bind_ok', lookup_cons_eq, lookup_cons_ne, lookup_setVar_eq,
        lookup_setVar_ne, hr, truthy_none, truthy_bool', truthy_matchObj, if_true, if_false, Bool.false_eq_true,
        Bool.not_true, Bool.not_false]

end Pydap
