/-
  Lemmas for `C11_parse`: the DMR parser model on the independently rendered element tree of an abstract spec
  (`PydapModel/DmrSpec.lean`), by induction over the spec tree.
-/
import PydapModel.DmrSpec
import Proofs.DmrQuote
import Proofs.Dmr
namespace Pydap.Dmr

theorem pathStr_append (p : List Str) (n : Str) : pathStr (p ++ [n]) = pathStr p ++ '/' :: n := by
  induction p with
  | nil => simp [pathStr]
  | cons a p ih => simp [pathStr, ih]

theorem gvl_nil_of (l : List XNode) (ptag pfx : Str)
    (h : ∀ n ∈ l, n.tag ∉ varTags ∧ ∀ p, getVariables n p = []) : getVariablesList l ptag pfx = [] := by
  induction l with
  | nil => simp [getVariablesList]
  | cons n ns ih =>
    have hn := h n (by simp)
    simp only [getVariablesList]
    rw [if_neg hn.1, hn.2, ih (fun x hx => h x (by simp [hx]))]
    rfl

theorem gv_leaf (tag : Str) (attrs : List (Str × Str)) (t : Option Str) (p : Str) :
    getVariables (.mk tag attrs t []) p = [] := by
  simp only [getVariables]
  cases attrs.lookup "name".toList <;> simp [getVariablesList]

theorem gv_of_children (tag : Str) (attrs : List (Str × Str)) (t : Option Str) (kids : List XNode) (p : Str)
    (h : ∀ n ∈ kids, n.tag ∉ varTags ∧ ∀ p, getVariables n p = []) :
    getVariables (.mk tag attrs t kids) p = [] := by
  simp only [getVariables]
  cases attrs.lookup "name".toList with
  | none => rfl
  | some g => simp only []; exact gvl_nil_of _ _ _ h

theorem value_tag : "Value".toList ∉ varTags := by decide
theorem dim_tag : "Dim".toList ∉ varTags := by decide
theorem map_tag : "Map".toList ∉ varTags := by decide
theorem attribute_tag : "Attribute".toList ∉ varTags := by decide
theorem dimension_tag : "Dimension".toList ∉ varTags := by decide
theorem group_tag : "Group".toList ∉ varTags := by decide

theorem gv_attr (a : SAttr) (p : Str) : getVariables (renderAttr a) p = [] := by
  unfold renderAttr
  apply gv_of_children
  intro n hn
  obtain ⟨v, _, rfl⟩ := List.mem_map.mp hn
  rcases v with ⟨b, v⟩
  cases b <;> exact ⟨value_tag, fun p => gv_leaf _ _ _ p⟩

theorem gv_var (v : SVar) (p : Str) : getVariables (renderVar v) p = [] := by
  unfold renderVar
  apply gv_of_children
  intro n hn
  simp only [List.mem_append, List.mem_map] at hn
  rcases hn with ⟨d, _, rfl⟩ | ⟨a, _, rfl⟩ | ⟨m, _, rfl⟩
  · cases d <;> exact ⟨dim_tag, fun p => gv_leaf _ _ _ p⟩
  · exact ⟨attribute_tag, fun p => gv_attr a p⟩
  · exact ⟨map_tag, fun p => gv_leaf _ _ _ p⟩


def parentTag (p : List Str) : Str := if p = [] then "Dataset".toList else "Group".toList

def entryOf (pv : List Str × SVar) : Str × VarEntry :=
  (keyOf pv.1 pv.2.name, ⟨renderVar pv.2, parentTag pv.1⟩)

theorem pathStr_eq_nil (p : List Str) : pathStr p = [] ↔ p = [] := by
  cases p <;> simp [pathStr]

theorem gvl_cons (n : XNode) (ns : List XNode) (ptag pfx : Str) :
    getVariablesList (n :: ns) ptag pfx =
      (if n.tag ∈ varTags then
         [((if pfx ≠ [] then pfx ++ '/' :: (n.get "name".toList).getD [] else (n.get "name".toList).getD []),
           (⟨n, ptag⟩ : VarEntry))]
       else []) ++ getVariables n pfx ++ getVariablesList ns ptag pfx := by
  rw [getVariablesList]

theorem gv_group (n : Str) (kids : List XNode) (pfx : Str) :
    getVariables (.mk "Group".toList [("name".toList, n)] none kids) pfx
      = getVariablesList kids "Group".toList (pfx ++ '/' :: quoteName n) := by
  rw [getVariables]
  have hg : ("Group".toList ≠ "Dataset".toList) := by decide
  simp [hg]

theorem gv_items (s : Spec) : ∀ (path : List Str), s.ok →
    getVariablesList (renderItems s) (parentTag path) (pathStr path) = (specVars path s).map entryOf := by
  induction s with
  | nil => intro path _; rw [renderItems, getVariablesList]; rfl
  | dim n sz rest ih =>
    intro path hs
    rw [renderItems, gvl_cons, specVars]
    have : (XNode.mk "Dimension".toList [("name".toList, n), ("size".toList, natDigits sz)] none []).tag ∉ varTags :=
      dimension_tag
    rw [if_neg this, gv_leaf, ih path hs.2]; rfl
  | attr a rest ih =>
    intro path hs
    rw [renderItems, gvl_cons, specVars]
    have : (renderAttr a).tag ∉ varTags := attribute_tag
    rw [if_neg this, gv_attr, ih path hs.2]; rfl
  | var v rest ih =>
    intro path hs
    rw [renderItems, gvl_cons, specVars]
    have ht : (renderVar v).tag ∈ varTags := hs.1.1
    rw [if_pos ht, gv_var, ih path hs.2]
    have hk : (if pathStr path ≠ [] then pathStr path ++ '/' :: ((renderVar v).get "name".toList).getD []
        else ((renderVar v).get "name".toList).getD []) = keyOf path v.name := by
      have : ((renderVar v).get "name".toList) = some v.name := by simp [renderVar, XNode.get, XNode.attrs, List.lookup]
      rw [this]
      simp only [Option.getD_some, keyOf, fqn, pathStr_append]
      by_cases hp : path = []
      · subst hp; simp [pathStr]
      · have : pathStr path ≠ [] := fun h => hp ((pathStr_eq_nil path).mp h)
        simp [hp, this]
    rw [hk]; rfl
  | group n body rest ihb ihr =>
    intro path hs
    rw [renderItems, gvl_cons, specVars]
    have : (XNode.mk "Group".toList [("name".toList, n)] none (renderItems body)).tag ∉ varTags := group_tag
    rw [if_neg this, ihr path hs.2.2, gv_group, ← pathStr_append]
    have hpt : parentTag (path ++ [quoteName n]) = "Group".toList := by simp [parentTag]
    have := ihb (path ++ [quoteName n]) hs.2.1
    rw [hpt] at this
    rw [this]; simp

theorem gnd_leaf (tag : Str) (attrs : List (Str × Str)) (t : Option Str) (p : Str) :
    getNamedDimensions (.mk tag attrs t []) p = .ok [] := by
  rw [getNamedDimensions]
  cases attrs.lookup "name".toList <;> simp [getNamedDimensionsList]

theorem gndl_cons_other (n : XNode) (ns : List XNode) (pfx : Str) (h : n.tag ≠ "Dimension".toList) :
    getNamedDimensionsList (n :: ns) pfx = (do
      let below ← getNamedDimensions n pfx
      let after ← getNamedDimensionsList ns pfx
      pure (below ++ after)) := by
  rw [getNamedDimensionsList, if_neg h]
  simp [bind, Except.bind, pure, Except.pure]

theorem gndl_cons_dim (name : Str) (sz : Nat) (ns : List XNode) (pfx : Str) :
    getNamedDimensionsList (.mk "Dimension".toList [("name".toList, name), ("size".toList, natDigits sz)] none [] :: ns) pfx
      = (do
      let after ← getNamedDimensionsList ns pfx
      pure (((if pfx ≠ [] then pfx ++ '/' :: name else name), (sz : Int)) :: after)) := by
  rw [getNamedDimensionsList, gnd_leaf]
  have h0 : (XNode.mk "Dimension".toList [("name".toList, name), ("size".toList, natDigits sz)] none []).tag
      = "Dimension".toList := rfl
  have h1 : (XNode.mk "Dimension".toList [("name".toList, name), ("size".toList, natDigits sz)] none []).get "size".toList
      = some (natDigits sz) := by
    have : ("size".toList == "name".toList) = false := by decide
    simp [XNode.get, XNode.attrs, List.lookup, this]
  have h2 : (XNode.mk "Dimension".toList [("name".toList, name), ("size".toList, natDigits sz)] none []).get "name".toList
      = some name := by
    simp [XNode.get, XNode.attrs, List.lookup]
  rw [if_pos h0, h1, h2]
  simp only [parseIntChars_natDigits, Option.getD_some]
  cases getNamedDimensionsList ns pfx <;> rfl

theorem gndl_nil_of (l : List XNode) (pfx : Str)
    (h : ∀ n ∈ l, n.tag ≠ "Dimension".toList ∧ ∀ p, getNamedDimensions n p = .ok []) :
    getNamedDimensionsList l pfx = .ok [] := by
  induction l with
  | nil => rw [getNamedDimensionsList]
  | cons n ns ih =>
    have hn := h n (by simp)
    rw [gndl_cons_other _ _ _ hn.1, hn.2, ih (fun x hx => h x (by simp [hx]))]
    rfl

theorem gnd_of_children (tag : Str) (attrs : List (Str × Str)) (t : Option Str) (kids : List XNode) (p : Str)
    (h : ∀ n ∈ kids, n.tag ≠ "Dimension".toList ∧ ∀ p, getNamedDimensions n p = .ok []) :
    getNamedDimensions (.mk tag attrs t kids) p = .ok [] := by
  rw [getNamedDimensions]
  cases attrs.lookup "name".toList with
  | none => rfl
  | some g => simp only []; exact gndl_nil_of _ _ h

theorem value_ne_dimension : "Value".toList ≠ "Dimension".toList := by decide
theorem dim_ne_dimension : "Dim".toList ≠ "Dimension".toList := by decide
theorem map_ne_dimension : "Map".toList ≠ "Dimension".toList := by decide
theorem attribute_ne_dimension : "Attribute".toList ≠ "Dimension".toList := by decide
theorem group_ne_dimension : "Group".toList ≠ "Dimension".toList := by decide

theorem gnd_attr (a : SAttr) (p : Str) : getNamedDimensions (renderAttr a) p = .ok [] := by
  unfold renderAttr
  apply gnd_of_children
  intro n hn
  obtain ⟨v, _, rfl⟩ := List.mem_map.mp hn
  rcases v with ⟨b, v⟩
  cases b <;> exact ⟨value_ne_dimension, fun p => gnd_leaf _ _ _ p⟩

theorem gnd_var (v : SVar) (p : Str) : getNamedDimensions (renderVar v) p = .ok [] := by
  unfold renderVar
  apply gnd_of_children
  intro n hn
  simp only [List.mem_append, List.mem_map] at hn
  rcases hn with ⟨d, _, rfl⟩ | ⟨a, _, rfl⟩ | ⟨m, _, rfl⟩
  · cases d <;> exact ⟨dim_ne_dimension, fun p => gnd_leaf _ _ _ p⟩
  · exact ⟨attribute_ne_dimension, fun p => gnd_attr a p⟩
  · exact ⟨map_ne_dimension, fun p => gnd_leaf _ _ _ p⟩

theorem gnd_group (n : Str) (kids : List XNode) (pfx : Str) :
    getNamedDimensions (.mk "Group".toList [("name".toList, n)] none kids) pfx
      = getNamedDimensionsList kids (pfx ++ '/' :: n) := by
  rw [getNamedDimensions]
  simp

def dimEntry (d : List Str × Str × Nat) : Str × Int := (keyOf d.1 d.2.1, (d.2.2 : Int))

theorem gnd_items (s : Spec) : ∀ (path : List Str), s.ok →
    getNamedDimensionsList (renderItems s) (pathStr path) = .ok ((declDims path s).map dimEntry) := by
  induction s with
  | nil => intro path _; rw [renderItems, getNamedDimensionsList]; rfl
  | dim n sz rest ih =>
    intro path hs
    rw [renderItems, gndl_cons_dim, declDims, ih path hs.2]
    simp only [bind, Except.bind, pure, Except.pure, List.map_cons, dimEntry, keyOf, fqn, pathStr_append]
    congr 3
    by_cases hp : path = []
    · subst hp; simp [pathStr]
    · have : pathStr path ≠ [] := fun h => hp ((pathStr_eq_nil path).mp h)
      simp [hp, this]
  | attr a rest ih =>
    intro path hs
    have : (renderAttr a).tag ≠ "Dimension".toList := attribute_ne_dimension
    rw [renderItems, gndl_cons_other _ _ _ this, declDims, gnd_attr, ih path hs.2]
    rfl
  | var v rest ih =>
    intro path hs
    have : (renderVar v).tag ≠ "Dimension".toList := by
      intro h
      have ht : (renderVar v).tag ∈ varTags := hs.1.1
      rw [h] at ht
      exact dimension_tag ht
    rw [renderItems, gndl_cons_other _ _ _ this, declDims, gnd_var, ih path hs.2]
    rfl
  | group n body rest ihb ihr =>
    intro path hs
    have : (XNode.mk "Group".toList [("name".toList, n)] none (renderItems body)).tag ≠ "Dimension".toList :=
      group_ne_dimension
    rw [renderItems, gndl_cons_other _ _ _ this, declDims, ihr path hs.2.2, gnd_group, ← pathStr_append,
      ihb (path ++ [n]) hs.2.1]
    simp [bind, Except.bind, pure, Except.pure]

theorem attr_get_name (a : SAttr) : (renderAttr a).get "name".toList = some a.name := by
  simp [renderAttr, XNode.get, XNode.attrs, List.lookup]

theorem attr_get_type (a : SAttr) : (renderAttr a).get "type".toList = some a.type := by
  have : ("type".toList == "name".toList) = false := by decide
  simp [renderAttr, XNode.get, XNode.attrs, List.lookup, this]

theorem attr_get_value (a : SAttr) : (renderAttr a).get "value".toList = a.inline.map SVal.text := by
  have h1 : ("value".toList == "name".toList) = false := by decide
  have h2 : ("value".toList == "type".toList) = false := by decide
  cases h : a.inline <;> simp [renderAttr, XNode.get, XNode.attrs, List.lookup, h1, h2, h]

theorem attr_findall_value (a : SAttr) : (renderAttr a).findall "Value".toList = a.values.map renderVal := by
  simp only [renderAttr, XNode.findall, XNode.children]
  apply List.filter_eq_self.mpr
  intro n hn
  obtain ⟨v, _, rfl⟩ := List.mem_map.mp hn
  rcases v with ⟨b, v⟩
  cases b <;> simp [renderVal, XNode.tag]

theorem rawValues_attr (a : SAttr) : rawValues (renderAttr a) = a.all.map fun v => some v.text := by
  unfold rawValues
  rw [attr_get_value, attr_findall_value]
  simp only [SAttr.all, List.map_append, List.map_map]
  congr 1
  · cases a.inline <;> rfl
  · apply List.map_congr_left
    intro v _
    rcases v with ⟨b, v⟩
    cases b <;> simp [renderVal, XNode.text, XNode.get, XNode.attrs, List.lookup]

theorem mapM_convInt (l : List SVal) (h : ∀ v ∈ l, ∃ t i, v = .int t i ∧ parseIntChars t = some i) :
    (l.map fun v => some v.text).mapM convInt = .ok (l.map SVal.scalar) := by
  induction l with
  | nil => rfl
  | cons v vs ih =>
    obtain ⟨t, i, rfl, hp⟩ := h v (by simp)
    have ht : (SVal.int t i).text = t := rfl
    simp only [List.map_cons, List.mapM_cons, ht, convInt, hp, ih (fun x hx => h x (by simp [hx]))]
    rfl

theorem mapM_convByte (l : List SVal) (h : ∀ v ∈ l, ∃ t i, v = .int t i ∧ parseIntChars t = some i) :
    ((l.map fun v => some v.text).filterMap id).mapM convByte = .ok (l.map SVal.scalar) := by
  induction l with
  | nil => rfl
  | cons v vs ih =>
    obtain ⟨t, i, rfl, hp⟩ := h v (by simp)
    have ht : (SVal.int t i).text = t := rfl
    simp only [List.map_cons, List.filterMap_cons, id, List.mapM_cons, ht, convByte, hp,
      ih (fun x hx => h x (by simp [hx]))]
    rfl

theorem attrVal_match (l : List Scalar) :
    (match l with | [] => AttrVal.none | [v] => AttrVal.one v | vs => AttrVal.many vs)
      = (match l with | [] => AttrVal.none | [v] => AttrVal.one v | vs => AttrVal.many vs) := rfl

theorem getAtomicAttr_render (a : SAttr) (h : a.ok) :
    getAtomicAttr (renderAttr a) = .ok (some a.name, a.expected) := by
  unfold getAtomicAttr
  rw [attr_get_name, attr_get_type, rawValues_attr]
  simp only [Option.getD_some, SAttr.expected]
  rcases h with ⟨hat, hf, hv⟩ | ⟨hat, hnf, hv⟩ | ⟨hna, hv⟩
  · rw [if_pos hat, if_pos hf]
    have key : ∀ (f : Option Str → Scalar), (∀ t, f (some t) = Scalar.float t) →
        (a.all.map fun v => some v.text).map f = a.all.map SVal.scalar := by
      intro f hf'
      rw [List.map_map]
      apply List.map_congr_left
      intro v hv'
      obtain ⟨t, rfl⟩ := hv v hv'
      exact hf' t
    simp only [bind, Except.bind, pure, Except.pure]
    rw [key _ (fun t => rfl)]
    generalize List.map SVal.scalar a.all = l
    rcases l with _ | ⟨x, _ | ⟨y, ys⟩⟩ <;> rfl
  · rw [if_pos hat, if_neg hnf]
    by_cases hi : a.type ∈ intTypes ∨ a.type ∈ uintTypes
    · rw [if_pos hi, mapM_convInt _ hv]
      rfl
    · rw [if_neg hi, mapM_convByte _ hv]
      rfl
  · rw [if_neg hna]
    have key : ∀ (f : Option Str → Scalar), (∀ t, f (some t) = Scalar.str t) →
        (a.all.map fun v => some v.text).map f = a.all.map SVal.scalar := by
      intro f hf'
      rw [List.map_map]
      apply List.map_congr_left
      intro v hv'
      obtain ⟨t, rfl⟩ := hv v hv'
      exact hf' t
    simp only [bind, Except.bind, pure, Except.pure]
    rw [key _ (fun t => rfl)]
    generalize List.map SVal.scalar a.all = l
    rcases l with _ | ⟨x, _ | ⟨y, ys⟩⟩ <;> rfl

def noSlash (n : Str) : Prop := '/' ∉ n

theorem split_noSlash (p : Str) (h : '/' ∉ p) : splitOnChar '/' p = [p] := by
  induction p with
  | nil => rfl
  | cons c cs ih =>
    have hc : c ≠ '/' := fun e => h (by simp [e])
    have := ih (fun hm => h (by simp [hm]))
    simp [splitOnChar, this, hc]

theorem split_append_slash (p r : Str) (h : '/' ∉ p) :
    splitOnChar '/' (p ++ '/' :: r) = p :: splitOnChar '/' r := by
  induction p with
  | nil =>
    simp only [List.nil_append, splitOnChar]
    cases hr : splitOnChar '/' r with
    | nil =>
      -- unreachable: splitOnChar never returns []
      exfalso
      cases r with
      | nil => simp [splitOnChar] at hr
      | cons c cs =>
        simp only [splitOnChar] at hr
        cases h2 : splitOnChar '/' cs <;> simp [h2] at hr
        split at hr <;> simp at hr
    | cons g gs => simp
  | cons c cs ih =>
    have hc : c ≠ '/' := fun e => h (by simp [e])
    have := ih (fun hm => h (by simp [hm]))
    simp [splitOnChar, this, hc]

theorem split_path (p : Str) (ps : List Str) (hp : '/' ∉ p) (hps : ∀ q ∈ ps, '/' ∉ q) :
    splitOnChar '/' (p ++ pathStr ps) = p :: ps := by
  induction ps generalizing p with
  | nil => simp [pathStr, split_noSlash p hp]
  | cons q qs ih =>
    simp only [pathStr, List.cons_append]
    rw [split_append_slash p _ hp, ih q (hps q (by simp)) (fun x hx => hps x (by simp [hx]))]

theorem split_pathStr (ps : List Str) (hne : ps ≠ []) (hps : ∀ q ∈ ps, '/' ∉ q) :
    splitOnChar '/' (pathStr ps) = [] :: ps := by
  cases ps with
  | nil => exact absurd rfl hne
  | cons q qs =>
    simp only [pathStr, List.cons_append]
    have := split_append_slash [] (q ++ pathStr qs) (by simp)
    simp only [List.nil_append] at this
    rw [this, split_path q qs (hps q (by simp)) (fun x hx => hps x (by simp [hx]))]

theorem joinSlash_cons (p : Str) (ps : List Str) : joinSlash (p :: ps) = p ++ pathStr ps := by
  induction ps generalizing p with
  | nil => simp [joinSlash, pathStr]
  | cons q qs ih => simp [joinSlash, pathStr, ih q]

theorem joinSlash_nil_cons (ps : List Str) (hne : ps ≠ []) : joinSlash ([] :: ps) = pathStr ps := by
  cases ps with
  | nil => exact absurd rfl hne
  | cons q qs => simp [joinSlash, joinSlash_cons, pathStr]

theorem dictGet_none {β} (log : List (Str × β)) (k : Str) (h : k ∉ log.map (·.1)) : dictGet log k = none := by
  unfold dictGet
  have : log.reverse.find? (·.1 == k) = none := by
    apply List.find?_eq_none.mpr
    intro x hx
    have hx' : x ∈ log := by simpa using hx
    intro he
    apply h
    have : x.1 = k := by simpa using he
    exact List.mem_map.mpr ⟨x, hx', this⟩
  rw [this]; rfl

theorem dictOfLogAux_nodup {β} (f : Nat) (log : List (Str × β)) (hf : log.length ≤ f)
    (h : (log.map (·.1)).Nodup) : dictOfLogAux f log = log := by
  induction log generalizing f with
  | nil => cases f <;> rfl
  | cons kv rest ih =>
    rcases kv with ⟨k, v⟩
    cases f with
    | zero => simp at hf
    | succ f =>
      simp only [List.map_cons, List.nodup_cons] at h
      have hfil : rest.filter (·.1 != k) = rest := by
        apply List.filter_eq_self.mpr
        intro x hx
        have : x.1 ≠ k := fun e => h.1 (List.mem_map.mpr ⟨x, hx, e⟩)
        simpa using this
      simp only [dictOfLogAux, dictGet_none rest k h.1, Option.getD_none, hfil]
      rw [ih f (by simpa using hf) h.2]

theorem dictOfLog_nodup {β} (log : List (Str × β)) (h : (log.map (·.1)).Nodup) : dictOfLog log = log :=
  dictOfLogAux_nodup _ log (Nat.le_refl _) h

theorem eq_of_nodup_keys {α β} (f : α → β) (l : List α) (h : (l.map f).Nodup) (a b : α)
    (ha : a ∈ l) (hb : b ∈ l) (e : f a = f b) : a = b := by
  induction l with
  | nil => cases ha
  | cons x xs ih =>
    simp only [List.map_cons, List.nodup_cons] at h
    rcases List.mem_cons.mp ha with rfl | ha' <;> rcases List.mem_cons.mp hb with rfl | hb'
    · rfl
    · exact absurd (List.mem_map.mpr ⟨b, hb', e.symm⟩) h.1
    · exact absurd (List.mem_map.mpr ⟨a, ha', e⟩) h.1
    · exact ih h.2 ha' hb'

theorem dictGet_mem_nodup {β} (log : List (Str × β)) (k : Str) (v : β) (hm : (k, v) ∈ log)
    (h : (log.map (·.1)).Nodup) : dictGet log k = some v := by
  unfold dictGet
  have hm' : (k, v) ∈ log.reverse := by simpa using hm
  cases hf : log.reverse.find? (·.1 == k) with
  | none =>
    have := List.find?_eq_none.mp hf (k, v) hm'
    simp at this
  | some x =>
    have hx : x ∈ log.reverse := List.mem_of_find?_eq_some hf
    have hk : x.1 = k := by simpa using List.find?_some hf
    have hx' : x ∈ log := by simpa using hx
    -- same key, nodup keys → same entry
    have : x = (k, v) := by
      rcases x with ⟨k', v'⟩
      simp only at hk; subst hk
      exact eq_of_nodup_keys (·.1) log h _ _ hx' hm rfl
    simp [this]

theorem attribute_ne_dim : "Attribute".toList ≠ "Dim".toList := by decide
theorem map_ne_dim : "Map".toList ≠ "Dim".toList := by decide

/-- `findall(tag)` over the children of a rendered variable -/
theorem var_findall_attr (v : SVar) :
    (renderVar v).findall "Attribute".toList = v.attrs.map renderAttr := by
  simp only [renderVar, XNode.findall, XNode.children, List.filter_append]
  have h1 : (v.dims.map renderDim).filter (·.tag == "Attribute".toList) = [] := by
    apply List.filter_eq_nil_iff.mpr
    intro n hn
    obtain ⟨d, _, rfl⟩ := List.mem_map.mp hn
    cases d <;> simp [renderDim, XNode.tag]
  have h2 : (v.attrs.map renderAttr).filter (·.tag == "Attribute".toList) = v.attrs.map renderAttr := by
    apply List.filter_eq_self.mpr
    intro n hn
    obtain ⟨d, _, rfl⟩ := List.mem_map.mp hn
    simp [renderAttr, XNode.tag]
  have h3 : (v.maps.map renderMap).filter (·.tag == "Attribute".toList) = [] := by
    apply List.filter_eq_nil_iff.mpr
    intro n hn
    obtain ⟨d, _, rfl⟩ := List.mem_map.mp hn
    simp [renderMap, XNode.tag]
  rw [h1, h2, h3]; simp

theorem var_getMaps (v : SVar) : getMaps (renderVar v) = v.maps.map some := by
  simp only [getMaps, renderVar, XNode.findall, XNode.children, List.filter_append]
  have h1 : (v.dims.map renderDim).filter (·.tag == "Map".toList) = [] := by
    apply List.filter_eq_nil_iff.mpr
    intro n hn
    obtain ⟨d, _, rfl⟩ := List.mem_map.mp hn
    cases d <;> simp [renderDim, XNode.tag]
  have h2 : (v.attrs.map renderAttr).filter (·.tag == "Map".toList) = [] := by
    apply List.filter_eq_nil_iff.mpr
    intro n hn
    obtain ⟨d, _, rfl⟩ := List.mem_map.mp hn
    simp [renderAttr, XNode.tag]
  have h3 : (v.maps.map renderMap).filter (·.tag == "Map".toList) = v.maps.map renderMap := by
    apply List.filter_eq_self.mpr
    intro n hn
    obtain ⟨d, _, rfl⟩ := List.mem_map.mp hn
    simp [renderMap, XNode.tag]
  rw [h1, h2, h3]
  simp [renderMap, XNode.get, XNode.attrs, List.lookup, Function.comp_def]

theorem mapM_attrs (as : List SAttr) (h : ∀ a ∈ as, a.ok) :
    (as.map renderAttr).mapM (fun a => do
      let (n, v) ← getAtomicAttr a
      pure (n.getD [], v)) = .ok (as.map fun a => (a.name, a.expected)) := by
  induction as with
  | nil => rfl
  | cons a as ih =>
    simp only [List.map_cons, List.mapM_cons, getAtomicAttr_render a (h a (by simp)),
      ih (fun x hx => h x (by simp [hx]))]
    rfl

theorem var_getAttributes (v : SVar) (h : ∀ a ∈ v.attrs, a.ok) :
    getAttributes (renderVar v) = .ok (v.attrs.map fun a => (a.name, a.expected)) := by
  unfold getAttributes
  rw [var_findall_attr]
  exact mapM_attrs v.attrs h

theorem var_post_not_dim (v : SVar) : ∀ n ∈ v.attrs.map renderAttr ++ v.maps.map renderMap, n.tag ≠ "Dim".toList := by
  intro n hn
  simp only [List.mem_append, List.mem_map] at hn
  rcases hn with ⟨a, _, rfl⟩ | ⟨m, _, rfl⟩
  · exact attribute_ne_dim
  · exact map_ne_dim

theorem var_getDimNames (v : SVar) : getDimNames (renderVar v) = SDim.names v.dims := by
  simp only [getDimNames, renderVar, XNode.findall, XNode.children]
  rw [filter_dims v.dims _ (var_post_not_dim v)]
  exact filterMap_names v.dims

theorem var_shape (nd : List (Str × Int)) (v : SVar)
    (h : ∀ d ∈ v.dims, ∀ fq s, d = .named fq s → dictGet nd (dimKey fq) = some s) :
    varShape nd (renderVar v) = .ok (v.dims.map SDim.size) := by
  simp only [varShape, renderVar, XNode.findall, XNode.children]
  rw [filter_dims v.dims _ (var_post_not_dim v)]
  exact mapM_dimSize nd v.dims h

theorem varTags_numpy : ∀ t ∈ varTags, (dap4ToNumpy t).isSome = true := by decide

theorem segName_noSlash {n : Str} (h : segName n) : '/' ∉ n := h.2

theorem contains_false_of_not_mem (l : Str) (h : '/' ∉ l) : l.contains '/' = false := by
  cases hc : l.contains '/' with
  | false => rfl
  | true => exact absurd (List.contains_iff_mem.mp hc) h

theorem filter_noSlash (l : Str) (h : '/' ∉ l) : l.filter (· != '/') = l := by
  apply List.filter_eq_self.mpr
  intro c hc
  have : c ≠ '/' := fun e => h (e ▸ hc)
  simpa using this

/-- `_dim_key` of a fully qualified name is the name `get_named_dimensions` files the declaration under -/
theorem dimKey_fqn (path : List Str) (n : Str) (hp : ∀ q ∈ path, segName q) (hn : segName n) :
    dimKey (fqn path n) = keyOf path n := by
  unfold dimKey keyOf fqn noSlashAfterFirst
  cases path with
  | nil =>
    have hs := segName_noSlash hn
    simp only [List.nil_append, pathStr, List.append_nil, List.drop_succ_cons, List.drop_zero]
    rw [contains_false_of_not_mem n hs]
    simp only [Bool.not_false, if_true, List.filter_cons]
    simp [filter_noSlash n hs]
  | cons g gs =>
    have : ((pathStr ((g :: gs) ++ [n])).drop 1).contains '/' = true := by
      simp only [List.cons_append, pathStr, List.drop_succ_cons, List.drop_zero]
      apply List.contains_iff_mem.mpr
      cases gs <;> simp [pathStr]
    rw [this]
    simp [keyOf]

/-- the `Dims` fix-up of `dmr_to_dataset` gives back the fully qualified reference -/
theorem fqdim_fix (groups : Bool) (path : List Str) (n : Str) (hp : ∀ q ∈ path, segName q) (hn : segName n)
    (hg : path ≠ [] → groups = true) :
    (if (splitParts groups (keyOf path n)).length = 1 then '/' :: keyOf path n else keyOf path n) = fqn path n := by
  cases path with
  | nil =>
    have hs := segName_noSlash hn
    have : (splitParts groups (keyOf [] n)).length = 1 := by
      unfold splitParts keyOf
      cases groups
      · simp [hn.1]
      · simp [split_noSlash n hs]
    rw [if_pos this]
    simp [keyOf, fqn, pathStr]
  | cons g gs =>
    have hgt := hg (by simp)
    subst hgt
    have hall : ∀ q ∈ (g :: gs) ++ [n], '/' ∉ q := by
      intro q hq
      rcases List.mem_append.mp hq with h | h
      · exact segName_noSlash (hp q h)
      · simp at h; subst h; exact segName_noSlash hn
    have : (splitParts true (keyOf (g :: gs) n)).length ≠ 1 := by
      simp only [splitParts, keyOf, fqn, if_true]
      rw [if_neg (by simp), split_pathStr _ (by simp) hall]
      simp
    rw [if_neg this]
    simp [keyOf]

/-- name/path split of a variable key -/
theorem key_split (groups : Bool) (path : List Str) (n : Str) (hp : ∀ q ∈ path, segName q) (hn : segName n)
    (hg : path ≠ [] → groups = true) :
    (let parts := splitParts groups (keyOf path n)
     if parts.length > 1 then (parts.getLast?.getD [], some (joinSlash parts.dropLast)) else (keyOf path n, none))
      = (n, if path = [] then none else some (pathStr path)) := by
  cases path with
  | nil =>
    have hs := segName_noSlash hn
    have : (splitParts groups (keyOf [] n)).length = 1 := by
      unfold splitParts keyOf
      cases groups
      · simp [hn.1]
      · simp [split_noSlash n hs]
    simp only [this]
    simp [keyOf]
  | cons g gs =>
    have hgt := hg (by simp)
    subst hgt
    have hall : ∀ q ∈ (g :: gs) ++ [n], '/' ∉ q := by
      intro q hq
      rcases List.mem_append.mp hq with h | h
      · exact segName_noSlash (hp q h)
      · simp at h; subst h; exact segName_noSlash hn
    have hsp : splitParts true (keyOf (g :: gs) n) = [] :: ((g :: gs) ++ [n]) := by
      simp only [splitParts, keyOf, fqn, if_true]
      rw [if_neg (by simp), split_pathStr _ (by simp) hall]
    simp only [hsp]
    have h1 : ([] :: ((g :: gs) ++ [n])).length > 1 := by simp
    rw [if_pos h1]
    have h2 : ([] :: ((g :: gs) ++ [n])).getLast?.getD [] = n := by
      rw [← List.cons_append, List.getLast?_append]; simp
    have h3 : ([] :: ((g :: gs) ++ [n])).dropLast = [] :: (g :: gs) := by
      rw [← List.cons_append, List.dropLast_concat]
    rw [h2, h3, joinSlash_nil_cons _ (by simp)]
    simp

theorem names_refs (groups : Bool) (ds : List SDim)
    (h : ∀ fq sz, SDim.named fq sz ∈ ds →
      (if (splitParts groups (dimKey fq)).length = 1 then '/' :: dimKey fq else dimKey fq) = fq) :
    (SDim.names ds).map (fun d => if (splitParts groups d).length = 1 then '/' :: d else d) = SDim.refs ds := by
  induction ds with
  | nil => rfl
  | cons d ds ih =>
    have ih' := ih (fun fq sz hm => h fq sz (by simp [hm]))
    cases d with
    | named fq sz =>
      simp only [SDim.names, SDim.refs, List.map_cons, ih']
      rw [h fq sz (by simp)]
    | anon n => simpa [SDim.names, SDim.refs] using ih'

theorem mkRecord_render (groups : Bool) (nd : List (Str × Int)) (path : List Str) (v : SVar) (ptag : Str)
    (hv : v.ok) (hp : ∀ q ∈ path, segName q) (hg : path ≠ [] → groups = true)
    (hd : ∀ fq sz, SDim.named fq sz ∈ v.dims → dictGet nd (dimKey fq) = some sz ∧
      (if (splitParts groups (dimKey fq)).length = 1 then '/' :: dimKey fq else dimKey fq) = fq) :
    mkRecord groups nd (keyOf path v.name) ⟨renderVar v, ptag⟩ = .ok (expectVar path v) := by
  obtain ⟨htag, hname, hattrs, hnd, hres⟩ := hv
  unfold mkRecord
  simp only []
  rw [var_getAttributes v hattrs, var_getDimNames, var_getMaps,
    var_shape nd v (fun d hdm fq s e => (hd fq s (e ▸ hdm)).1)]
  have htag' : (renderVar v).tag = v.tag := rfl
  rw [htag']
  have hsome := varTags_numpy v.tag htag
  cases hdt : dap4ToNumpy v.tag with
  | none => rw [hdt] at hsome; cases hsome
  | some dt =>
    simp only [bind, Except.bind, pure, Except.pure]
    have hks := key_split groups path v.name hp (goodName_seg hname) hg
    simp only [] at hks
    rw [hks, names_refs groups v.dims (fun fq sz hm => (hd fq sz hm).2)]
    rw [dictOfLog_nodup _ (by simpa [List.map_map, Function.comp_def] using hnd)]
    simp [expectVar, hdt]
    intro a ha
    have h := hres a ha
    simp only [reservedAttrNames, List.mem_cons, List.not_mem_nil, or_false, not_or] at h
    exact ⟨h.1, Or.inr h.2⟩

/-! ### the checks `parseVars` runs before it lists the variables -/

theorem wnl_of (l : List XNode) (h : ∀ n ∈ l, wellNamed n = true) : wellNamedList l = true := by
  induction l with
  | nil => rfl
  | cons n ns ih =>
    rw [wellNamedList, h n (by simp), ih (fun x hx => h x (by simp [hx]))]; rfl

theorem wn_named (tag : Str) (attrs : List (Str × Str)) (t : Option Str) (kids : List XNode)
    (hn : (attrs.lookup "name".toList).isSome = true) (hk : ∀ n ∈ kids, wellNamed n = true) :
    wellNamed (.mk tag attrs t kids) = true := by
  rw [wellNamed, hn, wnl_of kids hk, Bool.or_true]; rfl

theorem wn_other (tag : Str) (attrs : List (Str × Str)) (t : Option Str) (kids : List XNode)
    (hn : tag ∉ varTags ∧ tag ≠ "Dimension".toList) (hk : ∀ n ∈ kids, wellNamed n = true) :
    wellNamed (.mk tag attrs t kids) = true := by
  rw [wellNamed, decide_eq_true hn, wnl_of kids hk]; rfl

theorem wn_value (bv : Bool × SVal) : wellNamed (renderVal bv) = true := by
  rcases bv with ⟨b, v⟩
  cases b <;> exact wn_other _ _ _ _ ⟨value_tag, value_ne_dimension⟩ (by simp)

theorem wn_attr (a : SAttr) : wellNamed (renderAttr a) = true := by
  unfold renderAttr
  apply wn_named
  · simp [List.lookup]
  · intro n hn
    obtain ⟨v, _, rfl⟩ := List.mem_map.mp hn
    exact wn_value v

theorem wn_dim (d : SDim) : wellNamed (renderDim d) = true := by
  cases d <;> exact wn_other _ _ _ _ ⟨dim_tag, dim_ne_dimension⟩ (by simp)

theorem wn_map (m : Str) : wellNamed (renderMap m) = true := by
  unfold renderMap
  exact wn_named _ _ _ _ (by simp [List.lookup]) (by simp)

theorem wn_var (v : SVar) : wellNamed (renderVar v) = true := by
  unfold renderVar
  apply wn_named
  · simp [List.lookup]
  · intro n hn
    simp only [List.mem_append, List.mem_map] at hn
    rcases hn with ⟨d, _, rfl⟩ | ⟨a, _, rfl⟩ | ⟨m, _, rfl⟩
    · exact wn_dim d
    · exact wn_attr a
    · exact wn_map m

theorem wn_items (s : Spec) : ∀ n ∈ renderItems s, wellNamed n = true := by
  induction s with
  | nil => intro n hn; cases hn
  | dim nm sz rest ih =>
    intro n hn
    rw [renderItems] at hn
    rcases List.mem_cons.mp hn with rfl | h
    · exact wn_named _ _ _ _ (by simp [List.lookup]) (by simp)
    · exact ih n h
  | var v rest ih =>
    intro n hn
    rw [renderItems] at hn
    rcases List.mem_cons.mp hn with rfl | h
    · exact wn_var v
    · exact ih n h
  | attr a rest ih =>
    intro n hn
    rw [renderItems] at hn
    rcases List.mem_cons.mp hn with rfl | h
    · exact wn_attr a
    · exact ih n h
  | group g body rest ihb ihr =>
    intro n hn
    rw [renderItems] at hn
    rcases List.mem_cons.mp hn with rfl | h
    · exact wn_named _ _ _ _ (by simp [List.lookup]) ihb
    · exact ihr n h

theorem lookup_name_isSome (pre : List (Str × Str)) (name : Str) :
    ((pre ++ [("name".toList, name)]).lookup "name".toList).isSome = true := by
  induction pre with
  | nil => simp [List.lookup]
  | cons kv pre ih =>
    rcases kv with ⟨k, v⟩
    simp only [List.cons_append, List.lookup]
    cases h : ("name".toList == k) <;> simp [ih]

theorem wn_root (pre : List (Str × Str)) (name : Str) (s : Spec) : wellNamed (renderRoot pre name s) = true :=
  wn_named _ _ _ _ (lookup_name_isSome pre name) (wn_items s)

/-- the attributes declared directly in a group -/
def topAttrs : Spec → List SAttr
  | .nil => []
  | .dim _ _ rest => topAttrs rest
  | .var _ rest => topAttrs rest
  | .attr a rest => a :: topAttrs rest
  | .group _ _ rest => topAttrs rest

theorem topAttrs_ok (s : Spec) (h : s.ok) : ∀ a ∈ topAttrs s, a.ok := by
  induction s with
  | nil => intro a ha; cases ha
  | dim _ _ rest ih => exact ih h.2
  | var _ rest ih => exact ih h.2
  | attr a rest ih =>
    intro x hx
    rcases List.mem_cons.mp hx with rfl | hx'
    · exact h.1
    · exact ih h.2 x hx'
  | group _ _ rest _ ih => exact ih h.2.2

theorem items_filter_attr (s : Spec) (h : s.ok) :
    (renderItems s).filter (·.tag == "Attribute".toList) = (topAttrs s).map renderAttr := by
  induction s with
  | nil => rfl
  | dim n sz rest ih =>
    rw [renderItems, topAttrs, List.filter_cons_of_neg (by simp [XNode.tag]), ih h.2]
  | var v rest ih =>
    have : (renderVar v).tag ≠ "Attribute".toList := by
      intro e
      have ht : (renderVar v).tag ∈ varTags := h.1.1
      rw [e] at ht
      exact attribute_tag ht
    rw [renderItems, topAttrs, List.filter_cons_of_neg (by simpa using this), ih h.2]
  | attr a rest ih =>
    rw [renderItems, topAttrs, List.filter_cons_of_pos (by simp [renderAttr, XNode.tag]), ih h.2]; rfl
  | group g body rest _ ih =>
    rw [renderItems, topAttrs, List.filter_cons_of_neg (by simp [XNode.tag]), ih h.2.2]

theorem container_getAttributes (tag : Str) (attrs : List (Str × Str)) (t : Option Str) (s : Spec) (h : s.ok) :
    getAttributes (.mk tag attrs t (renderItems s)) = .ok ((topAttrs s).map fun a => (a.name, a.expected)) := by
  unfold getAttributes
  simp only [XNode.findall, XNode.children]
  rw [items_filter_attr s h]
  exact mapM_attrs _ (topAttrs_ok s h)

theorem gaol_cons_group (g : XNode) (rest : List XNode) (h : g.tag = "Group".toList) :
    groupAttrsOkList (g :: rest) = (do let _ ← getAttributes g; groupAttrsOk g; groupAttrsOkList rest) := by
  rw [groupAttrsOkList, if_pos h]

theorem gaol_cons_other (g : XNode) (rest : List XNode) (h : g.tag ≠ "Group".toList) :
    groupAttrsOkList (g :: rest) = groupAttrsOkList rest := by
  rw [groupAttrsOkList, if_neg h]

theorem gao_items (s : Spec) (h : s.ok) : groupAttrsOkList (renderItems s) = .ok () := by
  induction s with
  | nil => rfl
  | dim n sz rest ih => rw [renderItems, gaol_cons_other _ _ (by simp [XNode.tag]), ih h.2]
  | var v rest ih =>
    have : (renderVar v).tag ≠ "Group".toList := by
      intro e
      have ht : (renderVar v).tag ∈ varTags := h.1.1
      rw [e] at ht
      exact group_tag ht
    rw [renderItems, gaol_cons_other _ _ this, ih h.2]
  | attr a rest ih => rw [renderItems, gaol_cons_other _ _ (by simp [renderAttr, XNode.tag]), ih h.2]
  | group g body rest ihb ihr =>
    rw [renderItems, gaol_cons_group _ _ rfl, container_getAttributes _ _ _ body h.2.1, groupAttrsOk, ihb h.2.1,
      ihr h.2.2]
    rfl

theorem getGroups_isEmpty (s : Spec) (h : s.ok) (pfx : Str) :
    (getGroupsList (renderItems s) pfx).isEmpty = !hasGroup s := by
  induction s with
  | nil => rfl
  | dim n sz rest ih =>
    rw [renderItems, getGroupsList, if_neg (by simp [XNode.tag]), hasGroup, List.nil_append, ih h.2]
  | var v rest ih =>
    have e : (renderVar v).tag ≠ "Group".toList := by
      intro e
      have ht : (renderVar v).tag ∈ varTags := h.1.1
      rw [e] at ht
      exact group_tag ht
    rw [renderItems, getGroupsList, hasGroup, if_neg e, List.nil_append, ih h.2]
  | attr a rest ih =>
    rw [renderItems, getGroupsList, if_neg (by simp [renderAttr, XNode.tag]), hasGroup, List.nil_append, ih h.2]
  | group g body rest _ _ =>
    rw [renderItems, getGroupsList, if_pos (by simp [XNode.tag]), hasGroup]
    simp

theorem mapM_ok_of {α β} (f : α → Except Err β) (l : List α) (h : ∀ x ∈ l, ∃ y, f x = .ok y) :
    ∃ ys, l.mapM f = .ok ys := by
  induction l with
  | nil => exact ⟨[], rfl⟩
  | cons x xs ih =>
    obtain ⟨y, hy⟩ := h x (by simp)
    obtain ⟨ys, hys⟩ := ih (fun z hz => h z (by simp [hz]))
    exact ⟨y :: ys, by simp only [List.mapM_cons, hy, hys]; rfl⟩

theorem bind_mapM_ok {α β γ} (f : α → Except Err β) (g : List β → γ) (l : List α)
    (h : ∀ x ∈ l, ∃ y, f x = .ok y) : ∃ r, (do let logs ← l.mapM f; pure (g logs)) = Except.ok r := by
  obtain ⟨ys, hys⟩ := mapM_ok_of f l h
  exact ⟨g ys, by rw [hys]; rfl⟩

inductive ItemNode : XNode → Prop where
  | dim (n : Str) (sz : Nat) : ItemNode (.mk "Dimension".toList [("name".toList, n), ("size".toList, natDigits sz)] none [])
  | var (v : SVar) (h : v.ok) : ItemNode (renderVar v)
  | attr (a : SAttr) (h : a.ok) : ItemNode (renderAttr a)
  | group (g : Str) (body : Spec) (h : body.ok) : ItemNode (.mk "Group".toList [("name".toList, g)] none (renderItems body))

theorem items_nodes (s : Spec) (h : s.ok) : ∀ x ∈ renderItems s, ItemNode x := by
  induction s with
  | nil => intro x hx; cases hx
  | dim n sz rest ih =>
    intro x hx; rw [renderItems] at hx
    rcases List.mem_cons.mp hx with rfl | hx'
    · exact .dim n sz
    · exact ih h.2 x hx'
  | var v rest ih =>
    intro x hx; rw [renderItems] at hx
    rcases List.mem_cons.mp hx with rfl | hx'
    · exact .var v h.1
    · exact ih h.2 x hx'
  | attr a rest ih =>
    intro x hx; rw [renderItems] at hx
    rcases List.mem_cons.mp hx with rfl | hx'
    · exact .attr a h.1
    · exact ih h.2 x hx'
  | group g body rest _ ih =>
    intro x hx; rw [renderItems] at hx
    rcases List.mem_cons.mp hx with rfl | hx'
    · exact .group g body h.2.1
    · exact ih h.2.2 x hx'

theorem leaf_getAttributes (tag : Str) (attrs : List (Str × Str)) (t : Option Str) :
    getAttributes (.mk tag attrs t []) = .ok [] := rfl

theorem attrnode_getAttributes (a : SAttr) : getAttributes (renderAttr a) = .ok [] := by
  unfold getAttributes
  have : (renderAttr a).findall "Attribute".toList = [] := by
    simp only [renderAttr, XNode.findall, XNode.children]
    apply List.filter_eq_nil_iff.mpr
    intro n hn
    obtain ⟨v, _, rfl⟩ := List.mem_map.mp hn
    rcases v with ⟨b, v⟩
    cases b <;> simp [renderVal, XNode.tag]
  rw [this]; rfl

theorem rootAttrs_ok (pre : List (Str × Str)) (name : Str) (s : Spec) (h : s.ok) :
    ∃ r, rootAttrs (renderRoot pre name s) = .ok r := by
  unfold rootAttrs
  apply bind_mapM_ok
  intro x hx
  have hx' : ItemNode x := items_nodes s h x hx
  simp only []
  split
  · cases hx' with
    | dim n sz =>
      have : (XNode.mk "Dimension".toList [("name".toList, n), ("size".toList, natDigits sz)] none []).get "type".toList = none := by
        have h1 : ("type".toList == "name".toList) = false := by decide
        have h2 : ("type".toList == "size".toList) = false := by decide
        simp [XNode.get, XNode.attrs, List.lookup, h1, h2]
      rw [this]; exact ⟨_, leaf_getAttributes _ _ _⟩
    | var v hv =>
      have : (renderVar v).get "type".toList = none := by
        have h1 : ("type".toList == "name".toList) = false := by decide
        simp [renderVar, XNode.get, XNode.attrs, List.lookup, h1]
      rw [this]; exact ⟨_, var_getAttributes v hv.2.2.1⟩
    | attr a ha =>
      rw [attr_get_type]
      simp only []
      split
      · rw [getAtomicAttr_render a ha]; exact ⟨_, rfl⟩
      · exact ⟨_, attrnode_getAttributes a⟩
    | group g body hb =>
      have : (XNode.mk "Group".toList [("name".toList, g)] none (renderItems body)).get "type".toList = none := by
        have h1 : ("type".toList == "name".toList) = false := by decide
        simp [XNode.get, XNode.attrs, List.lookup, h1]
      rw [this]; exact ⟨_, container_getAttributes _ _ _ body hb⟩
  · exact ⟨_, rfl⟩

theorem specVars_mem (s : Spec) (h : s.ok) : ∀ (path : List Str), (∀ q ∈ path, qseg q) →
    ∀ pv ∈ specVars path s, (∀ q ∈ pv.1, qseg q) ∧ pv.2.ok ∧ (pv.1 = path ∨ (hasGroup s = true ∧ pv.1 ≠ [])) := by
  induction s with
  | nil => intro path _ pv hpv; cases hpv
  | dim n sz rest ih => intro path hp pv hpv; exact ih h.2 path hp pv hpv
  | attr a rest ih => intro path hp pv hpv; exact ih h.2 path hp pv hpv
  | var v rest ih =>
    intro path hp pv hpv
    rw [specVars] at hpv
    rcases List.mem_cons.mp hpv with rfl | hpv'
    · exact ⟨hp, h.1, Or.inl rfl⟩
    · exact ih h.2 path hp pv hpv'
  | group g body rest ihb ihr =>
    intro path hp pv hpv
    rw [specVars] at hpv
    rcases List.mem_append.mp hpv with hb | hr
    · have hp' : ∀ q ∈ path ++ [quoteName g], qseg q := by
        intro q hq
        rcases List.mem_append.mp hq with hq | hq
        · exact hp q hq
        · simp at hq; subst hq; exact goodName_qseg h.1
      obtain ⟨h1, h2, h3⟩ := ihb h.2.1 (path ++ [quoteName g]) hp' pv hb
      refine ⟨h1, h2, Or.inr ⟨rfl, ?_⟩⟩
      rcases h3 with e | ⟨_, e⟩
      · rw [e]; simp
      · exact e
    · obtain ⟨h1, h2, h3⟩ := ihr h.2.2 path hp pv hr
      refine ⟨h1, h2, ?_⟩
      rcases h3 with e | ⟨_, e⟩
      · exact Or.inl e
      · exact Or.inr ⟨rfl, e⟩

theorem declDims_mem (s : Spec) (h : s.ok) : ∀ (path : List Str), (∀ q ∈ path, segName q) →
    ∀ d ∈ declDims path s, (∀ q ∈ d.1, segName q) ∧ segName d.2.1 ∧ (d.1 = path ∨ (hasGroup s = true ∧ d.1 ≠ [])) := by
  induction s with
  | nil => intro path _ pv hpv; cases hpv
  | var n rest ih => intro path hp pv hpv; exact ih h.2 path hp pv hpv
  | attr a rest ih => intro path hp pv hpv; exact ih h.2 path hp pv hpv
  | dim n sz rest ih =>
    intro path hp pv hpv
    rw [declDims] at hpv
    rcases List.mem_cons.mp hpv with rfl | hpv'
    · exact ⟨hp, h.1, Or.inl rfl⟩
    · exact ih h.2 path hp pv hpv'
  | group g body rest ihb ihr =>
    intro path hp pv hpv
    rw [declDims] at hpv
    rcases List.mem_append.mp hpv with hb | hr
    · have hp' : ∀ q ∈ path ++ [g], segName q := by
        intro q hq
        rcases List.mem_append.mp hq with hq | hq
        · exact hp q hq
        · simp at hq; subst hq; exact goodName_seg h.1
      obtain ⟨h1, h2, h3⟩ := ihb h.2.1 (path ++ [g]) hp' pv hb
      refine ⟨h1, h2, Or.inr ⟨rfl, ?_⟩⟩
      rcases h3 with e | ⟨_, e⟩
      · rw [e]; simp
      · exact e
    · obtain ⟨h1, h2, h3⟩ := ihr h.2.2 path hp pv hr
      refine ⟨h1, h2, ?_⟩
      rcases h3 with e | ⟨_, e⟩
      · exact Or.inl e
      · exact Or.inr ⟨rfl, e⟩

/-- bare root names and path-qualified names never collide -/
theorem keyOf_inj (p p' : List Str) (n n' : Str) (hn : segName n) (hn' : segName n')
    (e : keyOf p n = keyOf p' n') : fqn p n = fqn p' n' := by
  unfold keyOf at e
  by_cases hp : p = [] <;> by_cases hp' : p' = []
  · subst hp; subst hp'; simp only [if_true] at e; rw [e]
  · subst hp
    rw [if_pos rfl, if_neg hp'] at e
    exfalso
    apply segName_noSlash hn
    rw [e]
    cases p' with
    | nil => exact absurd rfl hp'
    | cons a b => simp [fqn, pathStr]
  · subst hp'
    rw [if_neg hp, if_pos rfl] at e
    exfalso
    apply segName_noSlash hn'
    rw [← e]
    cases p with
    | nil => exact absurd rfl hp
    | cons a b => simp [fqn, pathStr]
  · rw [if_neg hp, if_neg hp'] at e; exact e

theorem nodup_map_of_inj {α β γ} (f : α → β) (g : α → γ) (l : List α) (h : (l.map f).Nodup)
    (inj : ∀ a ∈ l, ∀ b ∈ l, g a = g b → f a = f b) : (l.map g).Nodup := by
  induction l with
  | nil => simp
  | cons x xs ih =>
    simp only [List.map_cons, List.nodup_cons] at h ⊢
    refine ⟨?_, ih h.2 (fun a ha b hb => inj a (by simp [ha]) b (by simp [hb]))⟩
    intro hm
    obtain ⟨y, hy, e⟩ := List.mem_map.mp hm
    apply h.1
    exact List.mem_map.mpr ⟨y, hy, (inj x (by simp) y (by simp [hy]) e.symm).symm⟩

theorem mapM_ok_map {α β} (f : α → Except Err β) (g : α → β) (l : List α) (h : ∀ x ∈ l, f x = .ok (g x)) :
    l.mapM f = .ok (l.map g) := by
  induction l with
  | nil => rfl
  | cons x xs ih =>
    simp only [List.mapM_cons, h x (by simp), ih (fun z hz => h z (by simp [hz]))]
    rfl

theorem parseVars_render (pre : List (Str × Str)) (name : Str) (s : Spec)
    (hok : s.ok) (hres : refsResolve s) (hv : distinctVars s) (hd : distinctDims s) :
    parseVars (renderRoot pre name s) = .ok (expectVars s) := by
  unfold parseVars
  rw [wn_root]
  have hga : groupAttrsOk (renderRoot pre name s) = .ok () := by
    rw [renderRoot, groupAttrsOk]; exact gao_items s hok
  obtain ⟨r, hr⟩ := rootAttrs_ok pre name s hok
  have hgr : (getGroups (renderRoot pre name s) ['/']).isEmpty = !hasGroup s := by
    rw [renderRoot, getGroups]; exact getGroups_isEmpty s hok _
  have hlk := lookup_name_isSome pre name
  have hnd : getNamedDimensions (renderRoot pre name s) [] = .ok ((declDims [] s).map dimEntry) := by
    rw [renderRoot, getNamedDimensions]
    cases hl : (pre ++ [("name".toList, name)]).lookup "name".toList with
    | none => rw [hl] at hlk; cases hlk
    | some g => simp only [ne_eq, not_true_eq_false, if_false]; exact gnd_items s [] hok
  have hgv : getVariables (renderRoot pre name s) [] = (specVars [] s).map entryOf := by
    rw [renderRoot, getVariables]
    cases hl : (pre ++ [("name".toList, name)]).lookup "name".toList with
    | none => rw [hl] at hlk; cases hlk
    | some g => simp only [ne_eq, not_true_eq_false, if_false]; exact gv_items s [] hok
  have hnil : ∀ q ∈ ([] : List Str), segName q := by intro q hq; cases hq
  have hnilq : ∀ q ∈ ([] : List Str), qseg q := by intro q hq; cases hq
  -- distinct keys
  have hvk : (((specVars [] s).map entryOf).map (·.1)).Nodup := by
    rw [List.map_map]
    apply nodup_map_of_inj _ _ _ hv
    intro a ha b hb e
    exact keyOf_inj _ _ _ _ (goodName_seg (specVars_mem s hok [] hnilq a ha).2.1.2.1)
      (goodName_seg (specVars_mem s hok [] hnilq b hb).2.1.2.1) e
  have hdk : (((declDims [] s).map dimEntry).map (·.1)).Nodup := by
    rw [List.map_map]
    apply nodup_map_of_inj _ _ _ hd
    intro a ha b hb e
    exact keyOf_inj _ _ _ _ (declDims_mem s hok [] hnil a ha).2.1 (declDims_mem s hok [] hnil b hb).2.1 e
  simp only [hga, hr, hnd, hgv, hgr, bind, Except.bind, Bool.not_true, Bool.false_eq_true, if_false, Bool.not_not]
  rw [dictOfLog_nodup _ hvk, List.mapM_map]
  unfold expectVars
  apply mapM_ok_map
  intro pv hpv
  obtain ⟨hpl, hvo, hgrp⟩ := specVars_mem s hok [] hnilq pv hpv
  simp only [Function.comp, entryOf]
  apply mkRecord_render _ _ _ _ _ hvo (fun q hq => (hpl q hq).1)
  · intro hne
    rcases hgrp with e | ⟨hg, _⟩
    · exact absurd e hne
    · exact hg
  · intro fq sz hm
    obtain ⟨d, hdm, rfl, rfl⟩ := hres pv hpv fq sz hm
    obtain ⟨hdp, hdn, hdg⟩ := declDims_mem s hok [] hnil d hdm
    rw [dimKey_fqn d.1 d.2.1 hdp hdn]
    refine ⟨?_, ?_⟩
    · apply dictGet_mem_nodup _ _ _ _ hdk
      exact List.mem_map.mpr ⟨d, hdm, rfl⟩
    · apply fqdim_fix _ _ _ hdp hdn
      intro hne
      rcases hdg with e | ⟨hg, _⟩
      · exact absurd e hne
      · exact hg

end Pydap.Dmr
