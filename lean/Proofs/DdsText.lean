import PydapModel.DdsText
import Proofs.Hyperslab
namespace Pydap.Dds
open Pydap
/-! ### primitives -/

theorem lstrip_replicate (k : Nat) (x : Text) : lstrip (List.replicate k ' ' ++ x) = lstrip x := by
  induction k with
  | zero => simp
  | succ k ih =>
    simp only [List.replicate_succ, List.cons_append]
    show lstrip (' ' :: _) = _
    unfold lstrip at *
    rw [List.dropWhile_cons]
    simp [isSpace, ih]

theorem lstrip_indent (n : Nat) (x : Text) : lstrip (indent n ++ x) = lstrip x := lstrip_replicate _ _

theorem lstrip_cons_nonspace {c : Char} (x : Text) (h : isSpace c = false) : lstrip (c :: x) = c :: x := by
  simp [lstrip, h]

theorem lstrip_cons_space {c : Char} (x : Text) (h : isSpace c = true) : lstrip (c :: x) = lstrip x := by
  simp [lstrip, h]

theorem matchLit_prefix (lit p x : Text) (h : p.map lowerC = lit.map lowerC) : matchLit lit (p ++ x) = some x := by
  induction lit generalizing p with
  | nil => cases p <;> simp_all [matchLit]
  | cons l ls ih =>
    cases p with
    | nil => simp at h
    | cons c cs =>
      simp only [List.map_cons, List.cons.injEq] at h
      simp only [List.cons_append, matchLit, h.1, if_true]
      exact ih cs h.2

theorem consumeLit_prefix (lit p x : Text) (h : p.map lowerC = lit.map lowerC) :
    consumeLit lit (p ++ x) = .ok (lstrip x) := by
  simp [consumeLit, matchLit_prefix lit p x h]

theorem consumeLit_one (l c : Char) (x : Text) (h : lowerC c = lowerC l) :
    consumeLit [l] (c :: x) = .ok (lstrip x) := by
  simp [consumeLit, matchLit, h]

theorem peekLit_one (l c : Char) (x : Text) : peekLit [l] (c :: x) = decide (lowerC c = lowerC l) := by
  by_cases h : lowerC c = lowerC l <;> simp [peekLit, matchLit, h]

theorem takeWhile_span (p : Char → Bool) (tok : Text) (d : Char) (rest : Text)
    (h : ∀ c ∈ tok, p c = true) (hd : p d = false) :
    (tok ++ d :: rest).takeWhile p = tok ∧ (tok ++ d :: rest).dropWhile p = d :: rest := by
  induction tok with
  | nil => simp [hd]
  | cons c cs ih =>
    have hc := h c (by simp)
    have := ih (fun x hx => h x (by simp [hx]))
    simp [hc, this]

theorem consumeClass_span (p : Char → Bool) (tok : Text) (d : Char) (rest : Text)
    (h : ∀ c ∈ tok, p c = true) (hne : tok ≠ []) (hd : p d = false) :
    consumeClass p (tok ++ d :: rest) = .ok (tok, lstrip (d :: rest)) := by
  have := takeWhile_span p tok d rest h hd
  unfold consumeClass
  rw [this.1, this.2]
  cases tok with
  | nil => exact absurd rfl hne
  | cons a as => simp

theorem cle (a b : Char) : a ≤ b ↔ a.toNat ≤ b.toNat := by
  rw [Char.le_def, UInt32.le_iff_toNat_le]; rfl
theorem ceq (a b : Char) : a = b ↔ a.toNat = b.toNat :=
  ⟨fun h => h ▸ rfl, fun h => Char.ext (UInt32.toNat_inj.mp h)⟩

macro "char_arith" : tactic => `(tactic|
  (simp only [isNameRe, isWord, isUpper, isLower, Pydap.isDigit, isSpace, notSemiBr, notSemi, alwaysSafe,
      Bool.or_eq_true, Bool.and_eq_true, Bool.or_eq_false_iff, Bool.and_eq_false_iff, decide_eq_true_eq, decide_eq_false_iff_not, beq_iff_eq, bne_iff_ne, ne_eq, beq_eq_false_iff_ne,
      cle, ceq, Char.reduceToNat] at *; omega))

theorem nameRe_not_space (c : Char) (h : isNameRe c = true) : isSpace c = false := by char_arith
theorem nameRe_notSemiBr (c : Char) (h : isNameRe c = true) : notSemiBr c = true := by char_arith
theorem nameRe_notSemi (c : Char) (h : isNameRe c = true) : notSemi c = true := by char_arith
theorem word_nameRe (c : Char) (h : isWord c = true) : isNameRe c = true := by char_arith
theorem digit_nameRe (c : Char) (h : Pydap.isDigit c = true) : isNameRe c = true := by char_arith

theorem quoteChar_nameRe (c : Char) (h : isNameRe c = true) : quoteChar c = [c] := by
  unfold quoteChar
  have h1 : (c == '.') = false := by char_arith
  rw [h1]
  simp only [Bool.false_eq_true, if_false]
  by_cases hw : alwaysSafe c = true
  · simp [hw]
  · have : Gen.QUOTE_SAFE.toList.contains c = true := by
      have hc : c = '%' ∨ c = '!' ∨ c = '~' ∨ c = '"' ∨ c = '\'' ∨ c = '*' ∨ c = '-' := by
        have hw' : alwaysSafe c = false := by simpa using hw
        char_arith
      rcases hc with h | h | h | h | h | h | h <;> subst h <;> decide
    rw [this]; simp

/-! ### names, numbers -/

def NameOk (n : Text) : Prop := n ≠ [] ∧ ∀ c ∈ n, isNameRe c = true

theorem lstrip_head (l x : Text) (hne : l ≠ []) (h : ∀ c ∈ l, isSpace c = false) : lstrip (l ++ x) = l ++ x := by
  cases l with
  | nil => exact absurd rfl hne
  | cons a as => exact lstrip_cons_nonspace _ (h a (by simp))

theorem NameOk.lstrip {n : Text} (h : NameOk n) (x : Text) : lstrip (n ++ x) = n ++ x :=
  lstrip_head n x h.1 (fun c hc => nameRe_not_space c (h.2 c hc))

theorem quoteName_ok {n : Text} (h : NameOk n) : quoteName n = n := by
  have key : ∀ l : Text, (∀ c ∈ l, isNameRe c = true) → l.flatMap quoteChar = l := by
    intro l hl
    induction l with
    | nil => rfl
    | cons a as ih =>
      simp only [List.flatMap_cons, quoteChar_nameRe a (hl a (by simp))]
      rw [ih (fun c hc => hl c (by simp [hc]))]; rfl
  unfold quoteName
  split
  · rw [key _ (fun c hc => h.2 c (List.mem_of_mem_drop hc))]; exact List.take_append_drop 8 n
  · exact key n h.2

theorem intText_ne_nil (i : Int) : intText i ≠ [] := by
  unfold intText; split <;> simp [natDigits_ne_nil]

theorem pyInt_intText (i : Int) (h : 0 ≤ i) : pyInt (intText i) = .ok i := by
  simp [pyInt, parseIntChars_intText i h]

theorem digits_lstrip (i : Int) (h : 0 ≤ i) (x : Text) : lstrip (intText i ++ x) = intText i ++ x :=
  lstrip_head _ x (intText_ne_nil i) (fun c hc => nameRe_not_space c (digit_nameRe c (intText_allDigits i h c hc)))

/-! ### dimensions -/

abbrev Entry := Option Text × Int
def entryText : Entry → Text
  | (some nm, n) => dimText nm n
  | (none, n) => anonText n
def EntryOk (e : Entry) : Prop := 0 ≤ e.2 ∧ ∀ nm, e.1 = some nm → NameOk nm

theorem entries_lstrip (l : List Entry) (rest : Text) :
    lstrip (l.flatMap entryText ++ ';' :: rest) = l.flatMap entryText ++ ';' :: rest := by
  cases l with
  | nil => exact lstrip_cons_nonspace _ (by decide)
  | cons e es =>
    obtain ⟨nm, n⟩ := e
    cases nm <;> exact lstrip_cons_nonspace _ (by decide)

theorem dimensions_nil (fuel : Nat) (rest : Text) : dimensions fuel (';' :: rest) = .ok ([], [], ';' :: rest) := by
  cases fuel <;> simp [dimensions, peekLit_one]

theorem dimensions_entries (l : List Entry) (rest : Text) (fuel : Nat) (hok : ∀ e ∈ l, EntryOk e)
    (hf : l.length ≤ fuel) :
    dimensions fuel (l.flatMap entryText ++ ';' :: rest) = .ok (l.map (·.2), l.filterMap (·.1), ';' :: rest) := by
  induction l generalizing fuel with
  | nil => exact dimensions_nil fuel rest
  | cons e es ih =>
    cases fuel with
    | zero => simp at hf
    | succ f =>
      have hes : ∀ e ∈ es, EntryOk e := fun x hx => hok x (by simp [hx])
      have ih' := ih f hes (by simpa using hf)
      have he := hok e (by simp)
      obtain ⟨nm, n⟩ := e
      have hn : 0 ≤ n := he.1
      generalize hy : es.flatMap entryText ++ ';' :: rest = y at ih'
      have hys : lstrip y = y := by rw [← hy]; exact entries_lstrip es rest
      have hdig : ∀ c ∈ intText n, Pydap.isDigit c = true := intText_allDigits n hn
      cases nm with
      | none =>
        have e1 : ((none, n) :: es : List Entry).flatMap entryText ++ ';' :: rest
            = '[' :: (intText n ++ ']' :: y) := by
          simp [entryText, anonText, ← hy]
        rw [e1]
        have s1 : consumeLit ['['] ('[' :: (intText n ++ ']' :: y)) = .ok (intText n ++ ']' :: y) := by
          rw [consumeLit_one _ _ _ rfl, digits_lstrip n hn]
        have s2 := consumeClass_span isNameRe (intText n) ']' y (fun c hc => digit_nameRe c (hdig c hc))
          (intText_ne_nil n) (by decide)
        rw [lstrip_cons_nonspace _ (by decide)] at s2
        have s3 : consumeLit [']'] (']' :: y) = .ok y := by rw [consumeLit_one _ _ _ rfl, hys]
        simp only [dimensions, peekLit_one, s1, s2, s3, pyInt_intText n hn, ih',
          show decide (lowerC '[' = lowerC ';') = false by decide, Bool.false_eq_true, if_false,
          show decide (lowerC ']' = lowerC '=') = false by decide]
        simp
      | some nm =>
        have hnm : NameOk nm := he.2 nm rfl
        have e1 : ((some nm, n) :: es : List Entry).flatMap entryText ++ ';' :: rest
            = '[' :: (nm ++ ' ' :: ('=' :: ' ' :: (intText n ++ ']' :: y))) := by
          simp [entryText, dimText, ← hy]
        rw [e1]
        have s1 : consumeLit ['['] ('[' :: (nm ++ ' ' :: ('=' :: ' ' :: (intText n ++ ']' :: y))))
            = .ok (nm ++ ' ' :: ('=' :: ' ' :: (intText n ++ ']' :: y))) := by
          rw [consumeLit_one _ _ _ rfl, hnm.lstrip]
        have s2 := consumeClass_span isNameRe nm ' ' ('=' :: ' ' :: (intText n ++ ']' :: y)) hnm.2 hnm.1 (by decide)
        rw [lstrip_cons_space _ (by decide), lstrip_cons_nonspace _ (by decide)] at s2
        have s3 : consumeLit ['='] ('=' :: ' ' :: (intText n ++ ']' :: y)) = .ok (intText n ++ ']' :: y) := by
          rw [consumeLit_one _ _ _ rfl, lstrip_cons_space _ (by decide), digits_lstrip n hn]
        have s4 := consumeClass_span Pydap.isDigit (intText n) ']' y hdig (intText_ne_nil n) (by decide)
        rw [lstrip_cons_nonspace _ (by decide)] at s4
        have s5 : consumeLit [']'] (']' :: y) = .ok y := by rw [consumeLit_one _ _ _ rfl, hys]
        simp only [dimensions, peekLit_one, s1, s2, s3, s4, s5, pyInt_intText n hn, ih',
          show decide (lowerC '[' = lowerC ';') = false by decide, Bool.false_eq_true, if_false,
          show decide (lowerC '=' = lowerC '=') = true by decide, if_true]
        simp

/-! ### type tables -/

def tyOkB (ty : Text) : Bool :=
  !ty.isEmpty && ty.all isWord && (lower ty != "grid".toList) && (lower ty != "sequence".toList)
    && (lower ty != "structure".toList)
    && (match lookup Gen.LOWER_DAP2_TO_NUMPY_PARSER_TYPEMAP (lower ty) with
        | none => false
        | some d => lookup Gen.NUMPY_TO_DAP2_TYPEMAP (dtypeChar d) == some ty)

/-- every DAP2 type name the printer can emit is a word, is not a constructor keyword, is known to the
    parser's table (case-insensitively) and maps back to itself. Re-checked against the tables extracted
    from the working tree on every run. -/
theorem table_ok : ∀ p ∈ Gen.NUMPY_TO_DAP2_TYPEMAP, tyOkB p.2.toList = true := by decide

theorem lookup_mem (tbl : List (String × String)) (k v : Text) (h : lookup tbl k = some v) :
    ∃ p ∈ tbl, p.2.toList = v := by
  induction tbl with
  | nil => simp [lookup] at h
  | cons p ps ih =>
    unfold lookup at h
    split at h
    · exact ⟨p, by simp, by simpa using h⟩
    · obtain ⟨q, hq, e⟩ := ih h; exact ⟨q, by simp [hq], e⟩

structure TyFacts (ty dt : Text) : Prop where
  ne : ty ≠ []
  word : ∀ c ∈ ty, isWord c = true
  notGrid : lower ty ≠ "grid".toList
  notSeq : lower ty ≠ "sequence".toList
  notStruct : lower ty ≠ "structure".toList
  parser : lookup Gen.LOWER_DAP2_TO_NUMPY_PARSER_TYPEMAP (lower ty) = some dt
  back : lookup Gen.NUMPY_TO_DAP2_TYPEMAP (dtypeChar dt) = some ty

theorem tyFacts (k ty : Text) (h : lookup Gen.NUMPY_TO_DAP2_TYPEMAP k = some ty) : ∃ dt, TyFacts ty dt := by
  obtain ⟨p, hp, e⟩ := lookup_mem _ _ _ h
  have := table_ok p hp
  rw [e] at this
  unfold tyOkB at this
  simp only [Bool.and_eq_true, Bool.not_eq_true', List.isEmpty_eq_false_iff, List.all_eq_true, bne_iff_ne, ne_eq] at this
  obtain ⟨⟨⟨⟨⟨h1, h2⟩, h3⟩, h4⟩, h5⟩, h6⟩ := this
  cases hl : lookup Gen.LOWER_DAP2_TO_NUMPY_PARSER_TYPEMAP (lower ty) with
  | none => rw [hl] at h6; simp at h6
  | some d =>
    rw [hl] at h6
    exact ⟨d, ⟨h1, h2, h3, h4, h5, hl, by simpa using h6⟩⟩


/-! ### base variables -/

def BaseOk (b : BaseV) : Prop := NameOk b.name ∧ (∀ d ∈ b.dims, NameOk d) ∧ (∀ n ∈ b.shape, 0 ≤ n)

theorem effShape_mem {b : BaseV} {sq : Nat} {n : Int} (h : n ∈ effShape b sq) : n ∈ b.shape := by
  unfold effShape at h
  split at h
  · exact h
  · exact List.mem_of_mem_drop h

def entries (b : BaseV) (sq : Nat) : List Entry :=
  if b.dims ≠ [] then (b.dims.zip (effShape b sq)).map fun p => (some p.1, p.2)
  else if (effShape b sq).length = 1 then (effShape b sq).map fun n => (some b.name, n)
  else (effShape b sq).map fun n => (none, n)

theorem shapeText_entries (b : BaseV) (sq : Nat) : shapeText b sq = (entries b sq).flatMap entryText := by
  unfold shapeText entries
  generalize effShape b sq = sh
  by_cases h1 : b.dims ≠ []
  · rw [if_pos h1, if_pos h1]; simp only [List.flatMap_map, entryText]
  · rw [if_neg h1, if_neg h1]
    by_cases h2 : sh.length = 1
    · rw [if_pos h2, if_pos h2]; simp only [List.flatMap_map, entryText]
    · rw [if_neg h2, if_neg h2]; simp only [List.flatMap_map, entryText]

theorem normBase_entries (b : BaseV) (sq : Nat) :
    normBase b sq = ⟨b.name, normTy b.dt, (entries b sq).map (·.2), (entries b sq).filterMap (·.1), true⟩ := by
  unfold normBase entries
  generalize effShape b sq = sh
  by_cases h1 : b.dims ≠ []
  · rw [if_pos h1, if_pos h1]; simp [List.filterMap_map, Function.comp_def]
  · rw [if_neg h1, if_neg h1]
    by_cases h2 : sh.length = 1
    · rw [if_pos h2, if_pos h2]; simp [List.filterMap_map, Function.comp_def]
    · rw [if_neg h2, if_neg h2]; simp [List.filterMap_map, Function.comp_def]

theorem entries_ok {b : BaseV} (hb : BaseOk b) (sq : Nat) : ∀ e ∈ entries b sq, EntryOk e := by
  intro e he
  unfold entries at he
  have hsh : ∀ n ∈ effShape b sq, 0 ≤ n := fun n hn => hb.2.2 n (effShape_mem hn)
  split at he
  · simp only [List.mem_map] at he
    obtain ⟨p, hp, rfl⟩ := he
    have := List.of_mem_zip hp
    exact ⟨hsh _ this.2, fun nm h => by cases h; exact hb.2.1 _ this.1⟩
  · split at he <;>
    · simp only [List.mem_map] at he
      obtain ⟨n, hn, rfl⟩ := he
      first
        | exact ⟨hsh _ hn, fun nm h => by cases h; exact hb.1⟩
        | exact ⟨hsh _ hn, fun nm h => by cases h⟩

theorem entryText_len (e : Entry) : 1 ≤ (entryText e).length := by
  obtain ⟨nm, n⟩ := e
  cases nm <;> simp [entryText, dimText, anonText]

theorem entries_len (l : List Entry) : l.length ≤ (l.flatMap entryText).length := by
  induction l with
  | nil => simp
  | cons e es ih =>
    have := entryText_len e
    simp only [List.flatMap_cons, List.length_append, List.length_cons]; omega

theorem entries_head (l : List Entry) (rest : Text) :
    ∃ d r, l.flatMap entryText ++ ';' :: rest = d :: r ∧ notSemiBr d = false := by
  cases l with
  | nil => exact ⟨';', rest, rfl, by decide⟩
  | cons e es =>
    obtain ⟨nm, n⟩ := e
    cases nm with
    | none => exact ⟨'[', _, by simp [entryText, anonText]; rfl, by decide⟩
    | some nm => exact ⟨'[', _, by simp [entryText, dimText]; rfl, by decide⟩

/-- the printer names all dimensions of a declaration or none: `fitDims` keeps what it is given -/
theorem entries_fit (b : BaseV) (sq : Nat) :
    fitDims ((entries b sq).map (·.2)) ((entries b sq).filterMap (·.1)) = (entries b sq).filterMap (·.1) := by
  unfold entries fitDims
  generalize effShape b sq = sh
  by_cases h1 : b.dims ≠ []
  · rw [if_pos h1]; simp [List.filterMap_map, Function.comp_def]
  · rw [if_neg h1]
    by_cases h2 : sh.length = 1
    · rw [if_pos h2]; simp [List.filterMap_map, Function.comp_def]
    · rw [if_neg h2]; simp [List.filterMap_map, Function.comp_def]

theorem base_print (b : BaseV) (level sq : Nat) (s rest : Text) (hp : printBase b level sq = .ok s)
    (hb : BaseOk b) : base (lstrip (s ++ rest)) = .ok (normBase b sq, lstrip rest) := by
  unfold printBase at hp
  cases hl : lookup Gen.NUMPY_TO_DAP2_TYPEMAP (dtypeChar b.dt) with
  | none => rw [hl] at hp; cases hp
  | some ty =>
    rw [hl] at hp
    obtain ⟨dt, tf⟩ := tyFacts _ _ hl
    injection hp with hp
    subst hp
    generalize hE : entries b sq = E
    have hEok : ∀ e ∈ E, EntryOk e := hE ▸ entries_ok hb sq
    have e1 : lstrip ((indent level ++ ty ++ [' '] ++ b.name ++ shapeText b sq ++ [';', '\n']) ++ rest)
        = ty ++ ' ' :: (b.name ++ (E.flatMap entryText ++ ';' :: '\n' :: rest)) := by
      rw [shapeText_entries, hE]
      simp only [List.append_assoc, List.cons_append, List.nil_append]
      rw [lstrip_indent]
      exact lstrip_head ty _ tf.ne (fun c hc => nameRe_not_space c (word_nameRe c (tf.word c hc)))
    rw [e1]
    have s1 := consumeClass_span isWord ty ' ' (b.name ++ (E.flatMap entryText ++ ';' :: '\n' :: rest))
      tf.word tf.ne (by decide)
    rw [lstrip_cons_space _ (by decide), hb.1.lstrip] at s1
    obtain ⟨d, r, hd, hdp⟩ := entries_head E ('\n' :: rest)
    have s2 : consumeClass notSemiBr (b.name ++ (E.flatMap entryText ++ ';' :: '\n' :: rest))
        = .ok (b.name, E.flatMap entryText ++ ';' :: '\n' :: rest) := by
      have := consumeClass_span notSemiBr b.name d r (fun c hc => nameRe_notSemiBr c (hb.1.2 c hc)) hb.1.1 hdp
      rw [← hd, entries_lstrip] at this
      exact this
    have s3 := dimensions_entries E ('\n' :: rest) (E.flatMap entryText ++ ';' :: '\n' :: rest).length hEok
      (by have := entries_len E; simp only [List.length_append]; omega)
    have s4 : consumeLit [';'] (';' :: '\n' :: rest) = .ok (lstrip rest) := by
      rw [consumeLit_one _ _ _ rfl, lstrip_cons_space _ (by decide)]
    have hnt : normTy b.dt = dt := by simp [normTy, hl, tf.parser]
    have hfit := entries_fit b sq
    rw [hE] at hfit
    simp only [base, s1, tf.parser, s2, s3, s4, quoteName_ok hb.1, normBase_entries, hE, hnt, hfit]

end Pydap.Dds
