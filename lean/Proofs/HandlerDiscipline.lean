/-
  C13 — the handler pipeline model (`PydapModel/HandlerSteps.lean`) satisfies the ownership discipline for
  every dataset tree and every request: each logged store goes to an object allocated by the request, each
  read is of an object of the request or of a shared one, and the constrained dataset handed to the response
  holds only such objects.  Invariants: `Ok t` (a tree the request owns: objects and attribute dicts its own,
  data own or shared), `Sh t` (a tree the request may read), `EvsOk t` (a trace of permitted stores).
-/
import PydapModel.HandlerSteps
import Proofs.HandlerSteps
namespace Pydap.HandlerSteps
open Pydap.Sched

/-- a reference the request `t` allocated itself -/
def Mine (t : Nat) (x : Ref) : Prop := x.own = some t
/-- a reference the request `t` may read: its own, or shared -/
def ROk (t : Nat) (x : Ref) : Prop := x.own = some t ∨ x.own = none

theorem Mine.rok {t : Nat} {x : Ref} (h : Mine t x) : ROk t x := Or.inl h

mutual
/-- a tree the request owns: objects and attribute dicts are its own, data objects own or shared -/
def Ok (t : Nat) : Node → Prop
  | .base r a d _ _ => Mine t r ∧ Mine t a ∧ ROk t d
  | .cont _ r a d _ _ ks => Mine t r ∧ Mine t a ∧ ROk t d ∧ OkKids t ks
def OkKids (t : Nat) : Kids → Prop
  | .nil => True
  | .cons n ks => Ok t n ∧ OkKids t ks
end

mutual
/-- a tree the request may read -/
def Sh (t : Nat) : Node → Prop
  | .base r a d _ _ => ROk t r ∧ ROk t a ∧ ROk t d
  | .cont _ r a d _ _ ks => ROk t r ∧ ROk t a ∧ ROk t d ∧ ShKids t ks
def ShKids (t : Nat) : Kids → Prop
  | .nil => True
  | .cons n ks => Sh t n ∧ ShKids t ks
end

mutual
theorem Ok.sh {t : Nat} (n : Node) (h : Ok t n) : Sh t n := by
  cases n with
  | base r a d name arr => simp only [Ok] at h; simp only [Sh]; exact ⟨h.1.rok, h.2.1.rok, h.2.2⟩
  | cont k r a d name vis ks =>
    simp only [Ok] at h; simp only [Sh]
    exact ⟨h.1.rok, h.2.1.rok, h.2.2.1, OkKids.sh ks h.2.2.2⟩
theorem OkKids.sh {t : Nat} (ks : Kids) (h : OkKids t ks) : ShKids t ks := by
  cases ks with
  | nil => simp only [ShKids]
  | cons n ks => simp only [OkKids] at h; simp only [ShKids]; exact ⟨Ok.sh n h.1, OkKids.sh ks h.2⟩
end

mutual
theorem sh_of_allRefs {t : Nat} (n : Node) (h : ∀ x ∈ allRefs n, ROk t x) : Sh t n := by
  cases n with
  | base r a d name arr => simp [allRefs] at h; simp only [Sh]; exact h
  | cont k r a d name vis ks =>
    simp only [allRefs, List.mem_append, List.mem_cons, List.not_mem_nil, or_false] at h
    simp only [Sh]
    refine ⟨h _ (.inl (.inl rfl)), h _ (.inl (.inr (.inl rfl))), h _ (.inl (.inr (.inr rfl))), ?_⟩
    exact shKids_of_allRefs ks (fun x hx => h x (.inr hx))
theorem shKids_of_allRefs {t : Nat} (ks : Kids) (h : ∀ x ∈ allRefsKids ks, ROk t x) : ShKids t ks := by
  cases ks with
  | nil => simp only [ShKids]
  | cons n ks =>
    simp only [allRefsKids, List.mem_append] at h
    simp only [ShKids]
    exact ⟨sh_of_allRefs n (fun x hx => h x (.inl hx)), shKids_of_allRefs ks (fun x hx => h x (.inr hx))⟩
end

mutual
theorem Sh.allRefs {t : Nat} (n : Node) (h : Sh t n) : ∀ x ∈ allRefs n, ROk t x := by
  cases n with
  | base r a d name arr =>
    simp only [Sh] at h
    intro x hx; simp [HandlerSteps.allRefs] at hx
    rcases hx with hx | hx | hx <;> subst hx
    · exact h.1
    · exact h.2.1
    · exact h.2.2
  | cont k r a d name vis ks =>
    simp only [Sh] at h
    intro x hx
    simp only [HandlerSteps.allRefs, List.mem_append, List.mem_cons, List.not_mem_nil, or_false] at hx
    rcases hx with (hx | hx | hx) | hx
    · subst hx; exact h.1
    · subst hx; exact h.2.1
    · subst hx; exact h.2.2.1
    · exact ShKids.allRefs ks h.2.2.2 x hx
theorem ShKids.allRefs {t : Nat} (ks : Kids) (h : ShKids t ks) : ∀ x ∈ allRefsKids ks, ROk t x := by
  cases ks with
  | nil => intro x hx; simp [allRefsKids] at hx
  | cons n ks =>
    simp only [ShKids] at h
    intro x hx
    simp only [allRefsKids, List.mem_append] at hx
    rcases hx with hx | hx
    · exact Sh.allRefs n h.1 x hx
    · exact ShKids.allRefs ks h.2 x hx
end

theorem Ok.allRefs {t : Nat} (n : Node) (h : Ok t n) : ∀ x ∈ allRefs n, ROk t x := Sh.allRefs n (Ok.sh n h)

mutual
theorem Ok.objRefs {t : Nat} (n : Node) (h : Ok t n) : ∀ x ∈ objRefs n, Mine t x := by
  cases n with
  | base r a d name arr =>
    simp only [Ok] at h
    intro x hx; simp [HandlerSteps.objRefs] at hx
    rcases hx with hx | hx <;> subst hx
    · exact h.1
    · exact h.2.1
  | cont k r a d name vis ks =>
    simp only [Ok] at h
    intro x hx
    simp only [HandlerSteps.objRefs, List.mem_append, List.mem_cons, List.not_mem_nil, or_false] at hx
    rcases hx with (hx | hx) | hx
    · subst hx; exact h.1
    · subst hx; exact h.2.1
    · exact OkKids.objRefs ks h.2.2.2 x hx
theorem OkKids.objRefs {t : Nat} (ks : Kids) (h : OkKids t ks) : ∀ x ∈ objRefsKids ks, Mine t x := by
  cases ks with
  | nil => intro x hx; simp [objRefsKids] at hx
  | cons n ks =>
    simp only [OkKids] at h
    intro x hx
    simp only [objRefsKids, List.mem_append] at hx
    rcases hx with hx | hx
    · exact Ok.objRefs n h.1 x hx
    · exact OkKids.objRefs ks h.2 x hx
end

theorem Ok.ref {t : Nat} (n : Node) (h : Ok t n) : Mine t n.ref := by
  cases n <;> simp only [Ok] at h <;> exact h.1

/-! ### events -/

def EvOk (t : Nat) (e : Ev) : Prop := Mine t e.target ∧ ∀ x ∈ e.reads, ROk t x
def EvsOk (t : Nat) (es : List Ev) : Prop := ∀ e ∈ es, EvOk t e

@[simp] theorem EvsOk_nil {t : Nat} : EvsOk t [] := by simp [EvsOk]
@[simp] theorem EvsOk_cons {t : Nat} {e : Ev} {es : List Ev} : EvsOk t (e :: es) ↔ EvOk t e ∧ EvsOk t es := by
  simp [EvsOk]
@[simp] theorem EvsOk_append {t : Nat} {a b : List Ev} : EvsOk t (a ++ b) ↔ EvsOk t a ∧ EvsOk t b := by
  simp [EvsOk, or_imp, forall_and]
@[simp] theorem EvOk_ev {t : Nat} {st cls f : String} {target : Ref} {reads : List Ref} :
    EvOk t (ev st cls f target reads) ↔ Mine t target ∧ ∀ x ∈ reads, ROk t x := Iff.rfl

theorem EvsOk_map {t : Nat} {α : Type} (l : List α) (g : α → Ev) (h : ∀ x, EvOk t (g x)) : EvsOk t (l.map g) := by
  intro e he; simp only [List.mem_map] at he; obtain ⟨x, _, rfl⟩ := he; exact h x

theorem initDap_ok {t : Nat} {st cls : String} {r a : Ref} {src : List Ref}
    (hr : Mine t r) (ha : Mine t a) (hs : ∀ x ∈ src, ROk t x) : EvsOk t (initDap st cls r a src) := by
  simp [initDap, hr, ha]; exact hs

theorem initBase_ok {t : Nat} {st : String} {r a : Ref} {src : List Ref}
    (hr : Mine t r) (ha : Mine t a) (hs : ∀ x ∈ src, ROk t x) : EvsOk t (initBase st r a src) := by
  simp only [initBase, EvsOk_append]
  exact ⟨initDap_ok hr ha hs, EvsOk_map _ _ (fun f => EvOk_ev.2 ⟨hr, hs⟩)⟩

theorem initCont_ok {t : Nat} {st : String} {k : Kind} {r a : Ref} {src : List Ref}
    (hr : Mine t r) (ha : Mine t a) (hs : ∀ x ∈ src, ROk t x) : EvsOk t (initCont st k r a src) := by
  simp only [initCont, EvsOk_append]
  exact ⟨initDap_ok hr ha hs, EvsOk_map _ _ (fun f => EvOk_ev.2 ⟨hr, hs⟩)⟩

mutual
theorem setId_ok {t : Nat} (st : String) (n : Node) (h : Ok t n) : EvsOk t (setId st n) := by
  cases n with
  | base r a d name arr => simp only [Ok] at h; simp [setId, h.1]
  | cont k r a d name vis ks =>
    simp only [Ok] at h
    simp only [setId, EvsOk_cons, EvOk_ev]
    exact ⟨⟨h.1, by simp⟩, setIdKids_ok st vis ks h.2.2.2⟩
theorem setIdKids_ok {t : Nat} (st : String) (vis : List String) (ks : Kids) (h : OkKids t ks) :
    EvsOk t (setIdKids st vis ks) := by
  cases ks with
  | nil => simp [setIdKids]
  | cons n ks =>
    simp only [OkKids] at h
    simp only [setIdKids, EvsOk_append]
    refine ⟨?_, setIdKids_ok st vis ks h.2⟩
    split
    · exact setId_ok st n h.1
    · simp
end

theorem delItem_ok {t : Nat} (st : String) {target : Ref} (ht : Mine t target) : EvsOk t (delItem st target) := by
  simp [delItem, ht]

theorem setItem_ok {t : Nat} (st : String) {target : Ref} {c : Node} (ht : Mine t target) (hc : Ok t c) :
    EvsOk t (setItem st target c) := by
  simp only [setItem, EvsOk_append]
  exact ⟨by simp [ht], setId_ok st c hc⟩

theorem setItemFull_ok {t : Nat} (st : String) {target c : Node} (ht : Ok t target) (hc : Ok t c) :
    EvsOk t (setItemFull st target c) := by
  simp only [setItemFull, EvsOk_append]
  refine ⟨?_, setItem_ok st (Ok.ref _ ht) hc⟩
  split
  · exact delItem_ok st (Ok.ref _ ht)
  · simp

theorem fresh_mine {t : Nat} {st : String} {r : Ref} : Mine t (fresh t st r) := rfl

theorem rok_pair {t : Nat} {r a : Ref} (hr : ROk t r) (ha : ROk t a) : ∀ x ∈ [r, a], ROk t x := by
  intro x hx; simp at hx; rcases hx with rfl | rfl <;> assumption

theorem rok_one {t : Nat} {r : Ref} (hr : ROk t r) : ∀ x ∈ [r], ROk t x := by
  intro x hx; simp at hx; subst hx; assumption

mutual
theorem copyNode_ok {t : Nat} (st : String) (n : Node) (h : Sh t n) :
    Ok t (copyNode t st n).1 ∧ EvsOk t (copyNode t st n).2 := by
  cases n with
  | base r a d name arr =>
    simp only [Sh] at h
    simp only [copyNode, Ok, EvsOk_append, EvsOk_cons, EvOk_ev, EvsOk_nil, and_true]
    exact ⟨⟨fresh_mine, fresh_mine, h.2.2⟩, initBase_ok fresh_mine fresh_mine (rok_pair h.1 h.2.1),
      fresh_mine, rok_one h.1⟩
  | cont k r a d name vis ks =>
    simp only [Sh] at h
    have ih := copyKids_ok st (fresh t st r) fresh_mine ks h.2.2.2
    simp only [copyNode, Ok, EvsOk_append, EvsOk_cons, EvOk_ev, EvsOk_nil, and_true]
    exact ⟨⟨fresh_mine, fresh_mine, h.2.2.1, ih.1⟩, ⟨initCont_ok fresh_mine fresh_mine (rok_pair h.1 h.2.1),
      fresh_mine, rok_one h.1⟩, ih.2⟩
theorem copyKids_ok {t : Nat} (st : String) (parent : Ref) (hp : Mine t parent) (ks : Kids) (h : ShKids t ks) :
    OkKids t (copyKids t st parent ks).1 ∧ EvsOk t (copyKids t st parent ks).2 := by
  cases ks with
  | nil => simp [copyKids, OkKids]
  | cons n ks =>
    simp only [ShKids] at h
    have ih1 := copyNode_ok st n h.1
    have ih2 := copyKids_ok st parent hp ks h.2
    simp only [copyKids, OkKids, EvsOk_append]
    exact ⟨⟨ih1.1, ih2.1⟩, ⟨ih1.2, setItem_ok st hp ih1.1⟩, ih2.2⟩
end

theorem shallowCopy_ok {t : Nat} (st : String) (n : Node) (h : Sh t n) :
    Ok t (shallowCopy t st n).1 ∧ EvsOk t (shallowCopy t st n).2 := by
  cases n with
  | base r a d name arr => exact copyNode_ok st _ h
  | cont k r a d name vis ks =>
    simp only [Sh] at h
    simp only [shallowCopy, Ok, OkKids, EvsOk_append, EvsOk_cons, EvOk_ev, EvsOk_nil, and_true]
    exact ⟨⟨fresh_mine, fresh_mine, h.2.2.1⟩, initCont_ok fresh_mine fresh_mine (rok_pair h.1 h.2.1),
      fresh_mine, rok_one h.1⟩

theorem degenerate_ok {t : Nat} (st : String) (n : Node) (h : Ok t n) :
    Ok t (degenerate t st n).1 ∧ EvsOk t (degenerate t st n).2 := by
  unfold degenerate
  split
  · simp only [Ok] at h
    simp only [Ok, OkKids, and_true]
    exact ⟨⟨rfl, h.2.1, h.2.2.1⟩, initCont_ok rfl h.2.1 (rok_one h.1.rok)⟩
  · exact ⟨h, EvsOk_nil⟩

theorem rok_cons {t : Nat} {d : Ref} {src : List Ref} (hd : ROk t d) (hs : ∀ x ∈ src, ROk t x) :
    ∀ x ∈ d :: src, ROk t x := by
  intro x hx; simp at hx; rcases hx with rfl | hx
  · exact hd
  · exact hs x hx

theorem rok_nil {t : Nat} : ∀ x ∈ ([] : List Ref), ROk t x := by simp

theorem setKidsData_ok {t : Nat} (st : String) (vis : List String) (src : List Ref) (hs : ∀ x ∈ src, ROk t x)
    (ks : Kids) (h : OkKids t ks) :
    OkKids t (setKidsData t st vis src ks).1 ∧ EvsOk t (setKidsData t st vis src ks).2 := by
  cases ks with
  | nil => simp [setKidsData, OkKids]
  | cons n ks =>
    simp only [OkKids] at h
    have ih := setKidsData_ok st vis src hs ks h.2
    cases n with
    | base r a d name arr =>
      have h1 := h.1
      simp only [Ok] at h1
      simp only [setKidsData]
      split
      · simp only [OkKids, Ok, EvsOk_cons, EvOk_ev]
        exact ⟨⟨⟨h1.1, h1.2.1, Or.inl rfl⟩, ih.1⟩, ⟨h1.1, rok_cons h1.2.2 hs⟩, ih.2⟩
      · simp only [OkKids]
        exact ⟨⟨h.1, ih.1⟩, ih.2⟩
    | cont k r a d name v ks' =>
      simp only [setKidsData, OkKids]
      exact ⟨⟨h.1, ih.1⟩, ih.2⟩

theorem setSeqData_ok {t : Nat} (st : String) (src : List Ref) (hs : ∀ x ∈ src, ROk t x) (n : Node) (h : Ok t n) :
    Ok t (setSeqData t st src n).1 ∧ EvsOk t (setSeqData t st src n).2 := by
  cases n with
  | base r a d name arr => simp only [setSeqData]; exact ⟨h, EvsOk_nil⟩
  | cont k r a d name vis ks =>
    simp only [Ok] at h
    have ih := setKidsData_ok st vis (d :: src) (rok_cons h.2.2.1 hs) ks h.2.2.2
    simp only [setSeqData, Ok, EvsOk_cons, EvOk_ev]
    exact ⟨⟨h.1, h.2.1, Or.inl rfl, ih.1⟩, ⟨h.1, rok_cons h.2.2.1 hs⟩, ih.2⟩

theorem selectOnce_ok {t : Nat} (n : Node) (h : Ok t n) :
    Ok t (selectOnce t n).1 ∧ EvsOk t (selectOnce t n).2 := by
  have c := copyNode_ok "selection" n (Ok.sh n h)
  have f := setSeqData_ok "selection" [] rok_nil _ c.1
  have s := setSeqData_ok "selection" [] rok_nil n h
  simp only [selectOnce, EvsOk_append]
  exact ⟨s.1, ⟨c.2, f.2⟩, s.2⟩

theorem selectN_ok {t : Nat} (k : Nat) (n : Node) (h : Ok t n) :
    Ok t (selectN t k n).1 ∧ EvsOk t (selectN t k n).2 := by
  induction k generalizing n with
  | zero => simp only [selectN]; exact ⟨h, EvsOk_nil⟩
  | succ k ih =>
    have a := selectOnce_ok n h
    have b := ih _ a.1
    simp only [selectN, EvsOk_append]
    exact ⟨b.1, a.2, b.2⟩

mutual
theorem applySelection_ok {t : Nat} (cl : String → Nat) (n : Node) (h : Ok t n) :
    Ok t (applySelection t cl n).1 ∧ EvsOk t (applySelection t cl n).2 := by
  cases n with
  | base r a d name arr => simp only [applySelection]; exact ⟨h, EvsOk_nil⟩
  | cont k r a d name vis ks =>
    simp only [applySelection]
    split
    · exact selectN_ok _ _ h
    · simp only [Ok] at h
      have ih := applySelectionKids_ok cl vis ks h.2.2.2
      simp only [Ok]
      exact ⟨⟨h.1, h.2.1, h.2.2.1, ih.1⟩, ih.2⟩
theorem applySelectionKids_ok {t : Nat} (cl : String → Nat) (vis : List String) (ks : Kids) (h : OkKids t ks) :
    OkKids t (applySelectionKids t cl vis ks).1 ∧ EvsOk t (applySelectionKids t cl vis ks).2 := by
  cases ks with
  | nil => simp [applySelectionKids, OkKids]
  | cons n ks =>
    simp only [OkKids] at h
    have ih1 := applySelection_ok cl n h.1
    have ih2 := applySelectionKids_ok cl vis ks h.2
    simp only [applySelectionKids, OkKids, EvsOk_append]
    split
    · exact ⟨⟨ih1.1, ih2.1⟩, ih1.2, ih2.2⟩
    · exact ⟨⟨h.1, ih2.1⟩, EvsOk_nil, ih2.2⟩
end

mutual
theorem wrap_ok {t : Nat} (n : Node) (h : Ok t n) : Ok t (wrap t n).1 ∧ EvsOk t (wrap t n).2 := by
  cases n with
  | base r a d name arr =>
    simp only [Ok] at h
    simp only [wrap]
    split
    · simp only [Ok, EvsOk_cons, EvOk_ev, EvsOk_nil, and_true]
      exact ⟨⟨h.1, h.2.1, Or.inl rfl⟩, h.1, rok_one h.2.2⟩
    · simp only [Ok]; exact ⟨h, EvsOk_nil⟩
  | cont k r a d name vis ks =>
    simp only [Ok] at h
    have ih := wrapKids_ok vis ks h.2.2.2
    simp only [wrap, Ok]
    exact ⟨⟨h.1, h.2.1, h.2.2.1, ih.1⟩, ih.2⟩
theorem wrapKids_ok {t : Nat} (vis : List String) (ks : Kids) (h : OkKids t ks) :
    OkKids t (wrapKids t vis ks).1 ∧ EvsOk t (wrapKids t vis ks).2 := by
  cases ks with
  | nil => simp [wrapKids, OkKids]
  | cons n ks =>
    simp only [OkKids] at h
    have ih1 := wrap_ok n h.1
    have ih2 := wrapKids_ok vis ks h.2
    simp only [wrapKids, OkKids, EvsOk_append]
    split
    · exact ⟨⟨ih1.1, ih2.1⟩, ih1.2, ih2.2⟩
    · exact ⟨⟨h.1, ih2.1⟩, EvsOk_nil, ih2.2⟩
end

/-! ### tree surgery -/

theorem Ok.kids {t : Nat} (n : Node) (h : Ok t n) : OkKids t n.kids := by
  cases n with
  | base r a d name arr => simp [Node.kids, OkKids]
  | cont k r a d name vis ks => simp only [Ok] at h; exact h.2.2.2

theorem find?_ok {t : Nat} (name : String) (ks : Kids) (h : OkKids t ks) (c : Node) (hc : ks.find? name = some c) :
    Ok t c := by
  cases ks with
  | nil => simp [Kids.find?] at hc
  | cons n ks =>
    simp only [OkKids] at h
    simp only [Kids.find?] at hc
    split at hc
    · cases hc; exact h.1
    · exact find?_ok name ks h.2 c hc

theorem child?_ok {t : Nat} {n : Node} {name : String} {c : Node} (h : Ok t n) (hc : n.child? name = some c) :
    Ok t c := find?_ok name n.kids (Ok.kids n h) c hc

theorem nodeAt_ok {t : Nat} (p : List String) {n c : Node} (h : Ok t n) (hc : nodeAt p n = some c) : Ok t c := by
  induction p generalizing n with
  | nil => simp only [nodeAt] at hc; cases hc; exact h
  | cons q qs ih =>
    simp only [nodeAt] at hc
    split at hc
    · rename_i c' hc'
      exact ih (child?_ok h hc') hc
    · cases hc

theorem remove_ok {t : Nat} (name : String) (ks : Kids) (h : OkKids t ks) : OkKids t (ks.remove name) := by
  cases ks with
  | nil => simp [Kids.remove, OkKids]
  | cons n ks =>
    simp only [OkKids] at h
    simp only [Kids.remove]
    split
    · exact remove_ok name ks h.2
    · simp only [OkKids]; exact ⟨h.1, remove_ok name ks h.2⟩

theorem snoc_ok {t : Nat} (c : Node) (hc : Ok t c) (ks : Kids) (h : OkKids t ks) : OkKids t (ks.snoc c) := by
  cases ks with
  | nil => simp only [Kids.snoc, OkKids]; exact ⟨hc, trivial⟩
  | cons n ks =>
    simp only [OkKids] at h
    simp only [Kids.snoc, OkKids]
    exact ⟨h.1, snoc_ok c hc ks h.2⟩

theorem insertChild_ok {t : Nat} (c : Node) (hc : Ok t c) (n : Node) (h : Ok t n) : Ok t (insertChild c n) := by
  cases n with
  | base r a d name arr => simp only [insertChild]; exact h
  | cont k r a d name vis ks =>
    simp only [Ok] at h
    have hk := snoc_ok c hc _ (remove_ok c.name ks h.2.2.2)
    simp only [insertChild]
    split <;> simp only [Ok] <;> exact ⟨h.1, h.2.1, h.2.2.1, hk⟩

mutual
theorem updateAt_ok {t : Nat} (f : Node → Node) (hf : ∀ m, Ok t m → Ok t (f m)) (p : List String) (n : Node)
    (h : Ok t n) : Ok t (updateAt f p n) := by
  cases n with
  | base r a d name arr =>
    cases p with
    | nil => simp only [updateAt]; exact hf _ h
    | cons q qs => simp only [updateAt]; exact h
  | cont k r a d name vis ks =>
    cases p with
    | nil => simp only [updateAt]; exact hf _ h
    | cons q qs =>
      simp only [Ok] at h
      simp only [updateAt, Ok]
      exact ⟨h.1, h.2.1, h.2.2.1, updateKids_ok f hf q qs ks h.2.2.2⟩
theorem updateKids_ok {t : Nat} (f : Node → Node) (hf : ∀ m, Ok t m → Ok t (f m)) (q : String) (qs : List String)
    (ks : Kids) (h : OkKids t ks) : OkKids t (updateKids f q qs ks) := by
  cases ks with
  | nil => simp [updateKids, OkKids]
  | cons n ks =>
    simp only [OkKids] at h
    simp only [updateKids]
    split
    · simp only [OkKids]; exact ⟨updateAt_ok f hf qs n h.1, h.2⟩
    · simp only [OkKids]; exact ⟨h.1, updateKids_ok f hf q qs ks h.2⟩
end

theorem insertAt_ok {t : Nat} (c : Node) (hc : Ok t c) (p : List String) (n : Node) (h : Ok t n) :
    Ok t (updateAt (insertChild c) p n) := updateAt_ok _ (insertChild_ok c hc) p n h

theorem collect_ok {t : Nat} (st : String) (p : Path) (out : Node) (pre : List String) (template : Node)
    (ho : Ok t out) (ht : Ok t template) :
    Ok t (collect t st p out pre template).1 ∧ EvsOk t (collect t st p out pre template).2 := by
  induction p generalizing out pre template with
  | nil => simp only [collect]; exact ⟨ho, EvsOk_nil⟩
  | cons hd rest ih =>
    obtain ⟨name, b⟩ := hd
    simp only [collect]
    split
    · rename_i cand target hc htg
      have hcand := child?_ok ht hc
      have htarget := nodeAt_ok pre ho htg
      split
      · split
        · exact ih out pre template ho ht
        · have r := ih (updateAt (insertChild _) pre out) pre template (insertAt_ok _ hcand pre out ho) ht
          simp only [EvsOk_append]
          exact ⟨r.1, setItemFull_ok st htarget hcand, r.2⟩
      · split
        · exact ih out (pre ++ [name]) _ ho hcand
        · split
          · have r := ih (updateAt (insertChild _) pre out) (pre ++ [name]) _ (insertAt_ok _ hcand pre out ho) hcand
            simp only [EvsOk_append]
            exact ⟨r.1, setItemFull_ok st htarget hcand, r.2⟩
          · have s := shallowCopy_ok st _ (Ok.sh _ hcand)
            have g := degenerate_ok st _ s.1
            have r := ih (updateAt (insertChild _) pre out) (pre ++ [name]) _ (insertAt_ok _ g.1 pre out ho) hcand
            simp only [EvsOk_append]
            exact ⟨r.1, ⟨⟨s.2, g.2⟩, setItemFull_ok st htarget g.1⟩, r.2⟩
    · exact ⟨ho, EvsOk_nil⟩

theorem collectAll_ok {t : Nat} (st : String) (template : Node) (ht : Ok t template) (ps : List Path) (out : Node)
    (ho : Ok t out) :
    Ok t (collectAll t st template ps out).1 ∧ EvsOk t (collectAll t st template ps out).2 := by
  induction ps generalizing out with
  | nil => simp only [collectAll]; exact ⟨ho, EvsOk_nil⟩
  | cons p ps ih =>
    have a := collect_ok st p out [] template ho ht
    have b := ih _ a.1
    simp only [collectAll, EvsOk_append]
    exact ⟨b.1, a.2, b.2⟩

theorem tupleKids_ok {t : Nat} (st : String) (parent : Ref) (hp : Mine t parent) (vis : List String) (ks : Kids)
    (h : OkKids t ks) :
    OkKids t (tupleKids t st parent vis ks).1 ∧ EvsOk t (tupleKids t st parent vis ks).2 := by
  cases ks with
  | nil => simp [tupleKids, OkKids]
  | cons n ks =>
    simp only [OkKids] at h
    have ih := tupleKids_ok st parent hp vis ks h.2
    have c := copyNode_ok st n (Ok.sh n h.1)
    simp only [tupleKids]
    split
    · simp only [OkKids, EvsOk_append]
      exact ⟨⟨c.1, ih.1⟩, ⟨c.2, setItem_ok st hp c.1⟩, ih.2⟩
    · exact ih

theorem fixSeq_ok {t : Nat} (st : String) (n : Node) (h : Ok t n) :
    Ok t (fixSeq t st n).1 ∧ EvsOk t (fixSeq t st n).2 := by
  cases n with
  | base r a d name arr => simp only [fixSeq]; exact ⟨h, EvsOk_nil⟩
  | cont k r a d name vis ks =>
    have h' := h
    simp only [Ok] at h'
    have hr : Mine t (⟨some t, st ++ "/tuple", r.id⟩ : Ref) := rfl
    have ha : Mine t (⟨some t, st ++ "/tuple", a.id⟩ : Ref) := rfl
    have tk := tupleKids_ok st ⟨some t, st ++ "/tuple", r.id⟩ hr vis ks h'.2.2.2
    have htmp : Ok t (.cont k ⟨some t, st ++ "/tuple", r.id⟩ ⟨some t, st ++ "/tuple", a.id⟩ d name vis
        (tupleKids t st ⟨some t, st ++ "/tuple", r.id⟩ vis ks).1) := by
      simp only [Ok]; exact ⟨hr, ha, h'.2.2.1, tk.1⟩
    have f := setSeqData_ok st [] rok_nil _ htmp
    have s := setSeqData_ok st [] rok_nil _ h
    simp only [fixSeq, EvsOk_append]
    exact ⟨s.1, ⟨⟨initCont_ok hr ha (rok_pair h'.1.rok h'.2.1.rok), tk.2⟩, f.2⟩, s.2⟩

mutual
theorem fixSeqs_ok {t : Nat} (st : String) (n : Node) (h : Ok t n) :
    Ok t (fixSeqs t st n).1 ∧ EvsOk t (fixSeqs t st n).2 := by
  cases n with
  | base r a d name arr => simp only [fixSeqs]; exact ⟨h, EvsOk_nil⟩
  | cont k r a d name vis ks =>
    simp only [fixSeqs]
    split
    · exact fixSeq_ok st _ h
    · simp only [Ok] at h
      have ih := fixSeqsKids_ok st vis ks h.2.2.2
      simp only [Ok]
      exact ⟨⟨h.1, h.2.1, h.2.2.1, ih.1⟩, ih.2⟩
theorem fixSeqsKids_ok {t : Nat} (st : String) (vis : List String) (ks : Kids) (h : OkKids t ks) :
    OkKids t (fixSeqsKids t st vis ks).1 ∧ EvsOk t (fixSeqsKids t st vis ks).2 := by
  cases ks with
  | nil => simp [fixSeqsKids, OkKids]
  | cons n ks =>
    simp only [OkKids] at h
    have ih1 := fixSeqs_ok st n h.1
    have ih2 := fixSeqsKids_ok st vis ks h.2
    simp only [fixSeqsKids, OkKids, EvsOk_append]
    split
    · exact ⟨⟨ih1.1, ih2.1⟩, ih1.2, ih2.2⟩
    · exact ⟨⟨h.1, ih2.1⟩, EvsOk_nil, ih2.2⟩
end

theorem Ok.vis_kids_data {t : Nat} (st : String) (m : Node) (h : Ok t m) :
    Ok t (match m with
      | .cont k' r' a' d' n' v' _ => Node.cont k' r' a' d' n' v' (setKidsData t st m.vis [] m.kids).1
      | other => other) ∧ EvsOk t (setKidsData t st m.vis [] m.kids).2 := by
  have f := setKidsData_ok st m.vis [] rok_nil m.kids (Ok.kids m h)
  refine ⟨?_, f.2⟩
  cases m with
  | base r a d name arr => exact h
  | cont k r a d name vis ks =>
    simp only [Ok] at h
    simp only [Ok]
    exact ⟨h.1, h.2.1, h.2.2.1, f.1⟩

theorem sliceNode_ok {t : Nat} (st : String) (parent : Node) (hp : Ok t parent) (n : Node) (h : Ok t n) :
    Ok t (sliceNode t st parent n).1 ∧ EvsOk t (sliceNode t st parent n).2 := by
  have c := copyNode_ok st n (Ok.sh n h)
  cases n with
  | base r a d name arr =>
    have h' := h
    simp only [Ok] at h'
    simp only [sliceNode, Ok, EvsOk_append, EvsOk_cons, EvOk_ev, EvsOk_nil, and_true]
    exact ⟨⟨h'.1, h'.2.1, Or.inl rfl⟩, c.2, ⟨Ok.ref _ c.1, rok_one h'.2.2⟩, h'.1, rok_one h'.2.2⟩
  | cont k r a d name vis ks =>
    simp only [sliceNode]
    split
    · have f := setSeqData_ok st [] rok_nil _ c.1
      simp only [EvsOk_append]
      exact ⟨f.1, ⟨c.2, f.2⟩, setItemFull_ok st hp f.1⟩
    · split
      · have g := Ok.vis_kids_data st _ c.1
        simp only [EvsOk_append]
        exact ⟨g.1, ⟨c.2, g.2⟩, setItemFull_ok st hp g.1⟩
      · exact ⟨h, EvsOk_nil⟩

theorem applySlices_ok {t : Nat} (st : String) (p : Path) (out : Node) (pre : List String) (ho : Ok t out) :
    Ok t (applySlices t st p out pre).1 ∧ EvsOk t (applySlices t st p out pre).2 := by
  induction p generalizing out pre with
  | nil => simp only [applySlices]; exact ⟨ho, EvsOk_nil⟩
  | cons hd rest ih =>
    obtain ⟨name, sl⟩ := hd
    simp only [applySlices]
    split
    · rename_i parent hpar
      have hparent := nodeAt_ok pre ho hpar
      split
      · rename_i target htg
        have htarget := child?_ok hparent htg
        split
        · have s := sliceNode_ok st parent hparent target htarget
          have r := ih (updateAt (insertChild _) pre out) (pre ++ [name]) (insertAt_ok _ s.1 pre out ho)
          simp only [EvsOk_append]
          exact ⟨r.1, s.2, r.2⟩
        · exact ih out _ ho
      · exact ⟨ho, EvsOk_nil⟩
    · exact ⟨ho, EvsOk_nil⟩

theorem applySlicesAll_ok {t : Nat} (st : String) (ps : List Path) (out : Node) (ho : Ok t out) :
    Ok t (applySlicesAll t st ps out).1 ∧ EvsOk t (applySlicesAll t st ps out).2 := by
  induction ps generalizing out with
  | nil => simp only [applySlicesAll]; exact ⟨ho, EvsOk_nil⟩
  | cons p ps ih =>
    have a := applySlices_ok st p out [] ho
    have b := ih _ a.1
    simp only [applySlicesAll, EvsOk_append]
    exact ⟨b.1, a.2, b.2⟩

theorem applyProjection_ok {t : Nat} (st : String) (proj : List Path) (ds : Node) (h : Ok t ds) :
    Ok t (applyProjection t st proj ds).1 ∧ EvsOk t (applyProjection t st proj ds).2 := by
  cases ds with
  | base r a d name arr => simp only [applyProjection]; exact ⟨h, EvsOk_nil⟩
  | cont k r a d name vis ks =>
    have h' := h
    simp only [Ok] at h'
    have hr : Mine t (⟨some t, st ++ "/out", r.id⟩ : Ref) := rfl
    have h0 : Ok t (.cont .dataset ⟨some t, st ++ "/out", r.id⟩ a d name [] .nil) := by
      simp only [Ok, OkKids, and_true]; exact ⟨hr, h'.2.1, h'.2.2.1⟩
    have c := collectAll_ok st _ h proj _ h0
    have f := fixSeqs_ok st _ c.1
    have s := applySlicesAll_ok st proj _ f.1
    simp only [applyProjection, EvsOk_append]
    exact ⟨s.1, ⟨⟨initCont_ok hr h'.2.1 (rok_one h'.1.rok), c.2⟩, f.2⟩, s.2⟩

/-- a served dataset: every object, attribute dict and data object is shared (`own = none`) -/
def Served (ds : Node) : Prop := ∀ x ∈ allRefs ds, x.own = none

theorem Served.sh {ds : Node} (hs : Served ds) (t : Nat) : Sh t ds :=
  sh_of_allRefs ds (fun x hx => Or.inr (hs x hx))

/-- the whole pipeline: the constrained dataset is the request's own (data own or shared), every store goes
    to an object of the request and reads only its own or shared objects -/
theorem pipeline_ok (ds : Node) (hs : Served ds) (t : Nat) (q : Req) :
    Ok t (pipeline t ds q).1 ∧ EvsOk t (pipeline t ds q).2 := by
  have c := copyNode_ok "copy" ds (hs.sh t)
  have s := applySelection_ok (fun id => q.clauses.count id) _ c.1
  have w := wrap_ok _ s.1
  have p := applyProjection_ok "projection" (if q.isFunc || q.proj.isEmpty then allPaths (wrap t (applySelection t
    (fun id => q.clauses.count id) (copyNode t "copy" ds).1).1).1 else q.proj) _ w.1
  simp only [pipeline]
  split
  · have p2 := applyProjection_ok "ssf-projection" q.proj2 _ p.1
    simp only [EvsOk_append]
    exact ⟨p2.1, ⟨⟨⟨c.2, s.2⟩, w.2⟩, p.2⟩, p2.2⟩
  · split
    · have p2 := applyProjection_ok "ssf-projection" [] _ p.1
      simp only [EvsOk_append]
      exact ⟨p2.1, ⟨⟨⟨c.2, s.2⟩, w.2⟩, p.2⟩, p2.2⟩
    · simp only [EvsOk_append]
      exact ⟨p.1, ⟨⟨c.2, s.2⟩, w.2⟩, p.2⟩

theorem pipeline_writes_owned (ds : Node) (hs : Served ds) (t : Nat) (q : Req) :
    ∀ e ∈ (pipeline t ds q).2, e.target.own = some t :=
  fun e he => ((pipeline_ok ds hs t q).2 e he).1

theorem pipeline_reads_ok (ds : Node) (hs : Served ds) (t : Nat) (q : Req) :
    ∀ e ∈ (pipeline t ds q).2, ∀ x ∈ e.reads, x.own = some t ∨ x.own = none :=
  fun e he => ((pipeline_ok ds hs t q).2 e he).2

/-- what the response construction reads is the request's own or shared -/
theorem pipeline_out_reads_ok (ds : Node) (hs : Served ds) (t : Nat) (q : Req) :
    ∀ x ∈ allRefs (pipeline t ds q).1, x.own = some t ∨ x.own = none :=
  Ok.allRefs _ (pipeline_ok ds hs t q).1

/-- the handler model satisfies the ownership audit for every dataset tree and every request -/
theorem program_audit (ds : Node) (hs : Served ds) (t : Nat) (q : Req) :
    auditProg t (program ds t q) = true := by
  have hp := pipeline_ok ds hs t q
  simp only [auditProg, program, List.all_append, List.all_map, Bool.and_eq_true, List.all_eq_true,
    List.mem_singleton, forall_eq, Function.comp, Ev.toStep, emitStep, Bool.or_eq_true, beq_iff_eq]
  refine ⟨fun e he => ⟨?_, ?_⟩, ?_, ?_⟩
  · exact (hp.2 e he).1
  · exact (hp.2 e he).2
  · trivial
  · exact Ok.allRefs _ hp.1

end Pydap.HandlerSteps
