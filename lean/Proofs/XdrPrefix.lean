/-
  C05/C09: the decoder model over the strict `BytesReader` is *prefix-stable*: a successful decode depends
  only on the bytes it consumed (and not on the fuel), so it is unchanged when bytes are appended to the
  stream.  Consequence: no proper prefix of a reference encoding decodes successfully.
-/
import Proofs.XdrDec
namespace Pydap.Xdr
open Pydap.XdrSpec

theorem read_ext (n : Nat) (s q a r : Bytes) (h : read n s = .ok (a, r)) :
    read n (s ++ q) = .ok (a, r ++ q) := by
  unfold read at h ⊢
  split at h
  · cases h
  · next hn =>
    have hn' : n ≤ s.length := by omega
    simp only [Except.ok.injEq, Prod.mk.injEq] at h
    obtain ⟨rfl, rfl⟩ := h
    have : ¬ (s.length + q.length < n) := by omega
    simp [this, List.take_append_of_le_length hn', List.drop_append_of_le_length hn']

theorem readLen_ext (s q : Bytes) (n : Nat) (r : Bytes) (h : readLen s = .ok (n, r)) :
    readLen (s ++ q) = .ok (n, r ++ q) := by
  unfold readLen at h ⊢
  cases hr : read 4 s with
  | error e => simp [hr] at h
  | ok p =>
    obtain ⟨a, b⟩ := p
    rw [read_ext 4 s q a b hr]
    simp only [hr] at h ⊢
    split at h
    · cases h
    · split at h
      · cases h
      · simp only [Except.ok.injEq, Prod.mk.injEq] at h
        obtain ⟨rfl, rfl⟩ := h
        simp [*]

theorem readString_ext (s q t r : Bytes) (h : readString s = .ok (t, r)) :
    readString (s ++ q) = .ok (t, r ++ q) := by
  unfold readString at h ⊢
  cases h1 : readLen s with
  | error e => simp [h1] at h
  | ok p1 =>
    obtain ⟨k, s1⟩ := p1
    rw [readLen_ext s q k s1 h1]
    simp only [h1] at h ⊢
    cases h2 : read k s1 with
    | error e => simp [h2] at h
    | ok p2 =>
      obtain ⟨a, s2⟩ := p2
      rw [read_ext k s1 q a s2 h2]
      simp only [h2] at h ⊢
      cases h3 : asciiDecode a with
      | error e => simp [h3] at h
      | ok u =>
        simp only [h3] at h ⊢
        cases h4 : read (pad4 k) s2 with
        | error e => simp [h4] at h
        | ok p4 =>
          obtain ⟨z, s4⟩ := p4
          rw [read_ext (pad4 k) s2 q z s4 h4]
          simp only [h4, Except.ok.injEq, Prod.mk.injEq] at h ⊢
          obtain ⟨rfl, rfl⟩ := h
          exact ⟨rfl, rfl⟩

theorem readStrings_ext : ∀ (n : Nat) (s q : Bytes) (vs : List Val) (r : Bytes),
    readStrings n s = .ok (vs, r) → readStrings n (s ++ q) = .ok (vs, r ++ q)
  | 0, s, q, vs, r, h => by
    simp only [readStrings, Except.ok.injEq, Prod.mk.injEq] at h ⊢
    obtain ⟨rfl, rfl⟩ := h
    exact ⟨rfl, rfl⟩
  | n + 1, s, q, vs, r, h => by
    unfold readStrings at h ⊢
    cases h1 : readLen s with
    | error e => simp [h1] at h
    | ok p1 =>
      obtain ⟨k, s1⟩ := p1
      rw [readLen_ext s q k s1 h1]
      simp only [h1] at h ⊢
      cases h2 : read k s1 with
      | error e => simp [h2] at h
      | ok p2 =>
        obtain ⟨a, s2⟩ := p2
        rw [read_ext k s1 q a s2 h2]
        simp only [h2] at h ⊢
        cases h4 : read (pad4 k) s2 with
        | error e => simp [h4] at h
        | ok p4 =>
          obtain ⟨z, s4⟩ := p4
          rw [read_ext (pad4 k) s2 q z s4 h4]
          simp only [h4] at h ⊢
          cases h5 : readStrings n s4 with
          | error e => simp [h5] at h
          | ok p5 =>
            obtain ⟨ws, s5⟩ := p5
            rw [readStrings_ext n s4 q ws s5 h5]
            simp only [h5, Except.ok.injEq, Prod.mk.injEq] at h ⊢
            obtain ⟨rfl, rfl⟩ := h
            exact ⟨rfl, rfl⟩

theorem convertStream_ext (ty : Ty) (shape : List Nat) (s q : Bytes) (d : Data) (r : Bytes)
    (h : convertStream ty shape s = .ok (d, r)) : convertStream ty shape (s ++ q) = .ok (d, r ++ q) := by
  unfold convertStream at h ⊢
  split at h
  · rw [if_pos ‹_›]
    cases h1 : readLen s with
    | error e => simp [h1] at h
    | ok p1 =>
      obtain ⟨n, s1⟩ := p1
      rw [readLen_ext s q n s1 h1]
      simp only [h1] at h ⊢
      split at h
      · rw [if_pos ‹_›]
        cases h2 : readStrings n s1 with
        | error e => simp [h2] at h
        | ok p2 =>
          obtain ⟨raw, s2⟩ := p2
          rw [readStrings_ext n s1 q raw s2 h2]
          simp only [h2] at h ⊢
          cases h3 : decodeAll raw with
          | error e => simp [h3] at h
          | ok vs =>
            simp only [h3] at h ⊢
            split at h
            · cases h
            · rw [if_neg ‹_›]
              simp only [Except.ok.injEq, Prod.mk.injEq] at h ⊢
              obtain ⟨rfl, rfl⟩ := h
              exact ⟨rfl, rfl⟩
      · rw [if_neg ‹_›]
        cases h2 : read 4 s1 with
        | error e => simp [h2] at h
        | ok p2 =>
          obtain ⟨a2, s2⟩ := p2
          rw [read_ext 4 s1 q a2 s2 h2]
          simp only [h2] at h ⊢
          cases h3 : read (wireWidth ty * n) s2 with
          | error e => simp [h3] at h
          | ok p3 =>
            obtain ⟨a3, s3⟩ := p3
            rw [read_ext _ s2 q a3 s3 h3]
            simp only [h3] at h ⊢
            cases h4 : fromWireMany ty n a3 with
            | error e => simp [h4] at h
            | ok vs =>
              simp only [h4] at h ⊢
              split at h
              · cases h
              · rw [if_neg ‹_›]
                split at h
                · rw [if_pos ‹_›]
                  cases h5 : read (pad4 n) s3 with
                  | error e => simp [h5] at h
                  | ok p5 =>
                    obtain ⟨a5, s5⟩ := p5
                    rw [read_ext _ s3 q a5 s5 h5]
                    simp only [h5, Except.ok.injEq, Prod.mk.injEq] at h ⊢
                    obtain ⟨rfl, rfl⟩ := h
                    exact ⟨rfl, rfl⟩
                · rw [if_neg ‹_›]
                  simp only [Except.ok.injEq, Prod.mk.injEq] at h ⊢
                  obtain ⟨rfl, rfl⟩ := h
                  exact ⟨rfl, rfl⟩
  · rw [if_neg ‹_›]
    split at h
    · rw [if_pos ‹_›]
      cases h1 : readString s with
      | error e => simp [h1] at h
      | ok p1 =>
        obtain ⟨t, s1⟩ := p1
        rw [readString_ext s q t s1 h1]
        simp only [h1, Except.ok.injEq, Prod.mk.injEq] at h ⊢
        obtain ⟨rfl, rfl⟩ := h
        exact ⟨rfl, rfl⟩
    · rw [if_neg ‹_›]
      cases h1 : read (wireWidth ty) s with
      | error e => simp [h1] at h
      | ok p1 =>
        obtain ⟨a1, s1⟩ := p1
        rw [read_ext _ s q a1 s1 h1]
        simp only [h1] at h ⊢
        cases h2 : fromWire ty a1 with
        | error e => simp [h2] at h
        | ok v =>
          simp only [h2] at h ⊢
          split at h
          · rw [if_pos ‹_›]
            cases h3 : read 3 s1 with
            | error e => simp [h3] at h
            | ok p3 =>
              obtain ⟨a3, s3⟩ := p3
              rw [read_ext _ s1 q a3 s3 h3]
              simp only [h3, Except.ok.injEq, Prod.mk.injEq] at h ⊢
              obtain ⟨rfl, rfl⟩ := h
              exact ⟨rfl, rfl⟩
          · rw [if_neg ‹_›]
            simp only [Except.ok.injEq, Prod.mk.injEq] at h ⊢
            obtain ⟨rfl, rfl⟩ := h
            exact ⟨rfl, rfl⟩

theorem decRowsSimple_ext (cs : List Tmpl) : ∀ (f f' : Nat) (s q : Bytes) (rs : List Data) (r : Bytes),
    decRowsSimple cs f s = .ok (rs, r) → f ≤ f' → decRowsSimple cs f' (s ++ q) = .ok (rs, r ++ q)
  | 0, _, _, _, _, _, h, _ => by simp [decRowsSimple] at h
  | _ + 1, 0, _, _, _, _, _, hf => by omega
  | f + 1, f' + 1, s, q, rs, r, h, hf => by
    unfold decRowsSimple at h ⊢
    cases h1 : read 4 s with
    | error e => simp [h1] at h
    | ok p1 =>
      obtain ⟨m, s1⟩ := p1
      rw [read_ext 4 s q m s1 h1]
      simp only [h1] at h ⊢
      split at h
      · rw [if_pos ‹_›]
        cases h2 : read (recordSize cs) s1 with
        | error e => simp [h2] at h
        | ok p2 =>
          obtain ⟨b, s2⟩ := p2
          rw [read_ext _ s1 q b s2 h2]
          simp only [h2] at h ⊢
          cases h3 : splitRecord cs b with
          | error e => simp [h3] at h
          | ok rec =>
            simp only [h3] at h ⊢
            cases h4 : decRowsSimple cs f s2 with
            | error e => simp [h4] at h
            | ok p4 =>
              obtain ⟨rs', s4⟩ := p4
              rw [decRowsSimple_ext cs f f' s2 q rs' s4 h4 (by omega)]
              simp only [h4, Except.ok.injEq, Prod.mk.injEq] at h ⊢
              obtain ⟨rfl, rfl⟩ := h
              exact ⟨rfl, rfl⟩
      · rw [if_neg ‹_›]
        simp only [Except.ok.injEq, Prod.mk.injEq] at h ⊢
        obtain ⟨rfl, rfl⟩ := h
        exact ⟨rfl, rfl⟩

mutual
theorem dec_ext : ∀ (f f' : Nat) (t : Tmpl) (s q : Bytes) (d : Data) (r : Bytes),
    dec f t s = .ok (d, r) → f ≤ f' → dec f' t (s ++ q) = .ok (d, r ++ q)
  | 0, _, _, _, _, _, _, h, _ => by simp [dec] at h
  | _ + 1, 0, _, _, _, _, _, _, hf => by omega
  | f + 1, f' + 1, .base ty shape, s, q, d, r, h, _ => by
    simp only [dec] at h ⊢
    exact convertStream_ext ty shape s q d r h
  | f + 1, f' + 1, .struct cs, s, q, d, r, h, hf => by
    simp only [dec] at h ⊢
    cases h1 : decs f cs s with
    | error e => simp [h1] at h
    | ok p1 =>
      obtain ⟨ds, s1⟩ := p1
      rw [decs_ext f f' cs s q ds s1 h1 (by omega)]
      simp only [h1, Except.ok.injEq, Prod.mk.injEq] at h ⊢
      obtain ⟨rfl, rfl⟩ := h
      exact ⟨rfl, rfl⟩
  | f + 1, f' + 1, .seq cs, s, q, d, r, h, hf => by
    simp only [dec] at h ⊢
    split at h
    · rw [if_pos ‹_›]
      cases h1 : decRowsSimple cs f s with
      | error e => simp [h1] at h
      | ok p1 =>
        obtain ⟨rs, s1⟩ := p1
        rw [decRowsSimple_ext cs f f' s q rs s1 h1 (by omega)]
        simp only [h1, Except.ok.injEq, Prod.mk.injEq] at h ⊢
        obtain ⟨rfl, rfl⟩ := h
        exact ⟨rfl, rfl⟩
    · rw [if_neg ‹_›]
      cases h1 : decRows f cs s with
      | error e => simp [h1] at h
      | ok p1 =>
        obtain ⟨rs, s1⟩ := p1
        rw [decRows_ext f f' cs s q rs s1 h1 (by omega)]
        simp only [h1, Except.ok.injEq, Prod.mk.injEq] at h ⊢
        obtain ⟨rfl, rfl⟩ := h
        exact ⟨rfl, rfl⟩
theorem decs_ext : ∀ (f f' : Nat) (cs : List Tmpl) (s q : Bytes) (ds : List Data) (r : Bytes),
    decs f cs s = .ok (ds, r) → f ≤ f' → decs f' cs (s ++ q) = .ok (ds, r ++ q)
  | 0, _, _, _, _, _, _, h, _ => by simp [decs] at h
  | _ + 1, 0, _, _, _, _, _, _, hf => by omega
  | f + 1, f' + 1, [], s, q, ds, r, h, _ => by
    simp only [decs, Except.ok.injEq, Prod.mk.injEq] at h ⊢
    obtain ⟨rfl, rfl⟩ := h
    exact ⟨rfl, rfl⟩
  | f + 1, f' + 1, c :: cs, s, q, ds, r, h, hf => by
    simp only [decs] at h ⊢
    cases h1 : dec f c s with
    | error e => simp [h1] at h
    | ok p1 =>
      obtain ⟨d, s1⟩ := p1
      rw [dec_ext f f' c s q d s1 h1 (by omega)]
      simp only [h1] at h ⊢
      cases h2 : decs f cs s1 with
      | error e => simp [h2] at h
      | ok p2 =>
        obtain ⟨ds', s2⟩ := p2
        rw [decs_ext f f' cs s1 q ds' s2 h2 (by omega)]
        simp only [h2, Except.ok.injEq, Prod.mk.injEq] at h ⊢
        obtain ⟨rfl, rfl⟩ := h
        exact ⟨rfl, rfl⟩
theorem decRows_ext : ∀ (f f' : Nat) (cs : List Tmpl) (s q : Bytes) (rs : List Data) (r : Bytes),
    decRows f cs s = .ok (rs, r) → f ≤ f' → decRows f' cs (s ++ q) = .ok (rs, r ++ q)
  | 0, _, _, _, _, _, _, h, _ => by simp [decRows] at h
  | _ + 1, 0, _, _, _, _, _, _, hf => by omega
  | f + 1, f' + 1, cs, s, q, rs, r, h, hf => by
    simp only [decRows] at h ⊢
    cases h1 : read 4 s with
    | error e => simp [h1] at h
    | ok p1 =>
      obtain ⟨m, s1⟩ := p1
      rw [read_ext 4 s q m s1 h1]
      simp only [h1] at h ⊢
      split at h
      · rw [if_pos ‹_›]
        cases h2 : decs f cs s1 with
        | error e => simp [h2] at h
        | ok p2 =>
          obtain ⟨ds, s2⟩ := p2
          rw [decs_ext f f' cs s1 q ds s2 h2 (by omega)]
          simp only [h2] at h ⊢
          cases h3 : decRows f cs s2 with
          | error e => simp [h3] at h
          | ok p3 =>
            obtain ⟨rs', s3⟩ := p3
            rw [decRows_ext f f' cs s2 q rs' s3 h3 (by omega)]
            simp only [h3, Except.ok.injEq, Prod.mk.injEq] at h ⊢
            obtain ⟨rfl, rfl⟩ := h
            exact ⟨rfl, rfl⟩
      · rw [if_neg ‹_›]
        simp only [Except.ok.injEq, Prod.mk.injEq] at h ⊢
        obtain ⟨rfl, rfl⟩ := h
        exact ⟨rfl, rfl⟩
end

/-- **prefix stability**: what `decImpl` returns on `s` it returns on every extension of `s`, the appended
    bytes left unread -/
theorem decImpl_ext (t : Tmpl) (s q : Bytes) (d : Data) (r : Bytes) (h : decImpl t s = .ok (d, r)) :
    decImpl t (s ++ q) = .ok (d, r ++ q) := by
  unfold decImpl at h ⊢
  exact dec_ext _ _ t s q d r h (by simp [fuelFor])

/-- no proper prefix of a reference encoding decodes successfully -/
theorem decImpl_prefix (t : Tmpl) (d : Data) (p q : Bytes) (h : WF t d = true) (he : enc t d = p ++ q)
    (hq : q ≠ []) (x : Data × Bytes) : decImpl t p ≠ .ok x := by
  intro hx
  obtain ⟨d', r'⟩ := x
  have h1 := decImpl_ext t p q d' r' hx
  have h2 := decImpl_enc t d [] h
  rw [List.append_nil, he, h1] at h2
  simp only [Except.ok.injEq, Prod.mk.injEq, List.append_eq_nil_iff] at h2
  exact hq h2.2.2

end Pydap.Xdr
