/-
  The `constrain` pipeline keeps values inside the ranges of their declared types (C06): when every
  value of the source dataset is a value of the DAP2 type its variable / column declares
  (`Dataset.TY`), so is every value of every constrained dataset (`Dataset.TYo`) — hyperslabs,
  selections and record ranges only ever *select* values, projections keep a column together with
  its own type ("fix sequence data" re-reads the rows by column *name*: the column found is the
  first of that name, which is the declared one when column names are unique).
  Consequence (`xdrWF_of_typed`): the declaration / data handed to C05's encoder are in C05's
  domain (`Xdr.WF`), so C05's decoder theorem applies to the payload of every constrained dataset.
-/
import PydapModel.Handler
import Proofs.Handler
import Proofs.HandlerWF
import Proofs.HandlerWire
import Proofs.Arrayterator
namespace Pydap.Handler
open Pydap

/-- `v` is a value of DAP2 type `t` (C05's `wfVal` on the translated value) -/
def okVal (t : Xdr.Ty) (v : Val) : Prop := Xdr.wfVal t (xVal t v) = true

/-- the values an `Arrayterator` left in `var.data` by an earlier hyperslab can still read: the whole underlying array -/
def Base.srcData (b : Base) : List Val :=
  match b.view with
  | none => []
  | some v => v.data

/-- every value of the array — those it shows and those a further hyperslab of the same request could bring back
    from the underlying array — is a value of the declared type -/
def Base.TY (b : Base) : Prop := ∀ v ∈ b.data ++ b.srcData, okVal (tyOf b.ty) v

theorem Base.TY.data {b : Base} (h : b.TY) : ∀ v ∈ b.data, okVal (tyOf b.ty) v :=
  fun v hv => h v (List.mem_append_left _ hv)

def Member.TY : Member → Prop
  | .base b => b.TY
  | .struct _ bs => ∀ b ∈ bs, b.TY

/-- a record: one value per column, each of the column's type -/
def RowTY (cols : List (Str × Str)) (r : List Val) : Prop :=
  List.Forall₂ (fun c v => okVal (tyOf c.2) v) cols r

/-- looking a column up by its name finds that column (names are unique) -/
def ColsFn (cols : List (Str × Str)) : Prop := ∀ c ∈ cols, cols.find? (·.1 = c.1) = some c

/-- typed source variable -/
def Var.TY : Var → Prop
  | .base b => b.TY
  | .struct _ ms => ∀ m ∈ ms, m.TY
  | .grid _ a ms => a.TY ∧ ∀ m ∈ ms, m.TY
  | .seq _ cols rows => ColsFn cols ∧ ∀ r ∈ rows, RowTY cols r

/-- typed constrained variable (the uniqueness of column names is not needed any more) -/
def Var.TYo : Var → Prop
  | .base b => b.TY
  | .struct _ ms => ∀ m ∈ ms, m.TY
  | .grid _ a ms => a.TY ∧ ∀ m ∈ ms, m.TY
  | .seq _ cols rows => ∀ r ∈ rows, RowTY cols r

def Dataset.TY (ds : Dataset) : Prop := ∀ v ∈ ds.vars, v.TY
def Dataset.TYo (ds : Dataset) : Prop := ∀ v ∈ ds.vars, v.TYo

theorem Var.TY.toTYo {v : Var} (h : v.TY) : v.TYo := by
  cases v with
  | seq n cols rows => exact h.2
  | base b => exact h
  | struct n ms => exact h
  | grid n a ms => exact h

/-! ### selection of values -/

theorem mem_selND : ∀ (sh : List Nat) (idx : List (List Nat)) (d : List Val) (v : Val),
    v ∈ selND sh idx d → v ∈ d
  | [], _, d, v, h => by simpa [selND] using h
  | _ :: _, [], d, v, h => by simpa [selND] using h
  | n :: sh, ix :: rest, d, v, h => by
    simp only [selND, List.mem_flatMap] at h
    obtain ⟨i, _, hv⟩ := h
    have := mem_selND sh rest _ v hv
    exact List.mem_of_mem_drop (List.mem_of_mem_take this)

theorem sliceBase_ty (b b' : Base) (sl : List PSlice) (h : b.TY) (hs : sliceBase b sl = .ok b') : b'.TY := by
  unfold sliceBase at hs
  split at hs
  · simp only [Except.ok.injEq] at hs
    subst hs
    have hsrc : ∀ v ∈ b.arrayterator.data, okVal (tyOf b.ty) v := by
      intro v hv
      unfold Base.arrayterator at hv
      cases hvw : b.view with
      | none => rw [hvw] at hv; exact h v (List.mem_append_left _ hv)
      | some vw =>
        rw [hvw] at hv
        exact h v (List.mem_append_right _ (by simp only [Base.srcData, hvw]; exact hv))
    intro v hv
    simp only [Base.srcData, List.mem_append] at hv
    rcases hv with hv | hv
    · exact hsrc v (mem_selND _ _ _ v hv)
    · exact hsrc v hv
  · simp at hs

theorem findMember_ty {v : Var} {m : Str} {b : Member} (hv : v.TYo) (h : findMember v m = some b) : b.TY := by
  cases v with
  | base _ => simp [findMember] at h
  | seq _ _ _ => simp [findMember] at h
  | struct n ms => exact hv b (List.mem_of_find?_eq_some h)
  | grid n a ms =>
    simp only [findMember, Option.map_eq_some_iff] at h
    obtain ⟨x, hx, rfl⟩ := h
    have := List.mem_of_find?_eq_some hx
    simp only [List.mem_cons] at this
    rcases this with rfl | hm
    · exact hv.1
    · exact hv.2 x hm

theorem addMember_ty {ms : List Member} {b : Member} (hms : ∀ m ∈ ms, m.TY) (hb : b.TY) :
    ∀ m ∈ addMember ms b, m.TY := by
  intro m hm
  cases b with
  | base x =>
    simp only [addMember, setMember, List.mem_append, List.mem_filter, List.mem_singleton] at hm
    rcases hm with hm | rfl
    · exact hms m hm.1
    · exact hb
  | struct n bs =>
    simp only [addMember] at hm
    split at hm
    · exact hms m hm
    · simp only [List.mem_append, List.mem_singleton] at hm
      rcases hm with hm | rfl
      · exact hms m hm
      · exact hb

theorem setBase_ty {ms : List Base} {b : Base} (hms : ∀ m ∈ ms, m.TY) (hb : b.TY) :
    ∀ m ∈ setBase ms b, m.TY := by
  intro m hm
  simp only [setBase, List.mem_append, List.mem_filter, List.mem_singleton] at hm
  rcases hm with hm | rfl
  · exact hms m hm.1
  · exact hb

/-! ### `apply_selection` -/

theorem applySelVar_ty (sel : List Str) (v v' : Var) (hv : v.TY) (h : applySelVar sel v = .ok v') : v'.TY := by
  cases v with
  | seq n cols rows =>
    simp only [applySelVar, bind, Except.bind, pure, Except.pure] at h
    cases hf : List.foldlM (filterRows n cols) rows (sel.filter (relevant n)) with
    | error e => simp [hf] at h
    | ok rows' =>
      simp only [hf, Except.ok.injEq] at h
      subst h
      have := foldlM_inv (filterRows n cols) (fun rs => ∀ r ∈ rs, r ∈ rows)
        (fun b a b' hb hfa r hr => hb r (filterRows_mem n cols b b' a hfa r hr)) _ rows rows' (fun r hr => hr) hf
      exact ⟨hv.1, fun r hr => hv.2 r (this r hr)⟩
  | base b => simp only [applySelVar, Except.ok.injEq] at h; subst h; exact hv
  | struct n ms => simp only [applySelVar, Except.ok.injEq] at h; subst h; exact hv
  | grid n a ms => simp only [applySelVar, Except.ok.injEq] at h; subst h; exact hv

theorem applySelection_ty (sel : List Str) (ds ds' : Dataset) (hds : ds.TY)
    (h : applySelection sel ds = .ok ds') : ds'.TY := by
  simp only [applySelection, bind, Except.bind, pure, Except.pure] at h
  cases hm : ds.vars.mapM (applySelVar sel) with
  | error e => simp [hm] at h
  | ok vs =>
    simp only [hm, Except.ok.injEq] at h
    subst h
    intro v hv
    obtain ⟨x, hx, hfx⟩ := mapM_ok_mem _ _ _ hm v hv
    exact applySelVar_ty sel x v (hds x hx) hfx

/-! ### the collect pass -/

/-- what the collect pass guarantees: arrays, structures and grids are typed; a collected sequence
    holds columns of the source sequence of its name, each the one a lookup by name finds -/
def Var.TY' (src : Dataset) : Var → Prop
  | .seq n cols _ => ∃ n' scols srows, findVar src.vars n = some (.seq n' scols srows) ∧
      ∀ c ∈ cols, scols.find? (·.1 = c.1) = some c
  | v => v.TYo

theorem findVar_name {vs : List Var} {n : Str} {v : Var} (h : findVar vs n = some v) : v.name = n := by
  unfold findVar at h
  have h0 := List.find?_some h
  exact of_decide_eq_true h0

theorem TY_toTY' (src : Dataset) {v : Var} {n : Str} (h : v.TY) (hf : findVar src.vars n = some v) : v.TY' src := by
  cases v with
  | seq n' cols rows =>
    have hn : n' = n := findVar_name hf
    subst hn
    exact ⟨n', cols, rows, hf, h.1⟩
  | base b => exact h
  | struct n ms => exact h
  | grid n a ms => exact h

theorem map_replace_all {P : Var → Prop} (out : List Var) (n : Str) (w : Var) (hout : ∀ v ∈ out, P v) (hw : P w) :
    ∀ v ∈ out.map (fun v => if v.name = n then w else v), P v := by
  intro v hv
  simp only [List.mem_map] at hv
  obtain ⟨x, hx, rfl⟩ := hv
  split
  · exact hw
  · exact hout x hx

theorem collect1Core_ty' (src : Dataset) (hsrc : src.TY) (out out' : List Var) (p : ProjItem)
    (hout : ∀ v ∈ out, v.TY' src) (h : collect1Core src out p = .ok out') : ∀ v ∈ out', v.TY' src := by
  unfold collect1Core at h
  split at h
  · simp at h
  · simp only [Except.ok.injEq] at h; subst h; exact hout
  · -- one part
    split at h
    · simp at h
    · rename_i b hf
      simp only [Except.ok.injEq] at h; subst h
      exact setVar_all out _ hout (TY_toTY' src (hsrc _ (findVar_mem hf)) hf)
    · rename_i v _ hf
      split at h
      · simp only [Except.ok.injEq] at h; subst h; exact hout
      · simp only [Except.ok.injEq] at h; subst h
        exact append_all out _ hout (TY_toTY' src (hsrc _ (findVar_mem hf)) hf)
  · -- two parts
    split at h
    · simp at h
    · simp at h
    · -- sequence column
      rename_i n' cols srows hf
      split at h
      · simp at h
      · rename_i c hc
        have hcc : cols.find? (·.1 = c.1) = some c := by
          have h0 := List.find?_some hc
          have hm := of_decide_eq_true h0
          rw [hm]; exact hc
        split at h
        · simp only [Except.ok.injEq] at h; subst h
          refine append_all out _ hout ⟨n', cols, srows, hf, ?_⟩
          intro x hx; simp at hx; subst hx; exact hcc
        · rename_i cs rows ho
          simp only [Except.ok.injEq] at h; subst h
          have hn := findVar_name ho
          simp only [Var.name] at hn
          obtain ⟨n'', scols, srows', hf', hcs⟩ := (hout _ (findVar_mem ho) : (Var.seq _ cs rows).TY' src)
          rw [hn] at hf'
          rw [hf] at hf'
          simp only [Option.some.injEq, Var.seq.injEq] at hf'
          obtain ⟨_, rfl, _⟩ := hf'
          refine map_replace_all out _ _ hout ⟨n', cols, srows, hf, ?_⟩
          intro x hx
          simp only [List.mem_append, List.mem_filter, List.mem_singleton] at hx
          rcases hx with hx | rfl
          · exact hcs x hx.1
          · exact hcc
        · simp at h
    · -- structure / grid member
      rename_i v _ _ hf
      split at h
      · simp at h
      · rename_i mem hb
        have hbty : mem.TY := findMember_ty (hsrc _ (findVar_mem hf)).toTYo hb
        split at h
        · simp only [Except.ok.injEq] at h; subst h
          refine append_all out _ hout ?_
          show ∀ m ∈ [mem], m.TY
          intro m hm; simp at hm; subst hm; exact hbty
        · rename_i ms ho
          simp only [Except.ok.injEq] at h; subst h
          have hms : ∀ m ∈ ms, m.TY := hout _ (findVar_mem ho)
          exact map_replace_all out _ _ hout (show (Var.struct _ _).TY' src from addMember_ty hms hbty)
        · rename_i a ms ho
          split at h
          · simp only [Except.ok.injEq] at h; subst h; exact hout
          · simp at h
        · simp at h
  · -- three parts: a member of a structure nested in a structure
    split at h
    · simp at h
    · rename_i sms hf
      have hsms : ∀ m ∈ sms, m.TY := hsrc _ (findVar_mem hf)
      split at h
      · simp at h
      · simp at h
      · rename_i bs hfm
        have hbs : ∀ b ∈ bs, b.TY := hsms _ (List.mem_of_find?_eq_some hfm)
        split at h
        · simp at h
        · rename_i b hfb
          have hb : b.TY := hbs _ (List.mem_of_find?_eq_some hfb)
          have hnew : ∀ nm, (Member.struct nm [b]).TY := by
            intro nm x hx; simp at hx; subst hx; exact hb
          split at h
          · simp only [Except.ok.injEq] at h; subst h
            refine append_all out _ hout ?_
            show ∀ m ∈ [Member.struct _ [b]], m.TY
            intro m hm; simp at hm; subst hm; exact hnew _
          · rename_i ms ho
            have hms : ∀ m ∈ ms, m.TY := hout _ (findVar_mem ho)
            split at h
            · simp only [Except.ok.injEq] at h; subst h
              refine map_replace_all out _ _ hout (show (Var.struct _ _).TY' src from ?_)
              intro m hm
              simp only [List.mem_append, List.mem_singleton] at hm
              rcases hm with hm | rfl
              · exact hms m hm
              · exact hnew _
            · rename_i obs hfo
              have hobs : ∀ b ∈ obs, b.TY := hms _ (List.mem_of_find?_eq_some hfo)
              simp only [Except.ok.injEq] at h; subst h
              refine map_replace_all out _ _ hout (show (Var.struct _ _).TY' src from ?_)
              intro m hm
              simp only [List.mem_map] at hm
              obtain ⟨x, hx, rfl⟩ := hm
              split
              · exact setBase_ty hobs hb
              · exact hms x hx
            · simp at h
          · simp at h
    · simp at h
  · simp at h

theorem collect1_ty' (src : Dataset) (hsrc : src.TY) (out out' : List Var) (p : ProjItem)
    (hout : ∀ v ∈ out, v.TY' src) (h : collect1 src out p = .ok out') : ∀ v ∈ out', v.TY' src := by
  unfold collect1 at h
  split at h
  · split at h
    · simp at h
    · exact collect1Core_ty' src hsrc out out' _ hout h
  · exact collect1Core_ty' src hsrc out out' _ hout h

/-! ### "fix sequence data": the rows re-read by column name carry the columns' own types -/

theorem find_findIdx {α : Type} (p : α → Bool) : ∀ (l : List α) (c : α) (i : Nat),
    l.find? p = some c → l.findIdx? p = some i → l[i]? = some c
  | [], _, _, h, _ => by simp at h
  | a :: l, c, i, h, hi => by
    simp only [List.find?_cons, List.findIdx?_cons] at h hi
    cases hp : p a with
    | true => simp [hp] at h hi; subst h; subst hi; rfl
    | false =>
      simp only [hp] at h hi
      simp only [Bool.false_eq_true, if_false, Option.map_eq_some_iff] at hi
      obtain ⟨j, hj, rfl⟩ := hi
      simpa using find_findIdx p l c j h hj

theorem forall2_getElem {α β : Type} {R : α → β → Prop} : ∀ {l : List α} {r : List β}, List.Forall₂ R l r →
    ∀ (i : Nat) (a : α) (b : β), l[i]? = some a → r[i]? = some b → R a b
  | _, _, .nil, i, a, b, ha, _ => by simp at ha
  | _, _, .cons h t, 0, a, b, ha, hb => by
    simp at ha hb; subst ha; subst hb; exact h
  | _, _, .cons h t, i + 1, a, b, ha, hb => by
    simp at ha hb; exact forall2_getElem t i a b ha hb

/-- the row `idx.mapM (sr[·]?)` read through the indices `cols.mapM (colIndex scols ·.1)` -/
theorem reread_row (scols : List (Str × Str)) (sr : List Val) (hsr : RowTY scols sr) :
    ∀ (cols : List (Str × Str)) (idx : List Nat) (r : List Val),
    (∀ c ∈ cols, scols.find? (·.1 = c.1) = some c) →
    cols.mapM (fun c => colIndex scols c.1) = some idx → idx.mapM (fun i => sr[i]?) = some r → RowTY cols r
  | [], idx, r, _, hi, hr => by
    simp at hi; subst hi; simp at hr; subst hr; exact .nil
  | c :: cols, idx, r, hc, hi, hr => by
    simp only [List.mapM_cons, Option.bind_eq_bind, Option.pure_def, Option.bind_eq_some_iff] at hi
    obtain ⟨i, hci, is, his, hidx⟩ := hi
    simp only [Option.some.injEq] at hidx
    subst hidx
    simp only [List.mapM_cons, Option.bind_eq_bind, Option.pure_def, Option.bind_eq_some_iff] at hr
    obtain ⟨v, hv, vs, hvs, hr⟩ := hr
    simp only [Option.some.injEq] at hr
    subst hr
    refine .cons ?_ (reread_row scols sr hsr cols is vs (fun x hx => hc x (by simp [hx])) his hvs)
    have hget : scols[i]? = some c := find_findIdx _ scols c i (hc c (by simp)) hci
    exact forall2_getElem hsr i c v hget hv

theorem fixSeqData_ty (src : Dataset) (hsrc : src.TY) (v v' : Var) (hv : v.TY' src)
    (h : fixSeqData src v = .ok v') : v'.TYo := by
  cases v with
  | base b => simp only [fixSeqData, Except.ok.injEq] at h; subst h; exact hv
  | struct n ms => simp only [fixSeqData, Except.ok.injEq] at h; subst h; exact hv
  | grid n a ms => simp only [fixSeqData, Except.ok.injEq] at h; subst h; exact hv
  | seq n cols rows =>
    obtain ⟨n', scols0, srows0, hf0, hcols⟩ := hv
    simp only [fixSeqData] at h
    split at h
    · rename_i n'' scols srows hf
      rw [hf0] at hf
      simp only [Option.some.injEq, Var.seq.injEq] at hf
      obtain ⟨_, rfl, rfl⟩ := hf
      have hsty : (Var.seq n' scols0 srows0).TY := hsrc _ (findVar_mem hf0)
      split at h
      · simp at h
      · rename_i idx hidx
        split at h
        · simp at h
        · rename_i rows' hrows
          simp only [Except.ok.injEq] at h; subst h
          intro r hr
          obtain ⟨sr, hsrm, hsr⟩ := optMapM_mem _ _ _ hrows r hr
          exact reread_row scols0 sr (hsty.2 sr hsrm) cols idx r hcols hidx hsr
    · simp at h

/-! ### the slice pass -/

theorem sliceGrid_ty (a : Base) (ms : List Base) (sl : List PSlice) (r : Base × List Base)
    (ha : a.TY) (hms : ∀ m ∈ ms, m.TY) (h : sliceGrid a ms sl = .ok r) : r.1.TY ∧ ∀ m ∈ r.2, m.TY := by
  unfold sliceGrid at h
  simp only [bind, Except.bind, pure, Except.pure] at h
  cases hsa : sliceBase a sl with
  | error e => simp [hsa] at h
  | ok a' =>
    simp only [hsa] at h
    split at h
    · simp at h
    · rename_i ms' hm
      simp only [Except.ok.injEq] at h
      subst h
      refine ⟨sliceBase_ty a a' sl ha hsa, ?_⟩
      intro m hmem
      simp only [List.mem_append] at hmem
      rcases hmem with hmem | hmem
      · obtain ⟨x, hx, hfx⟩ := mapM_ok_mem _ _ _ hm m hmem
        obtain ⟨x1, x2⟩ := x
        simp only at hfx
        split at hfx
        · rename_i m' hs
          simp only [Except.ok.injEq] at hfx
          subst hfx
          exact sliceBase_ty x1 _ [x2] (hms _ (List.of_mem_zip hx).1) hs
        · simp at hfx
      · exact hms m (List.mem_of_mem_drop hmem)

theorem slice1_ty (out out' : List Var) (p : ProjItem) (hout : ∀ v ∈ out, v.TYo)
    (h : slice1 out p = .ok out') : ∀ v ∈ out', v.TYo := by
  unfold slice1 at h
  split at h
  · simp at h
  · simp only [Except.ok.injEq] at h; subst h; exact hout
  · -- one part
    split at h
    · simp only [Except.ok.injEq] at h; subst h; exact hout
    · split at h
      · simp at h
      · rename_i b hf
        simp only [bind, Except.bind, pure, Except.pure] at h
        split at h
        · simp at h
        · rename_i b' hs
          simp only [Except.ok.injEq] at h; subst h
          have hb : b.TY := hout _ (findVar_mem hf)
          exact map_replace_all out _ _ hout (show (Var.base b').TYo from sliceBase_ty b b' _ hb hs)
      · rename_i cols rows hf
        have hr : ∀ r ∈ rows, RowTY cols r := hout _ (findVar_mem hf)
        split at h
        · split at h
          · simp only [Except.ok.injEq] at h; subst h
            refine setVar_all out _ hout (show (Var.seq _ _ _).TYo from ?_)
            intro r hrm
            simp only [List.mem_filterMap] at hrm
            obtain ⟨i, _, hi⟩ := hrm
            exact hr r (List.mem_of_getElem? hi)
          · simp at h
        · simp only [Except.ok.injEq] at h; subst h; exact hout
      · rename_i a ms hf
        have hg : a.TY ∧ ∀ m ∈ ms, m.TY := hout _ (findVar_mem hf)
        simp only [bind, Except.bind, pure, Except.pure] at h
        split at h
        · simp at h
        · rename_i r hs
          simp only [Except.ok.injEq] at h; subst h
          exact setVar_all out _ hout (show (Var.grid _ _ _).TYo from sliceGrid_ty a ms _ r hg.1 hg.2 hs)
      · simp at h
  · -- two parts
    split at h
    · split at h <;> simp at h
    · split at h
      · simp only [Except.ok.injEq] at h; subst h; exact hout
      · split at h
        · rename_i ms hf
          have hms : ∀ m ∈ ms, m.TY := hout _ (findVar_mem hf)
          split at h
          · simp at h
          · simp at h
          · rename_i b hb
            obtain ⟨b', hs, rfl⟩ := bind_pure_ok _ _ _ h
            have hbty : b.TY := hms _ (List.mem_of_find?_eq_some hb)
            refine map_replace_all out _ _ hout (show (Var.struct _ _).TYo from ?_)
            intro m hm
            simp only [List.mem_map] at hm
            obtain ⟨x, hx, rfl⟩ := hm
            split
            · exact sliceBase_ty b b' _ hbty hs
            · exact hms x hx
        · simp at h
  · -- three parts
    split at h
    · rename_i ms hf
      have hms : ∀ m ∈ ms, m.TY := hout _ (findVar_mem hf)
      split at h
      · simp at h
      · split at h
        · rename_i bs hfm
          have hbs : ∀ b ∈ bs, b.TY := hms _ (List.mem_of_find?_eq_some hfm)
          split at h
          · simp at h
          · split at h
            · simp only [Except.ok.injEq] at h; subst h; exact hout
            · split at h
              · simp at h
              · rename_i b hb
                obtain ⟨b', hs, rfl⟩ := bind_pure_ok _ _ _ h
                have hbty : b.TY := hbs _ (List.mem_of_find?_eq_some hb)
                refine map_replace_all out _ _ hout (show (Var.struct _ _).TYo from ?_)
                intro m hm
                simp only [List.mem_map] at hm
                obtain ⟨x, hx, rfl⟩ := hm
                split
                · show ∀ y ∈ _, Base.TY y
                  intro y hy
                  simp only [List.mem_map] at hy
                  obtain ⟨z, hz, rfl⟩ := hy
                  split
                  · exact sliceBase_ty b b' _ hbty hs
                  · exact hbs z hz
                · exact hms x hx
        · simp at h
    · simp at h
  · simp at h

/-! ### the whole pipeline -/

theorem applyProjection_ty (proj : List ProjItem) (src out : Dataset) (hsrc : src.TY)
    (h : applyProjection proj src = .ok out) : out.TYo := by
  simp only [applyProjection, bind, Except.bind, pure, Except.pure] at h
  cases h1 : List.foldlM (collect1 src) [] proj with
  | error e => simp [h1] at h
  | ok o1 =>
    simp only [h1] at h
    cases h2 : o1.mapM (fixSeqData src) with
    | error e => simp [h2] at h
    | ok o2 =>
      simp only [h2] at h
      cases h3 : List.foldlM slice1 o2 proj with
      | error e => simp [h3] at h
      | ok o3 =>
        simp only [h3, Except.ok.injEq] at h
        subst h
        have w1 : ∀ v ∈ o1, v.TY' src :=
          foldlM_inv (collect1 src) (fun o => ∀ v ∈ o, v.TY' src)
            (fun b a b' hb hfa => collect1_ty' src hsrc b b' a hb hfa) proj [] o1 (by simp) h1
        have w2 : ∀ v ∈ o2, v.TYo := by
          intro v hv
          obtain ⟨x, hx, hfx⟩ := mapM_ok_mem _ _ _ h2 v hv
          exact fixSeqData_ty src hsrc x v (w1 x hx) hfx
        exact foldlM_inv slice1 (fun o => ∀ v ∈ o, v.TYo)
          (fun b a b' hb hfa => slice1_ty b b' a hb hfa) proj o2 o3 w2 h3

theorem constrain_ty (ds cds : Dataset) (proj : List ProjItem) (sel : List Str) (hds : ds.TY)
    (h : constrain ds proj sel = .ok cds) : cds.TYo := by
  simp only [constrain, bind, Except.bind] at h
  cases h1 : applySelection sel ds with
  | error e => simp [h1] at h
  | ok ds1 =>
    simp only [h1] at h
    have w1 := applySelection_ty sel ds ds1 hds h1
    split at h
    · simp only [pure, Except.pure] at h
      exact applyProjection_ty _ ds1 cds w1 h
    · split at h
      · simp at h
      · exact applyProjection_ty _ ds1 cds w1 h

/-- **the constraint pipeline keeps every value a value of its declared type** -/
theorem constrained_ty (ds cds : Dataset) (q : Str) (hds : ds.TY) (h : constrained ds q = .ok cds) :
    cds.TYo := by
  unfold constrained at h
  split at h
  · simp at h
  · exact constrain_ty ds cds _ _ hds h

/-! ### typed, well-formed, non-degenerate ⇒ C05's domain -/

/-- what C05's domain asks of the *declaration*: no empty container, fewer than 2^31 elements per array -/
def Base.Small (b : Base) : Prop := prod b.shape < 2147483648

def Member.Shaped : Member → Prop
  | .base b => b.Small
  | .struct _ bs => bs ≠ [] ∧ ∀ b ∈ bs, b.Small

def Var.Shaped : Var → Prop
  | .base b => b.Small
  | .struct _ ms => ms ≠ [] ∧ ∀ m ∈ ms, m.Shaped
  | .grid _ a ms => a.Small ∧ ∀ m ∈ ms, m.Small
  | .seq _ cols _ => cols ≠ []

def Dataset.Shaped (ds : Dataset) : Prop := ds.vars ≠ [] ∧ ∀ v ∈ ds.vars, v.Shaped

theorem prod_eq : ∀ l : List Nat, Xdr.prod l = prod l
  | [] => rfl
  | a :: l => by simp [prod, Xdr.prod, prod_eq l]

theorem WFs_map {α : Type} (f : α → Xdr.Tmpl) (g : α → Xdr.Data) :
    ∀ l : List α, (∀ x ∈ l, Xdr.WF (f x) (g x) = true) → Xdr.WFs (l.map f) (l.map g) = true
  | [], _ => by simp [Xdr.WFs]
  | x :: xs, h => by
    simp only [List.map_cons, Xdr.WFs, Bool.and_eq_true]
    exact ⟨h x (by simp), WFs_map f g xs (fun y hy => h y (by simp [hy]))⟩

theorem base_xdrWF (b : Base) (hw : b.WF) (ht : b.TY) (hs : b.Small) :
    Xdr.WF (tmplOfBase b) (dataOfBase b) = true := by
  cases hsh : b.shape with
  | nil =>
    obtain ⟨v, hv⟩ := prod_nil_data hw hsh
    simp only [tmplOfBase, dataOfBase, xValR_fun, xValR_eq, hsh, hv, Xdr.WF]
    exact ht v (by simp [hv])
  | cons n ns =>
    simp only [tmplOfBase, dataOfBase, xValR_fun, xValR_eq, hsh, Xdr.WF, Bool.and_eq_true, beq_iff_eq, List.length_map,
      decide_eq_true_eq, List.all_eq_true, List.mem_map]
    have hl : b.data.length = prod (n :: ns) := by rw [← hsh]; exact hw.1
    refine ⟨⟨by rw [prod_eq]; exact hl, ?_⟩, ?_⟩
    · rintro x ⟨v, hv, rfl⟩
      exact ht v (List.mem_append_left _ hv)
    · rw [hl, ← hsh]; exact hs

theorem row_xdrWFs : ∀ (cols : List (Str × Str)) (r : List Val), RowTY cols r →
    Xdr.WFs (cols.map fun c => Xdr.Tmpl.base (tyOf c.2) [])
      (List.zipWith (fun c v => Xdr.Data.scalar (xVal (tyOf c.2) v)) cols r) = true
  | _, _, .nil => by simp [Xdr.WFs]
  | _, _, .cons h t => by
    simp only [List.map_cons, List.zipWith_cons_cons, Xdr.WFs, Xdr.WF, Bool.and_eq_true]
    exact ⟨h, row_xdrWFs _ _ t⟩

theorem rows_xdrWF (cols : List (Str × Str)) : ∀ rows : List (List Val), (∀ r ∈ rows, RowTY cols r) →
    Xdr.WFrows (cols.map fun c => Xdr.Tmpl.base (tyOf c.2) []) (rows.map (dataOfRow cols)) = true
  | [], _ => by simp [Xdr.WFrows]
  | r :: rs, h => by
    simp only [List.map_cons, dataOfRow, Xdr.WFrows, Bool.and_eq_true]
    exact ⟨row_xdrWFs cols r (h r (by simp)), rows_xdrWF cols rs (fun x hx => h x (by simp [hx]))⟩

theorem seqCols_scalars : ∀ cols : List (Str × Str),
    Xdr.seqCols (cols.map fun c => Xdr.Tmpl.base (tyOf c.2) []) = true
  | [] => rfl
  | c :: cs => by simp [Xdr.seqCols, seqCols_scalars cs]

theorem member_xdrWF (m : Member) (hw : m.WF) (ht : m.TY) (hs : m.Shaped) :
    Xdr.WF (tmplOfMember m) (dataOfMember m) = true := by
  cases m with
  | base b => exact base_xdrWF b hw ht hs
  | struct k bs =>
    simp only [tmplOfMember, dataOfMember, Xdr.WF, Bool.and_eq_true, Bool.not_eq_true', List.isEmpty_eq_false_iff,
      ne_eq, List.map_eq_nil_iff]
    exact ⟨hs.1, WFs_map _ _ bs (fun b hb => base_xdrWF b (hw b hb) (ht b hb) (hs.2 b hb))⟩

theorem var_xdrWF (v : Var) (hw : v.WF) (ht : v.TYo) (hs : v.Shaped) :
    Xdr.WF (tmplOfVar v) (dataOfVar v) = true := by
  cases v with
  | base b => exact base_xdrWF b hw ht hs
  | struct n ms =>
    simp only [tmplOfVar, dataOfVar, Xdr.WF, Bool.and_eq_true, Bool.not_eq_true', List.isEmpty_eq_false_iff,
      ne_eq, List.map_eq_nil_iff]
    exact ⟨hs.1, WFs_map _ _ ms (fun m hm => member_xdrWF m (hw m hm) (ht m hm) (hs.2 m hm))⟩
  | grid n a ms =>
    simp only [tmplOfVar, dataOfVar, Xdr.WF, Xdr.WFs, Bool.and_eq_true, Bool.not_eq_true', List.isEmpty_cons, true_and]
    exact ⟨base_xdrWF a hw.1 ht.1 hs.1, WFs_map _ _ ms (fun m hm => base_xdrWF m (hw.2 m hm) (ht.2 m hm) (hs.2 m hm))⟩
  | seq n cols rows =>
    simp only [tmplOfVar, dataOfVar, Xdr.WF, Bool.and_eq_true, Bool.not_eq_true', List.isEmpty_eq_false_iff,
      ne_eq, List.map_eq_nil_iff]
    exact ⟨⟨hs, seqCols_scalars cols⟩, rows_xdrWF cols rows ht⟩

/-- a well-formed, typed, non-degenerate dataset is a value of its declaration in C05's sense -/
theorem xdrWF_of_typed (ds : Dataset) (hw : ds.WF) (ht : ds.TYo) (hs : ds.Shaped) :
    Xdr.WF (tmplOf ds) (dataOf ds) = true := by
  simp only [tmplOf, dataOf, Xdr.WF, Bool.and_eq_true, Bool.not_eq_true', List.isEmpty_eq_false_iff,
    ne_eq, List.map_eq_nil_iff]
  exact ⟨hs.1, WFs_map _ _ ds.vars (fun v hv => var_xdrWF v (hw v hv) (ht v hv) (hs.2 v hv))⟩

end Pydap.Handler
