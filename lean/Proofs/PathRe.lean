import PydapModel.Path
import PydapModel.PathRe
/-
  C16 — the handlers' regular expressions `^.*\.(e1|e2|…)$` (IGNORECASE), matched atom by atom, mean
  "the text ends, whatever the case, in a dot and one of the alternatives"; `get_handler` over the
  handlers' patterns is the model's `hasHandler`, and it picks the first handler that fits.
-/
namespace Pydap.Path

/-! ### small facts -/

theorem lower_append' (a b : List Char) : lower (a ++ b) = lower a ++ lower b := by
  simp [lower]

theorem lower_cons' (c : Char) (a : List Char) : lower (c :: a) = lowerChar c :: lower a := rfl

theorem lowerChar_dot : lowerChar '.' = '.' := by decide

theorem lowerChar_slash : lowerChar '/' = '/' := by decide

theorem endsWith_iff_suffix (a suf : List Char) : endsWith a suf = true ↔ suf <:+ a := by
  unfold endsWith
  rw [List.isPrefixOf_iff_prefix, List.reverse_prefix]

/-- `.*k`: some split point whose left part is free of newlines -/
theorem starAny_iff (k : List Char → Bool) (s : List Char) :
    starAny k s = true ↔ ∃ pre suf, s = pre ++ suf ∧ '\n' ∉ pre ∧ k suf = true := by
  induction s with
  | nil =>
    simp only [starAny]
    constructor
    · intro h; exact ⟨[], [], rfl, by simp, h⟩
    · rintro ⟨pre, suf, h, _, hk⟩
      have := List.append_eq_nil_iff.mp h.symm
      rw [this.2] at hk; exact hk
  | cons x t ih =>
    simp only [starAny, Bool.or_eq_true, Bool.and_eq_true, bne_iff_ne, ne_eq]
    constructor
    · rintro (h | ⟨hx, h⟩)
      · exact ⟨[], x :: t, rfl, by simp, h⟩
      · obtain ⟨pre, suf, rfl, hn, hk⟩ := ih.mp h
        refine ⟨x :: pre, suf, rfl, ?_, hk⟩
        intro hm
        rcases List.mem_cons.mp hm with hm | hm
        · exact hx hm.symm
        · exact hn hm
    · rintro ⟨pre, suf, h, hn, hk⟩
      cases pre with
      | nil => left; simp at h; rw [h]; exact hk
      | cons y pre =>
        simp at h
        right
        refine ⟨?_, ih.mpr ⟨pre, suf, h.2, fun hm => hn (List.mem_cons_of_mem _ hm), hk⟩⟩
        intro hx
        apply hn
        rw [← h.1, hx]
        exact List.mem_cons_self

/-- consuming a literal word under IGNORECASE: the text starts with a word equal to it up to case -/
theorem stripLit_iff (w t r : List Char) :
    stripLit true w t = some r ↔ ∃ m, t = m ++ r ∧ lower m = lower w := by
  induction w generalizing t with
  | nil =>
    simp only [stripLit, Option.some.injEq]
    constructor
    · intro h; exact ⟨[], by simp [h], rfl⟩
    · rintro ⟨m, h, hm⟩
      have : m = [] := by
        cases m with
        | nil => rfl
        | cons _ _ => simp [lower] at hm
      subst this; simpa using h
  | cons c w ih =>
    cases t with
    | nil =>
      simp only [stripLit]
      constructor
      · intro h; cases h
      · rintro ⟨m, h, hm⟩
        have := List.append_eq_nil_iff.mp h.symm
        rw [this.1] at hm
        simp [lower] at hm
    | cons x t =>
      simp only [stripLit, eqc, if_true]
      by_cases hcx : lowerChar c = lowerChar x
      · simp only [hcx, beq_self_eq_true, if_true]
        rw [ih]
        constructor
        · rintro ⟨m, h, hm⟩
          exact ⟨x :: m, by simp [h], by simp [lower_cons', hm, hcx]⟩
        · rintro ⟨m, h, hm⟩
          cases m with
          | nil => simp [lower] at hm
          | cons y m =>
            simp at h
            simp only [lower_cons', List.cons.injEq] at hm
            exact ⟨m, h.2, hm.2⟩
      · have : (lowerChar c == lowerChar x) = false := by simpa using hcx
        simp only [this]
        constructor
        · intro h; cases h
        · rintro ⟨m, h, hm⟩
          cases m with
          | nil => simp [lower] at hm
          | cons y m =>
            simp at h
            simp only [lower_cons', List.cons.injEq] at hm
            exact absurd (by rw [h.1, hm.1]) hcx

/-! ### 1. the meaning of `^.*\.(e1|e2|…)$` -/

theorem dotExtPattern_matches (exts : List Seg) (s : List Char) (hnl : '\n' ∉ s) :
    (dotExtPattern exts).matches s = true ↔ ∃ e ∈ exts, endsWith (lower s) ('.' :: lower e) = true := by
  unfold Pattern.matches dotExtPattern
  simp only [matchSeq]
  rw [starAny_iff]
  constructor
  · rintro ⟨pre, suf, rfl, _, hk⟩
    cases suf with
    | nil => simp at hk
    | cons x t =>
      simp only [Bool.and_eq_true, List.any_eq_true] at hk
      obtain ⟨hx, e, he, hm⟩ := hk
      refine ⟨e, he, ?_⟩
      rw [endsWith_iff_suffix]
      cases hs : stripLit true e t with
      | none => rw [hs] at hm; cases hm
      | some r =>
        rw [hs] at hm
        obtain ⟨m, rfl, hme⟩ := (stripLit_iff e t r).mp hs
        have hr : r = [] := by
          simp only [Bool.and_true, Bool.or_eq_true, beq_iff_eq] at hm
          rcases hm with hm | hm
          · exact hm
          · exfalso; apply hnl; subst hm; simp
        subst hr
        have hx' : lowerChar x = '.' := by
          simp only [eqc, if_true, beq_iff_eq] at hx
          rw [← hx]; exact lowerChar_dot.symm
        refine ⟨lower pre, ?_⟩
        simp [lower_append', lower_cons', hx', hme]
  · rintro ⟨e, he, h⟩
    rw [endsWith_iff_suffix] at h
    obtain ⟨p, hp⟩ := h
    unfold lower at hp
    obtain ⟨pre, suf, rfl, _, hsuf⟩ := List.map_eq_append_iff.mp hp.symm
    obtain ⟨x, m, rfl, hx, hm⟩ := List.map_eq_cons_iff.mp hsuf
    refine ⟨pre, x :: m, rfl, fun h => hnl (List.mem_append_left _ h), ?_⟩
    simp only [Bool.and_eq_true, List.any_eq_true]
    refine ⟨?_, e, he, ?_⟩
    · simp only [eqc, if_true, beq_iff_eq]; rw [hx]; exact lowerChar_dot
    · have : stripLit true e m = some [] := (stripLit_iff e m []).mpr ⟨m, by simp, hm⟩
      rw [this]; rfl

/-! ### 2. only the last component matters -/

theorem body_append' (r t : Segs) : body (r ++ t) = body r ++ body t := by
  induction r with
  | nil => rfl
  | cons s r ih => simp [body, ih]

theorem text_snoc (d : Segs) (n : Seg) : text (d ++ [n]) = body d ++ '/' :: n := by
  have : text (d ++ [n]) = body (d ++ [n]) := by
    cases d <;> rfl
  rw [this, body_append']
  simp [body]

theorem suffix_after_sep (suf X Y : List Char) (c : Char) (hc : c ∉ suf) :
    suf <:+ X ++ c :: Y ↔ suf <:+ Y := by
  constructor
  · intro h
    have h2 : c :: Y <:+ X ++ c :: Y := List.suffix_append _ _
    rcases List.suffix_or_suffix_of_suffix h h2 with h3 | h3
    · rcases List.suffix_cons_iff.mp h3 with h4 | h4
      · exfalso; apply hc; rw [h4]; exact List.mem_cons_self
      · exact h4
    · exfalso; apply hc
      exact h3.subset List.mem_cons_self
  · intro h
    exact h.trans ((List.suffix_cons c Y).trans (List.suffix_append _ _))

theorem hasHandler_basename (exts : List Seg) (d : Segs) (n : Seg) (hexts : ∀ e ∈ exts, '/' ∉ e) :
    hasHandler exts (d ++ [n]) = exts.any fun e => endsWith (lower n) ('.' :: e) := by
  unfold hasHandler
  rw [text_snoc, Bool.eq_iff_iff, List.any_eq_true, List.any_eq_true]
  have key : ∀ e ∈ exts, (endsWith (lower (body d ++ '/' :: n)) ('.' :: e) = true ↔
      endsWith (lower n) ('.' :: e) = true) := by
    intro e he
    rw [endsWith_iff_suffix, endsWith_iff_suffix, lower_append', lower_cons', lowerChar_slash]
    apply suffix_after_sep
    intro hm
    rcases List.mem_cons.mp hm with hm | hm
    · exact absurd hm (by decide)
    · exact hexts e he hm
  constructor
  · rintro ⟨e, he, h⟩; exact ⟨e, he, (key e he).mp h⟩
  · rintro ⟨e, he, h⟩; exact ⟨e, he, (key e he).mpr h⟩

/-! ### 3. `supported` is `hasHandler` over all the alternatives -/

theorem matches_eq_hasHandler (exts : List Seg) (p : Segs) (hnl : '\n' ∉ text p) :
    (dotExtPattern exts).matches (text p) = hasHandler (exts.map lower) p := by
  rw [Bool.eq_iff_iff, dotExtPattern_matches exts (text p) hnl]
  unfold hasHandler
  simp only [List.any_map, List.any_eq_true, Function.comp]

theorem supportedBy_eq_hasHandler (hs : List (List Seg)) (p : Segs) (hnl : '\n' ∉ text p) :
    supportedBy (hs.map dotExtPattern) p = hasHandler (hs.flatten.map lower) p := by
  unfold supportedBy getHandler
  rw [List.findIdx?_isSome, List.any_map]
  have : hasHandler (hs.flatten.map lower) p = hs.any fun ex => hasHandler (ex.map lower) p := by
    unfold hasHandler
    rw [List.any_map, List.any_flatten]
    apply List.any_congr rfl
    intro ex
    rw [List.any_map]
  rw [this]
  apply List.any_congr rfl
  intro ex
  exact matches_eq_hasHandler ex p hnl

/-! ### 4. the handler chosen is the first that fits -/

theorem getHandler_first (hs : List (List Seg)) (p : Segs) (i : Nat) (hnl : '\n' ∉ text p)
    (h : getHandler (hs.map dotExtPattern) p = some i) :
    ∃ exts, hs[i]? = some exts ∧ hasHandler (exts.map lower) p = true ∧
      ∀ j < i, ∀ ex, hs[j]? = some ex → hasHandler (ex.map lower) p = false := by
  unfold getHandler at h
  rw [List.findIdx?_eq_some_iff_getElem] at h
  obtain ⟨hi, hm, hfirst⟩ := h
  have hi' : i < hs.length := by simpa using hi
  refine ⟨hs[i], List.getElem?_eq_getElem hi', ?_, ?_⟩
  · rw [← matches_eq_hasHandler _ p hnl]
    simpa using hm
  · intro j hj ex hex
    have hjl : j < hs.length := Nat.lt_trans hj hi'
    rw [List.getElem?_eq_getElem hjl, Option.some.injEq] at hex
    have := hfirst j hj
    rw [← matches_eq_hasHandler _ p hnl, ← hex]
    simpa using this

end Pydap.Path
