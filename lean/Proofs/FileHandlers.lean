import PydapModel.FileHandlers
/-
  Helper lemmas for C20: the scope walk of the repaired `group_fqn` finds the nearest enclosing
  declaration; membership lemmas for the handler's entry list.
-/
namespace Pydap.FileHandlers

/-- the walk stops at a suffix of the (reversed) path that declares `d`, and no longer suffix does -/
theorem resolveFrom_nearest (f : NcFile) (d : String) (rp : List String)
    (hdecl : ∃ rq, rq <:+ rp ∧ declaresB f rq.reverse d = true) :
    (resolveFrom f d rp).reverse <:+ rp ∧ declaresB f (resolveFrom f d rp) d = true ∧
    ∀ rq, rq <:+ rp → (resolveFrom f d rp).length < rq.length → declaresB f rq.reverse d = false := by
  induction rp with
  | nil =>
    obtain ⟨rq, hs, hd⟩ := hdecl
    have : rq = [] := List.suffix_nil.mp hs
    subst this
    refine ⟨by simp [resolveFrom], by simpa [resolveFrom] using hd, ?_⟩
    intro rq hs hl
    have : rq = [] := List.suffix_nil.mp hs
    subst this
    simp [resolveFrom] at hl
  | cons s rest ih =>
    unfold resolveFrom
    by_cases hc : declaresB f (s :: rest).reverse d = true
    · rw [if_pos hc]
      refine ⟨by simp, hc, ?_⟩
      intro rq hs hl
      have := hs.length_le
      simp at hl this
      omega
    · rw [if_neg hc]
      have hdecl' : ∃ rq, rq <:+ rest ∧ declaresB f rq.reverse d = true := by
        obtain ⟨rq, hs, hd⟩ := hdecl
        rcases List.suffix_cons_iff.mp hs with h | h
        · subst h; exact absurd hd hc
        · exact ⟨rq, h, hd⟩
      obtain ⟨h1, h2, h3⟩ := ih hdecl'
      refine ⟨h1.trans (List.suffix_cons s rest), h2, ?_⟩
      intro rq hs hl
      rcases List.suffix_cons_iff.mp hs with h | h
      · subst h
        simpa using hc
      · exact h3 rq h hl

theorem find_of_nodup (l : List Var) (v : Var) (hn : (l.map Var.name).Nodup) (hv : v ∈ l) :
    l.find? (fun w => w.name = v.name) = some v := by
  induction l with
  | nil => simp at hv
  | cons w ws ih =>
    simp only [List.map_cons, List.nodup_cons] at hn
    rcases List.mem_cons.mp hv with h | h
    · subst h; simp
    · have hne : w.name ≠ v.name := by
        intro he
        exact hn.1 (he ▸ List.mem_map_of_mem h)
      simp [hne, ih hn.2 h]

end Pydap.FileHandlers
