import PydapModel.FileHandlers
import Mathlib.Data.List.Nodup
/-
  Helper lemmas for C20: the scope walk of the repaired `group_fqn` finds the nearest enclosing
  declaration; membership lemmas for the handler's entry list.
-/
namespace Pydap.FileHandlers

/-- the walk stops at a suffix of the (reversed) path that declares `d`, and no longer suffix does -/
theorem resolveFrom_nearest (f : NcFile) (d : String) (rp : List String)
    (hdecl : ∃ rq, rq <:+ rp ∧ declaresB f rq.reverse d = true) :
    (resolveFrom f d rp).reverse <:+ rp ∧ declaresB f (resolveFrom f d rp) d = true ∧
    ∀ rq, rq <:+ rp → (resolveFrom f d rp).length < rq.length → declaresB f rq.reverse d = false := by
  induction rp with
  | nil =>
    obtain ⟨rq, hs, hd⟩ := hdecl
    have : rq = [] := List.suffix_nil.mp hs
    subst this
    refine ⟨by simp [resolveFrom], by simpa [resolveFrom] using hd, ?_⟩
    intro rq hs hl
    have : rq = [] := List.suffix_nil.mp hs
    subst this
    simp [resolveFrom] at hl
  | cons s rest ih =>
    unfold resolveFrom
    by_cases hc : declaresB f (s :: rest).reverse d = true
    · rw [if_pos hc]
      refine ⟨by simp, hc, ?_⟩
      intro rq hs hl
      have := hs.length_le
      simp at hl this
      omega
    · rw [if_neg hc]
      have hdecl' : ∃ rq, rq <:+ rest ∧ declaresB f rq.reverse d = true := by
        obtain ⟨rq, hs, hd⟩ := hdecl
        rcases List.suffix_cons_iff.mp hs with h | h
        · subst h; exact absurd hd hc
        · exact ⟨rq, h, hd⟩
      obtain ⟨h1, h2, h3⟩ := ih hdecl'
      refine ⟨h1.trans (List.suffix_cons s rest), h2, ?_⟩
      intro rq hs hl
      rcases List.suffix_cons_iff.mp hs with h | h
      · subst h
        simpa using hc
      · exact h3 rq h hl

theorem find_of_nodup (l : List Var) (v : Var) (hn : (l.map Var.name).Nodup) (hv : v ∈ l) :
    l.find? (fun w => w.name = v.name) = some v := by
  induction l with
  | nil => simp at hv
  | cons w ws ih =>
    simp only [List.map_cons, List.nodup_cons] at hn
    rcases List.mem_cons.mp hv with h | h
    · subst h; simp
    · have hne : w.name ≠ v.name := by
        intro he
        exact hn.1 (he ▸ List.mem_map_of_mem h)
      simp [hne, ih hn.2 h]

/-! ### exactly one entry per file variable (round 7) -/
/-- the root variables the handler reads eagerly, as `__init__` finds them: for every root dimension, the root
    variable of that name -/
def coordVars (f : NcFile) : List Var :=
  (f.root.dims.map Prod.fst).filterMap fun d => f.root.vars.find? fun v => v.name = d

theorem mem_coordVars (f : NcFile) (hn : (f.root.vars.map Var.name).Nodup) (v : Var) :
    v ∈ coordVars f ↔ v ∈ f.root.vars.filter (isCoord f) := by
  simp only [coordVars, List.mem_filterMap, List.mem_filter, isCoord, List.contains_iff_mem]
  constructor
  · rintro ⟨d, hd, hf⟩
    have h1 := List.mem_of_find?_eq_some hf
    have h2 : v.name = d := by simpa using List.find?_some hf
    exact ⟨h1, h2 ▸ hd⟩
  · rintro ⟨hv, hd⟩
    exact ⟨v.name, hd, find_of_nodup _ v hn hv⟩

theorem coordVars_nodup (f : NcFile) (hd : (f.root.dims.map Prod.fst).Nodup) : (coordVars f).Nodup := by
  apply List.Nodup.filterMap _ hd
  intro a a' b hb hb'
  have h1 : b.name = a := by simpa using List.find?_some (Option.mem_def.mp hb)
  have h2 : b.name = a' := by simpa using List.find?_some (Option.mem_def.mp hb')
  rw [← h1, ← h2]

theorem coordVars_perm (f : NcFile) (hn : (f.root.vars.map Var.name).Nodup) (hd : (f.root.dims.map Prod.fst).Nodup) :
    (coordVars f).Perm (f.root.vars.filter (isCoord f)) :=
  (List.perm_ext_iff_of_nodup (coordVars_nodup f hd) ((List.Nodup.of_map _ hn).filter _)).mpr
    (mem_coordVars f hn)





def Entry.varKey : Entry → Option (List String × String)
  | .var p n _ _ _ _ _ => some (p, n)
  | .group .. => none

/-- the variables of the file: (group path, name), root first, then group by group -/
def fileVarKeys (f : NcFile) : List (List String × String) :=
  f.root.vars.map (fun v => (([] : List String), v.name)) ++
    f.groups.flatMap fun g => g.vars.map fun v => (g.path, v.name)

theorem netcdfEntries_eq (f : NcFile) : netcdfEntries f =
    Entry.group [] f.root.dims f.root.attrs ::
    ((f.root.vars.filter fun v => !isCoord f v).map fun v =>
        Entry.var [] v.name v.ty v.shape (v.dims.map fun d => (([] : List String), d)) v.attrs true)
    ++ f.groups.flatMap (groupEntries f)
    ++ (coordVars f).map fun v =>
        Entry.var [] v.name v.ty v.shape (v.dims.map fun d => (([] : List String), d)) v.attrs false := rfl

theorem filterMap_varKey_map (l : List Var) (P : List String) (g : Var → List FQN) (a : Var → List (String × String)) (b : Var → Bool) :
    (l.map fun v => Entry.var P v.name v.ty v.shape (g v) (a v) (b v)).filterMap Entry.varKey
      = l.map fun v => (P, v.name) := by
  induction l with
  | nil => rfl
  | cons v vs ih => simp only [List.map_cons, List.filterMap_cons, Entry.varKey, ih]

theorem varKeys_groupEntries (f : NcFile) (g : Grp) :
    (groupEntries f g).filterMap Entry.varKey = g.vars.map fun v => (g.path, v.name) := by
  simp only [groupEntries, mkVar, List.filterMap_cons, Entry.varKey]
  exact filterMap_varKey_map g.vars g.path _ _ _

theorem varKeys_groups (f : NcFile) (gs : List Grp) :
    (gs.flatMap (groupEntries f)).filterMap Entry.varKey = gs.flatMap fun g => g.vars.map fun v => (g.path, v.name) := by
  induction gs with
  | nil => rfl
  | cons g gs ih => simp only [List.flatMap_cons, List.filterMap_append, varKeys_groupEntries, ih]

theorem varKeys_perm (f : NcFile) (hn : (f.root.vars.map Var.name).Nodup) (hd : (f.root.dims.map Prod.fst).Nodup) :
    ((netcdfEntries f).filterMap Entry.varKey).Perm (fileVarKeys f) := by
  rw [netcdfEntries_eq]
  simp only [List.filterMap_cons, Entry.varKey, List.filterMap_append, varKeys_groups, fileVarKeys]
  rw [filterMap_varKey_map, filterMap_varKey_map]
  -- A ++ G ++ C ~ (A ++ C) ++ G ~ vars ++ G
  have hc := (coordVars_perm f hn hd).map (fun v : Var => (([] : List String), v.name))
  have hsplit : ((f.root.vars.filter fun v => !isCoord f v) ++ f.root.vars.filter (isCoord f)).Perm f.root.vars := by
    have := List.filter_append_perm (fun v => !isCoord f v) f.root.vars
    simpa using this
  have h1 := (hsplit.map (fun v : Var => (([] : List String), v.name)))
  rw [List.map_append] at h1
  refine List.Perm.trans ?_ (List.Perm.append_right _ h1)
  rw [List.append_assoc, List.append_assoc]
  exact List.Perm.append_left _ (List.perm_append_comm.trans (hc.append_right _))


theorem resolveDim_root (f : NcFile) (d : String) : resolveDim f [] d = ([], d) := rfl

/-- every entry of the handler's dataset comes from the file: a group entry, a root variable, or a variable of a group -/
theorem entries_sound (f : NcFile) (e : Entry) (he : e ∈ netcdfEntries f) :
    (e = .group [] f.root.dims f.root.attrs ∨
      ∃ g ∈ f.groups, e = .group g.path g.dims (g.attrs.filter fun a => a.1 ≠ "path")) ∨
    (∃ v ∈ f.root.vars,
      e = .var [] v.name v.ty v.shape (v.dims.map (resolveDim f [])) v.attrs (!isCoord f v)) ∨
    (∃ g ∈ f.groups, ∃ v ∈ g.vars,
      e = .var g.path v.name v.ty v.shape (v.dims.map (resolveDim f g.path))
        (v.attrs.filter fun a => a.1 ≠ "path") true) := by
  rw [netcdfEntries_eq] at he
  simp only [List.mem_cons, List.mem_append, List.mem_map, List.mem_filter, List.mem_flatMap] at he
  rcases he with ((h | ⟨v, ⟨hv, hc⟩, rfl⟩) | ⟨g, hg, hge⟩) | ⟨v, hv, rfl⟩
  · exact Or.inl (Or.inl h)
  · refine Or.inr (Or.inl ⟨v, hv, ?_⟩)
    have hc' : isCoord f v = false := by simpa using hc
    simp [hc', resolveDim_root]
  · simp only [groupEntries, List.mem_cons, List.mem_map] at hge
    rcases hge with h | ⟨v, hv, rfl⟩
    · exact Or.inl (Or.inr ⟨g, hg, h⟩)
    · exact Or.inr (Or.inr ⟨g, hg, v, hv, rfl⟩)
  · refine Or.inr (Or.inl ⟨v, ?_, ?_⟩)
    · simp only [coordVars, List.mem_filterMap] at hv
      obtain ⟨d, _, hf⟩ := hv
      exact List.mem_of_find?_eq_some hf
    · have hc' : isCoord f v = true := by
        simp only [coordVars, List.mem_filterMap] at hv
        obtain ⟨d, hd, hf⟩ := hv
        have h2 : v.name = d := by simpa using List.find?_some hf
        simp [isCoord, h2, hd]
      simp [hc', resolveDim_root]

/-! ### the variable entries as a whole, up to order (round 7) -/
def Entry.isVar : Entry → Bool
  | .var .. => true
  | .group .. => false

/-- what the property demands, as a list: one entry per file variable — root variables with their own dimension tuple
    qualified by the root, lazy unless named like a root dimension; group variables under their group's path with
    nearest-scope dimension names and their attributes minus `path` -/
def expectedVarEntries (f : NcFile) : List Entry :=
  (f.root.vars.map fun v =>
      Entry.var [] v.name v.ty v.shape (v.dims.map (resolveDim f [])) v.attrs (!isCoord f v)) ++
  f.groups.flatMap fun g => g.vars.map fun v =>
      Entry.var g.path v.name v.ty v.shape (v.dims.map (resolveDim f g.path))
        (v.attrs.filter fun a => a.1 ≠ "path") true

theorem filter_isVar_map (l : List Var) (e : Var → Entry) (h : ∀ v, (e v).isVar = true) :
    (l.map e).filter Entry.isVar = l.map e := by
  apply List.filter_eq_self.mpr
  intro x hx
  obtain ⟨v, _, rfl⟩ := List.mem_map.mp hx
  exact h v

theorem varEntries_groups (f : NcFile) (gs : List Grp) :
    (gs.flatMap (groupEntries f)).filter Entry.isVar = gs.flatMap fun g => g.vars.map fun v =>
      Entry.var g.path v.name v.ty v.shape (v.dims.map (resolveDim f g.path))
        (v.attrs.filter fun a => a.1 ≠ "path") true := by
  induction gs with
  | nil => rfl
  | cons g gs ih =>
    simp only [List.flatMap_cons, List.filter_append, ih]
    congr 1
    simp only [groupEntries, mkVar, List.filter_cons, Entry.isVar]
    exact filter_isVar_map _ _ (fun _ => rfl)

theorem varEntries_perm (f : NcFile) (hn : (f.root.vars.map Var.name).Nodup) (hd : (f.root.dims.map Prod.fst).Nodup) :
    ((netcdfEntries f).filter Entry.isVar).Perm (expectedVarEntries f) := by
  rw [netcdfEntries_eq]
  simp only [List.filter_cons, Entry.isVar, List.filter_append, varEntries_groups, expectedVarEntries]
  rw [filter_isVar_map _ _ (fun _ => rfl), filter_isVar_map _ _ (fun _ => rfl)]
  -- the two root parts as images of the expected root map
  let eR : Var → Entry := fun v =>
    Entry.var [] v.name v.ty v.shape (v.dims.map (resolveDim f [])) v.attrs (!isCoord f v)
  have hA : ((f.root.vars.filter fun v => !isCoord f v).map fun v =>
      Entry.var [] v.name v.ty v.shape (v.dims.map fun d => (([] : List String), d)) v.attrs true)
      = (f.root.vars.filter fun v => !isCoord f v).map eR := by
    apply List.map_congr_left
    intro v hv
    have hc : isCoord f v = false := by simpa using (List.mem_filter.mp hv).2
    simp [eR, hc, resolveDim_root]
  have hC : ((f.root.vars.filter (isCoord f)).map fun v =>
      Entry.var [] v.name v.ty v.shape (v.dims.map fun d => (([] : List String), d)) v.attrs false)
      = (f.root.vars.filter (isCoord f)).map eR := by
    apply List.map_congr_left
    intro v hv
    have hc : isCoord f v = true := (List.mem_filter.mp hv).2
    simp [eR, hc, resolveDim_root]
  have hc := (coordVars_perm f hn hd).map (fun v : Var =>
      Entry.var [] v.name v.ty v.shape (v.dims.map fun d => (([] : List String), d)) v.attrs false)
  rw [hC] at hc
  rw [hA]
  have hsplit : ((f.root.vars.filter fun v => !isCoord f v) ++ f.root.vars.filter (isCoord f)).Perm f.root.vars := by
    have := List.filter_append_perm (fun v => !isCoord f v) f.root.vars
    simpa using this
  have h1 := hsplit.map eR
  rw [List.map_append] at h1
  refine List.Perm.trans ?_ (List.Perm.append_right _ h1)
  rw [List.append_assoc, List.append_assoc]
  exact List.Perm.append_left _ (List.perm_append_comm.trans (hc.append_right _))

/-- the same list with the attributes as the FILE has them (what the property demands) -/
def demandedVarEntries (f : NcFile) : List Entry :=
  (f.root.vars.map fun v =>
      Entry.var [] v.name v.ty v.shape (v.dims.map (resolveDim f [])) v.attrs (!isCoord f v)) ++
  f.groups.flatMap fun g => g.vars.map fun v =>
      Entry.var g.path v.name v.ty v.shape (v.dims.map (resolveDim f g.path)) v.attrs true

theorem demanded_eq_expected (f : NcFile)
    (hp : ∀ g ∈ f.groups, ∀ v ∈ g.vars, ∀ a ∈ v.attrs, a.1 ≠ "path") :
    demandedVarEntries f = expectedVarEntries f := by
  unfold demandedVarEntries expectedVarEntries
  congr 1
  apply List.flatMap_congr
  intro g hg
  apply List.map_congr_left
  intro v hv
  have : (v.attrs.filter fun a => a.1 ≠ "path") = v.attrs := by
    apply List.filter_eq_self.mpr
    intro a ha
    simpa using hp g hg v hv a ha
  rw [this]


end Pydap.FileHandlers
