import PydapModel.SeqClient
import Proofs.Proxy
import Proofs.Seq
import Proofs.SeqEnc
import Proofs.Hyperslab
namespace Pydap.SeqClient
open Pydap Pydap.IterData Pydap.Seq Pydap.CE Pydap.TableVal

/-! ### joining and splitting -/

theorem splitOnChar_joinWith (sep : Char) (g : List Char) (gs : List (List Char))
    (h : ∀ x ∈ g :: gs, ∀ c ∈ x, c ≠ sep) :
    splitOnChar sep (joinWith sep (g :: gs)) = g :: gs := by
  induction gs generalizing g with
  | nil => exact splitOnChar_no_sep _ _ (h g (by simp))
  | cons g' gs ih =>
    simp only [joinWith]
    rw [splitOnChar_append _ _ _ (h g (by simp)),
      ih g' (fun x hx => h x (by simp at hx ⊢; right; exact hx))]

theorem rstripChar_of_last (c d : Char) (l : List Char) (h : d ≠ c) :
    rstripChar c (l ++ [d]) = l ++ [d] := by
  simp [rstripChar, List.reverse_append, h]

theorem rstripChar_snoc (c : Char) (l : List Char) : rstripChar c (l ++ [c]) = rstripChar c l := by
  simp [rstripChar, List.reverse_append]

/-- a join of non-empty separator-free parts ends with a character that is not the separator -/
theorem joinWith_last (sep : Char) (g : List Char) (gs : List (List Char))
    (h : ∀ x ∈ g :: gs, x ≠ [] ∧ ∀ c ∈ x, c ≠ sep) :
    ∃ l d, joinWith sep (g :: gs) = l ++ [d] ∧ d ≠ sep := by
  induction gs generalizing g with
  | nil =>
    obtain ⟨hne, hc⟩ := h g (by simp)
    rcases List.eq_nil_or_concat g with e | ⟨l, d, e⟩
    · exact absurd e hne
    · exact ⟨l, d, by simpa [joinWith] using e, hc d (by rw [e]; simp)⟩
  | cons g' gs ih =>
    obtain ⟨l, d, e, hd⟩ := ih g' (fun x hx => h x (by simp at hx ⊢; right; exact hx))
    exact ⟨g ++ sep :: l, d, by simp [joinWith, e], hd⟩

/-- characters that names of sequences and columns are made of in this development: none of the
    characters the constraint expression syntax uses -/
def plainChar (c : Char) : Bool :=
  !(c = '&' || c = ',' || c = '.' || c = '[' || c = ']' || c = '(' || c = ')' || c = '<' || c = '>'
    || c = '=' || c = '!' || c = '~')

def NameOk (n : List Char) : Prop := n ≠ [] ∧ ∀ c ∈ n, plainChar c = true

theorem plain_ne {c : Char} (h : plainChar c = true) :
    c ≠ '&' ∧ c ≠ ',' ∧ c ≠ '.' ∧ c ≠ '[' ∧ c ≠ ']' ∧ c ≠ '(' ∧ c ≠ ')' ∧ c ≠ '<' ∧ c ≠ '>' ∧ c ≠ '=' ∧ c ≠ '!' ∧ c ≠ '~' := by
  refine ⟨?_, ?_, ?_, ?_, ?_, ?_, ?_, ?_, ?_, ?_, ?_, ?_⟩ <;>
    (intro e; subst e; exact absurd h (by decide))

/-- the query text is read back as its projection token and its selection tokens -/
theorem parseCE_query (P : List Char) (sel : List (List Char))
    (hP : P ≠ []) (hPa : ∀ c ∈ P, c ≠ '&') (hPo : hasOp P = false)
    (hsel : ∀ x ∈ sel, x ≠ [] ∧ ∀ c ∈ x, c ≠ '&') :
    parseCE (rstripChar '&' (P ++ '&' :: joinWith '&' sel)) = (parseProjection P).map fun p => (p, sel) := by
  cases sel with
  | nil =>
    have e : P ++ '&' :: joinWith '&' [] = P ++ ['&'] := by simp [joinWith]
    rw [e, rstripChar_snoc]
    rcases List.eq_nil_or_concat P with e | ⟨l, d, e⟩
    · exact absurd e hP
    · have hd : d ≠ '&' := hPa d (by rw [e]; simp)
      have hr : rstripChar '&' P = P := by
        rw [e, List.concat_eq_append]; exact rstripChar_of_last _ _ _ hd
      rw [hr]
      unfold parseCE
      rw [splitOnChar_no_sep _ _ hPa]
      have hf : [P].filter (· ≠ []) = [P] := by simp [hP]
      rw [hf]
      simp [hPo]
  | cons g gs =>
    obtain ⟨l, d, e, hd⟩ := joinWith_last '&' g gs hsel
    have e2 : P ++ '&' :: joinWith '&' (g :: gs) = (P ++ '&' :: l) ++ [d] := by rw [e]; simp
    rw [e2, rstripChar_of_last _ _ _ hd, ← e2]
    unfold parseCE
    rw [splitOnChar_append _ _ _ hPa, splitOnChar_joinWith _ _ _ (fun x hx => (hsel x hx).2)]
    have hf : (P :: g :: gs).filter (· ≠ []) = P :: g :: gs := by
      rw [List.filter_eq_self]
      intro x hx
      simp only [List.mem_cons] at hx
      rcases hx with rfl | hx
      · simpa using hP
      · simpa using (hsel x (by simpa using hx)).1
    rw [hf]
    simp [hPo]


/-! ### the record range on the wire -/

/-- the slice the server reads for the slice a proxy holds: an absent stop is printed as `MAXSIZE - 1` -/
def wireSl (s : PSlice) : PSlice :=
  match s.stop with
  | none => { s with stop := some MAXSIZE }
  | some _ => s

/-- the record range a proxy may hold: `slice(None)` (no range), or start ≥ 0, step ≥ 1 and a stop that is
    absent or ≥ 1 (`stop = 0` prints as an unbounded range: `C03_hyperslab_empty_excluded`) -/
def RangeOk (s : PSlice) : Prop := s = PSlice.all ∨ NormSl (wireSl s)

def wireRange (s : PSlice) : Option PSlice := if s = PSlice.all then none else some (wireSl s)

theorem hyperslabText_wire (s : PSlice) (h : NormSl (wireSl s)) : hyperslabText [s] = hyperslabText [wireSl s] := by
  obtain ⟨st, sp, k⟩ := s
  cases sp with
  | some b => rfl
  | none =>
    obtain ⟨a, b, k', e, _⟩ := h
    simp only [wireSl, PSlice.mk.injEq] at e
    obtain ⟨rfl, _, rfl⟩ := e
    simp [hyperslabText, dropTrailingAll, PSlice.all, hyperTriple, orElse, wireSl, MAXSIZE]

theorem groupText_chars {s : PSlice} (h : NormSl s) : ∀ c ∈ groupText s, isDigit c = true ∨ c = ':' := by
  obtain ⟨a, b, k, rfl, ha, hb, hk, ht⟩ := hyperTriple_norm h
  unfold groupText
  rw [ht]
  intro c hc
  simp only [List.append_assoc, List.mem_append, List.mem_cons, List.not_mem_nil, or_false] at hc
  rcases hc with hc | hc | hc | hc | hc
  · exact .inl (intText_allDigits a ha c hc)
  · exact .inr hc
  · exact .inl (intText_allDigits k (by omega) c hc)
  · exact .inr hc
  · exact .inl (intText_allDigits (b - 1) (by omega) c hc)

/-- what the hyperslab text of a proxy's record range looks like and how it is read back -/
theorem slab_facts (s : PSlice) (h : RangeOk s) :
    parseHyperslab (hyperslabText [s]) = .ok (wireRange s).toList
    ∧ (∀ c ∈ hyperslabText [s], isDigit c = true ∨ c = ':' ∨ c = '[' ∨ c = ']')
    ∧ (hyperslabText [s] = [] ∨ ∃ m, hyperslabText [s] = '[' :: m ++ [']']) := by
  by_cases hall : s = PSlice.all
  · subst hall
    have e : hyperslabText [PSlice.all] = [] := by
      simp [hyperslabText, dropTrailingAll]
    rw [e]
    exact ⟨rfl, by simp, .inl rfl⟩
  · have hn : NormSl (wireSl s) := by
      rcases h with h | h
      · exact absurd h hall
      · exact h
    have hall' : ∀ x ∈ [wireSl s], NormSl x := by simpa using hn
    rw [hyperslabText_wire s hn]
    refine ⟨?_, ?_, ?_⟩
    · rw [parseHyperslab_hyperslabText _ hall']
      simp [wireRange, hall]
    · rw [hyperslabText_eq _ hall']
      intro c hc
      simp only [List.map_cons, List.map_nil, List.flatMap_cons, List.flatMap_nil, List.append_nil,
        List.mem_append, List.mem_cons, List.not_mem_nil, or_false] at hc
      rcases hc with (hc | hc) | hc
      · exact .inr (.inr (.inl hc))
      · rcases groupText_chars hn c hc with h1 | h1
        · exact .inl h1
        · exact .inr (.inl h1)
      · exact .inr (.inr (.inr hc))
    · right
      rw [hyperslabText_eq _ hall']
      exact ⟨groupText (wireSl s), by simp⟩

/-! ### `name[hyperslab]` parts -/

theorem takeWhile_append_stop {α} (p : α → Bool) (l : List α) (x : α) (r : List α)
    (hl : ∀ c ∈ l, p c = true) (hx : p x = false) :
    (l ++ x :: r).takeWhile p = l ∧ (l ++ x :: r).dropWhile p = x :: r := by
  induction l with
  | nil => simp [hx]
  | cons c cs ih =>
    have hc := hl c (by simp)
    have := ih (fun y hy => hl y (by simp [hy]))
    simp [hc, this]

theorem splitBracket_id (id H : List Char) (hid : ∀ c ∈ id, c ≠ '[')
    (hH : H = [] ∨ ∃ m, H = '[' :: m ++ [']']) : splitBracket (id ++ H) = (id, H) := by
  rcases hH with rfl | ⟨m, rfl⟩
  · have : '[' ∉ id := fun hm => hid _ hm rfl
    simp [splitBracket, this]
  · have h1 : (id ++ ('[' :: m ++ [']'])).getLast? = some ']' := by
      have : id ++ ('[' :: m ++ [']']) = (id ++ '[' :: m) ++ [']'] := by simp
      rw [this, List.getLast?_append]; simp
    have h2 : '[' ∈ id ++ ('[' :: m ++ [']']) := by simp
    obtain ⟨t1, t2⟩ := takeWhile_append_stop (fun c => decide (c ≠ '[')) id '[' (m ++ [']'])
      (fun c hc => by simpa using hid c hc) (by simp)
    unfold splitBracket
    rw [if_pos ⟨h1, h2⟩]
    simp only [List.cons_append] at t1 t2 ⊢
    rw [t1, t2]

theorem splitBracket_plain (k : List Char) (hk : ∀ c ∈ k, c ≠ '[') : splitBracket k = (k, []) := by
  have := splitBracket_id k [] hk (.inl rfl)
  simpa using this


/-- the characters of a hyperslab text are not among those names exclude, except the brackets -/
theorem slabChar_ne {c : Char} (h : isDigit c = true ∨ c = ':' ∨ c = '[' ∨ c = ']') :
    c ≠ '&' ∧ c ≠ ',' ∧ c ≠ '.' ∧ c ≠ '(' ∧ c ≠ ')' ∧ c ≠ '<' ∧ c ≠ '>' ∧ c ≠ '=' := by
  refine ⟨?_, ?_, ?_, ?_, ?_, ?_, ?_, ?_⟩ <;>
    (intro e; subst e; rcases h with h | h | h | h <;> exact absurd h (by decide))

theorem parseItem_col (id H k : List Char) (slab : List PSlice)
    (hid : ∀ c ∈ id, plainChar c = true) (hk : ∀ c ∈ k, plainChar c = true)
    (hHc : ∀ c ∈ H, isDigit c = true ∨ c = ':' ∨ c = '[' ∨ c = ']')
    (hH : H = [] ∨ ∃ m, H = '[' :: m ++ [']']) (hp : parseHyperslab H = .ok slab) :
    parseItem (id ++ H ++ '.' :: k) = .ok [(id, slab), (k, [])] := by
  have h1 : ∀ c ∈ id ++ H, c ≠ '.' := by
    intro c hc
    rcases List.mem_append.mp hc with hc | hc
    · exact (plain_ne (hid c hc)).2.2.1
    · exact (slabChar_ne (hHc c hc)).2.2.1
  have h2 : ∀ c ∈ k, c ≠ '.' := fun c hc => (plain_ne (hk c hc)).2.2.1
  unfold parseItem
  rw [splitOnChar_append _ _ _ h1, splitOnChar_no_sep _ _ h2]
  simp only [List.mapM_cons, List.mapM_nil,
    splitBracket_id id H (fun c hc => (plain_ne (hid c hc)).2.2.2.1) hH,
    splitBracket_plain k (fun c hc => (plain_ne (hk c hc)).2.2.2.1), hp]
  rfl

theorem parseItem_whole (id H : List Char) (slab : List PSlice)
    (hid : ∀ c ∈ id, plainChar c = true)
    (hHc : ∀ c ∈ H, isDigit c = true ∨ c = ':' ∨ c = '[' ∨ c = ']')
    (hH : H = [] ∨ ∃ m, H = '[' :: m ++ [']']) (hp : parseHyperslab H = .ok slab) :
    parseItem (id ++ H) = .ok [(id, slab)] := by
  have h1 : ∀ c ∈ id ++ H, c ≠ '.' := by
    intro c hc
    rcases List.mem_append.mp hc with hc | hc
    · exact (plain_ne (hid c hc)).2.2.1
    · exact (slabChar_ne (hHc c hc)).2.2.1
  unfold parseItem
  rw [splitOnChar_no_sep _ _ h1]
  simp only [List.mapM_cons, List.mapM_nil,
    splitBracket_id id H (fun c hc => (plain_ne (hid c hc)).2.2.2.1) hH, hp]
  rfl

theorem mapM_ok_map {α β γ ε} (f : β → Except ε γ) (g : α → β) (h : α → γ) (l : List α)
    (e : ∀ x ∈ l, f (g x) = .ok (h x)) : (l.map g).mapM f = .ok (l.map h) := by
  induction l with
  | nil => rfl
  | cons x xs ih =>
    simp only [List.map_cons, List.mapM_cons, e x (by simp), ih (fun y hy => e y (by simp [hy]))]
    rfl

theorem joinWith_mem (sep : Char) (l : List (List Char)) (c : Char) (h : c ∈ joinWith sep l) :
    c = sep ∨ ∃ x ∈ l, c ∈ x := by
  induction l with
  | nil => simp [joinWith] at h
  | cons a t ih =>
    cases t with
    | nil => right; exact ⟨a, by simp, by simpa [joinWith] using h⟩
    | cons b rest =>
      simp only [joinWith, List.mem_append, List.mem_cons] at h
      rcases h with h | h | h
      · right; exact ⟨a, by simp, h⟩
      · left; exact h
      · rcases ih h with h | ⟨x, hx, hc⟩
        · left; exact h
        · right; exact ⟨x, List.mem_cons_of_mem _ hx, hc⟩

/-- the character classes of a projection text: names, hyperslab characters, dots, commas -/
def ProjChar (c : Char) : Prop :=
  plainChar c = true ∨ (isDigit c = true ∨ c = ':' ∨ c = '[' ∨ c = ']') ∨ c = '.' ∨ c = ','

theorem projChar_ne {c : Char} (h : ProjChar c) :
    c ≠ '&' ∧ c ≠ '(' ∧ c ≠ ')' ∧ c ≠ '<' ∧ c ≠ '>' ∧ c ≠ '=' := by
  rcases h with h | h | h | h
  · have := plain_ne h; exact ⟨this.1, this.2.2.2.2.2.1, this.2.2.2.2.2.2.1, this.2.2.2.2.2.2.2.1,
      this.2.2.2.2.2.2.2.2.1, this.2.2.2.2.2.2.2.2.2.1⟩
  · have := slabChar_ne h; exact ⟨this.1, this.2.2.2.1, this.2.2.2.2.1, this.2.2.2.2.2.1,
      this.2.2.2.2.2.2.1, this.2.2.2.2.2.2.2⟩
  · subst h; decide
  · subst h; decide

theorem hasOp_false (P : List Char) (h : ∀ c ∈ P, ProjChar c) : hasOp P = false := by
  unfold hasOp
  rw [List.any_eq_false]
  intro c hc
  have := projChar_ne (h c hc)
  simp [this.2.2.2.1, this.2.2.2.2.1, this.2.2.2.2.2]

/-- the projection text of a proxy without selected columns -/
theorem parseProjection_whole (id H : List Char) (slab : List PSlice)
    (hid : ∀ c ∈ id, plainChar c = true)
    (hHc : ∀ c ∈ H, isDigit c = true ∨ c = ':' ∨ c = '[' ∨ c = ']')
    (hH : H = [] ∨ ∃ m, H = '[' :: m ++ [']']) (hp : parseHyperslab H = .ok slab) :
    parseProjection (id ++ H) = some [[(id, slab)]] ∧ ∀ c ∈ id ++ H, ProjChar c := by
  have hch : ∀ c ∈ id ++ H, ProjChar c := by
    intro c hc
    rcases List.mem_append.mp hc with hc | hc
    · exact .inl (hid c hc)
    · exact .inr (.inl (hHc c hc))
  refine ⟨?_, hch⟩
  have hcomma : ∀ c ∈ id ++ H, c ≠ ',' := by
    intro c hc
    rcases List.mem_append.mp hc with hc | hc
    · exact (plain_ne (hid c hc)).2.1
    · exact (slabChar_ne (hHc c hc)).2.1
  have hpar : ¬ ('(' ∈ id ++ H ∨ ')' ∈ id ++ H) := by
    intro h
    rcases h with h | h
    · exact (projChar_ne (hch _ h)).2.1 rfl
    · exact (projChar_ne (hch _ h)).2.2.1 rfl
  unfold parseProjection
  rw [if_neg hpar, splitOnChar_no_sep _ _ hcomma]
  simp only [List.mapM_cons, List.mapM_nil, parseItem_whole id H slab hid hHc hH hp]
  rfl

/-- the projection text of a proxy with selected columns `k0 :: rest` -/
theorem parseProjection_cols (id H k0 : List Char) (rest : List (List Char)) (slab : List PSlice)
    (hid : ∀ c ∈ id, plainChar c = true) (hks : ∀ k ∈ k0 :: rest, ∀ c ∈ k, plainChar c = true)
    (hHc : ∀ c ∈ H, isDigit c = true ∨ c = ':' ∨ c = '[' ∨ c = ']')
    (hH : H = [] ∨ ∃ m, H = '[' :: m ++ [']']) (hp : parseHyperslab H = .ok slab) :
    parseProjection (joinWith ',' ((id ++ H ++ '.' :: k0) :: rest.map fun k => id ++ '.' :: k))
      = some ([(id, slab), (k0, [])] :: rest.map fun k => [(id, []), (k, [])])
    ∧ ∀ c ∈ joinWith ',' ((id ++ H ++ '.' :: k0) :: rest.map fun k => id ++ '.' :: k), ProjChar c := by
  have hitem : ∀ x ∈ (id ++ H ++ '.' :: k0) :: rest.map (fun k => id ++ '.' :: k), ∀ c ∈ x,
      ProjChar c ∧ c ≠ ',' := by
    intro x hx c hc
    simp only [List.mem_cons, List.mem_map] at hx
    rcases hx with rfl | ⟨k, hk, rfl⟩
    · simp only [List.append_assoc, List.mem_append, List.mem_cons] at hc
      rcases hc with hc | hc | hc | hc
      · exact ⟨.inl (hid c hc), (plain_ne (hid c hc)).2.1⟩
      · exact ⟨.inr (.inl (hHc c hc)), (slabChar_ne (hHc c hc)).2.1⟩
      · subst hc; exact ⟨.inr (.inr (.inl rfl)), by decide⟩
      · exact ⟨.inl (hks k0 (by simp) c hc), (plain_ne (hks k0 (by simp) c hc)).2.1⟩
    · simp only [List.mem_append, List.mem_cons] at hc
      rcases hc with hc | hc | hc
      · exact ⟨.inl (hid c hc), (plain_ne (hid c hc)).2.1⟩
      · subst hc; exact ⟨.inr (.inr (.inl rfl)), by decide⟩
      · exact ⟨.inl (hks k (by simp [hk]) c hc), (plain_ne (hks k (by simp [hk]) c hc)).2.1⟩
  have hch : ∀ c ∈ joinWith ',' ((id ++ H ++ '.' :: k0) :: rest.map fun k => id ++ '.' :: k), ProjChar c := by
    intro c hc
    rcases joinWith_mem _ _ _ hc with h | ⟨x, hx, hcx⟩
    · exact .inr (.inr (.inr h))
    · exact (hitem x hx c hcx).1
  refine ⟨?_, hch⟩
  have hpar : ¬ ('(' ∈ joinWith ',' ((id ++ H ++ '.' :: k0) :: rest.map fun k => id ++ '.' :: k)
      ∨ ')' ∈ joinWith ',' ((id ++ H ++ '.' :: k0) :: rest.map fun k => id ++ '.' :: k)) := by
    intro h
    rcases h with h | h
    · exact (projChar_ne (hch _ h)).2.1 rfl
    · exact (projChar_ne (hch _ h)).2.2.1 rfl
  unfold parseProjection
  rw [if_neg hpar, splitOnChar_joinWith _ _ _ (fun x hx c hc => (hitem x hx c hc).2)]
  have hrest : (rest.map fun k => id ++ '.' :: k).mapM parseItem
      = .ok (rest.map fun k => [(id, ([] : List PSlice)), (k, [])]) := by
    apply mapM_ok_map
    intro k hk
    have := parseItem_col id [] k [] hid (hks k (by simp [hk])) (by simp) (.inl rfl) rfl
    simpa using this
  simp only [List.mapM_cons, parseItem_col id H k0 slab hid (hks k0 (by simp)) hHc hH hp, hrest]
  rfl


theorem mapM_some_map {α β γ} (f : β → Option γ) (g : α → β) (h : α → γ) (l : List α)
    (e : ∀ x ∈ l, f (g x) = some (h x)) : (l.map g).mapM f = some (l.map h) := by
  induction l with
  | nil => rfl
  | cons x xs ih =>
    simp only [List.map_cons, List.mapM_cons, e x (by simp), ih (fun y hy => e y (by simp [hy]))]
    rfl

theorem toRequest_whole (id : Name) (names : List Name) (slab : List PSlice) (sel : List (List Char))
    (conds : List Cond) (hs : sel.mapM CE.parseClause = some conds)
    (hslab : slab = [] ∨ ∃ s, slab = [s]) :
    toRequest id names [[(id, slab)]] sel = some ⟨none, slab.head?, conds⟩ := by
  unfold toRequest
  rw [hs]
  rcases hslab with rfl | ⟨s, rfl⟩ <;> simp [itemOf]

theorem toRequest_cols (id : Name) (names : List Name) (k0 : Name) (rest : List Name) (slab : List PSlice)
    (sel : List (List Char)) (conds : List Cond) (hs : sel.mapM CE.parseClause = some conds)
    (hk : ∀ k ∈ k0 :: rest, k ∈ names) (hnd : (k0 :: rest).Nodup)
    (hslab : slab = [] ∨ ∃ s, slab = [s]) :
    toRequest id names ([(id, slab), (k0, [])] :: rest.map fun k => [(id, []), (k, [])]) sel
      = some ⟨some (k0 :: rest), slab.head?, conds⟩ := by
  have hitems : ([(id, slab), (k0, [])] :: rest.map fun k => [(id, ([] : List PSlice)), (k, [])]).mapM (itemOf id names)
      = some ((some k0, slab) :: rest.map fun k => (some k, [])) := by
    have h1 : (rest.map fun k => [(id, ([] : List PSlice)), (k, ([] : List PSlice))]).mapM (itemOf id names)
        = some (rest.map fun k => (some k, [])) := by
      apply mapM_some_map
      intro k hk'
      simp [itemOf, hk k (by simp [hk'])]
    rw [List.mapM_cons, h1]
    simp [itemOf, hk k0 (by simp)]
  have hfm : ((some k0, slab) :: rest.map fun k => ((some k : Option Name), ([] : List PSlice))).filterMap (·.1)
      = k0 :: rest := by
    simp [List.filterMap_map, Function.comp_def]
  have hall : ((some k0, slab) :: rest.map fun k => ((some k : Option Name), ([] : List PSlice))).all (·.1.isSome) = true := by
    simp
  have hsl : (((some k0, slab) :: rest.map fun k => ((some k : Option Name), ([] : List PSlice))).map (·.2)).filter (· ≠ [])
      = [slab].filter (· ≠ []) := by
    have hz : (rest.map fun _ => ([] : List PSlice)).filter (fun x => !decide (x = [])) = [] := by
      rw [List.filter_eq_nil_iff]; intro a ha; simp at ha; simp [ha.2]
    simp [List.filter_cons, List.map_map, Function.comp_def, hz]
  unfold toRequest
  rw [hs]
  simp only [hitems, List.cons_ne_nil, if_false, hfm, hall, hsl, if_true, hnd]
  rcases hslab with rfl | ⟨s, rfl⟩ <;> simp


/-! ### heap-free descriptions (C14's `Spec`) -/

/-- the query text read off a description -/
def specQuery (s : Proxy.Spec) : List Char :=
  queryText ⟨s.path, s.keys, s.visible⟩
    { baseurl := s.baseurl, template := 0, selection := s.selection, slice := s.slice,
      subChildren := s.subChildren, session := s.session, opts := 0 }

theorem queryText_spec (t : Proxy.Tmpl) (p : Proxy.SeqProxy) : queryText t p = specQuery (Proxy.specOf t p) := rfl

theorem objQuery_of_specAt {h : Proxy.Heap} {r : Nat} {s : Proxy.Spec} (hs : Proxy.specAt h r = some s) :
    objQuery h r = some (specQuery s) := by
  unfold Proxy.specAt at hs
  unfold objQuery
  cases ho : h.objs[r]? with
  | none => simp [ho] at hs
  | some o =>
    cases o with
    | seq p =>
      simp only [ho] at hs ⊢
      cases ht : h.tmpls[p.template]? with
      | none => simp [ht] at hs
      | some t => simp only [ht, Option.map_some, Option.some.injEq] at hs ⊢; rw [← hs]; rfl
    | _ => simp [ho] at hs

/-- what a derivation chain accumulates on a sequence proxy: the selected columns (`sub` = some were
    selected), the selection tokens, the record range -/
structure Acc where
  vis : List Name
  sub : Bool
  sel : List (List Char)
  sl : PSlice

def accSpec (b id : Name) (keys : List Name) (σ : Proxy.Sess) (a : Acc) : Proxy.Spec :=
  ⟨b, [id], keys, a.vis, a.sub, a.sel, [a.sl], σ⟩

/-- the clause a comparison writes -/
def clauseCond {A} (enc : A → List Char) (id : Name) (c : Cmp A) : Cond :=
  ⟨id ++ '.' :: c.col, c.op, match c.rhs with
    | .col k => id ++ '.' :: k
    | .val v => enc v⟩

def accStep {A} (enc : A → List Char) (id : Name) (a : Acc) : COp A → Acc
  | .filt c cs => { a with sel := a.sel ++ (c :: cs).map fun x => CE.renderClause (clauseCond enc id x) }
  | .cols ks => { a with vis := ks, sub := true }
  | .sl s => { a with sl := combine1 a.sl s }
  | .idx i => { a with sl := combine1 a.sl ⟨some i, some (i + 1), none⟩ }

theorem cmpOf_eq {A} (enc : A → List Char) (id : Name) (p : Proxy.SeqProxy) (c : Cmp A) :
    cmpOf enc [id] p c = CE.renderClause (clauseCond enc id c) := by
  obtain ⟨col, op, rhs⟩ := c
  cases rhs <;>
    simp [cmpOf, cmpText, childOf, proxyId, Proxy.seqIds, Proxy.joinDot, operandText, joinWith, clauseCond]

theorem renderClause_chars (c : Cond) (ch : Char) (h : ch ∈ CE.renderClause c) :
    ch ∈ c.id1 ∨ ch ∈ c.id2 ∨ ch = '<' ∨ ch = '>' ∨ ch = '=' ∨ ch = '!' := by
  obtain ⟨a, op, b⟩ := c
  cases op <;> simp [CE.renderClause, CE.ofOp, CE.opText] at h ⊢ <;> grind

/-- a comparison the theorem speaks about: both columns are children of the proxy's template, a value
    is written without `&` -/
def CmpOk {A} (enc : A → List Char) (keys : List Name) (c : Cmp A) : Prop :=
  c.col ∈ keys ∧ match c.rhs with
    | .col k => k ∈ keys
    | .val v => ∀ ch ∈ enc v, ch ≠ '&'

def OpOk {A} (enc : A → List Char) (keys : List Name) : COp A → Prop
  | .filt c cs => ∀ x ∈ c :: cs, CmpOk enc keys x
  | .cols ks => ks ≠ [] ∧ ks.Nodup ∧ ∀ k ∈ ks, k ∈ keys
  | .sl _ => True
  | .idx _ => True

theorem clause_no_amp {A} (enc : A → List Char) (id : Name) (keys : List Name)
    (hid : NameOk id) (hkeys : ∀ k ∈ keys, NameOk k) (c : Cmp A) (hc : CmpOk enc keys c) :
    ∀ ch ∈ CE.renderClause (clauseCond enc id c), ch ≠ '&' := by
  intro ch h
  have hname : ∀ k ∈ keys, ∀ x ∈ id ++ '.' :: k, x ≠ '&' := by
    intro k hk x hx
    simp only [List.mem_append, List.mem_cons] at hx
    rcases hx with hx | hx | hx
    · exact (plain_ne (hid.2 x hx)).1
    · subst hx; decide
    · exact (plain_ne ((hkeys k hk).2 x hx)).1
  rcases renderClause_chars _ _ h with h | h | h | h | h | h
  · exact hname _ hc.1 _ h
  · obtain ⟨col, op, rhs⟩ := c
    cases rhs with
    | col k => exact hname k hc.2 _ h
    | val v => exact hc.2 _ h
  all_goals (subst h; decide)

/-- one derivation step on the description = one step of the accumulation -/
theorem specStep_keyOf {A} (enc : A → List Char) (b id : Name) (keys : List Name) (σ : Proxy.Sess)
    (hid : NameOk id) (hkeys : ∀ k ∈ keys, NameOk k) (p : Proxy.SeqProxy) (a : Acc) (op : COp A)
    (hop : OpOk enc keys op) :
    Proxy.specStep (accSpec b id keys σ a) (keyOf enc [id] p op)
      = some (accSpec b id keys σ (accStep enc id a op)) := by
  cases op with
  | filt c cs =>
    have e : (c :: cs).map (cmpOf enc [id] p) = (c :: cs).map fun x => CE.renderClause (clauseCond enc id x) := by
      apply List.map_congr_left; intro x _; exact cmpOf_eq enc id p x
    have hsplit : splitOnChar '&' (andText ((c :: cs).map (cmpOf enc [id] p)))
        = (c :: cs).map fun x => CE.renderClause (clauseCond enc id x) := by
      rw [e]
      simp only [andText, List.map_cons]
      apply splitOnChar_joinWith
      intro x hx
      simp only [List.mem_cons, List.mem_map] at hx
      rcases hx with rfl | ⟨y, hy, rfl⟩
      · exact clause_no_amp enc id keys hid hkeys c (hop c (by simp))
      · exact clause_no_amp enc id keys hid hkeys y (hop y (by simp [hy]))
    simp only [keyOf, ceKey, hsplit, Proxy.specStep, accSpec, accStep]
  | cols ks => rfl
  | sl s => simp [keyOf, Proxy.specStep, accSpec, accStep, combine, toSlice]
  | idx i => simp [keyOf, Proxy.specStep, accSpec, accStep, combine, toSlice]

theorem specChain_keys {A} (enc : A → List Char) (b id : Name) (keys : List Name) (σ : Proxy.Sess)
    (hid : NameOk id) (hkeys : ∀ k ∈ keys, NameOk k) (p : Proxy.SeqProxy) (ops : List (COp A)) (a : Acc)
    (hops : ∀ op ∈ ops, OpOk enc keys op) :
    Proxy.specChain (accSpec b id keys σ a) (ops.map (keyOf enc [id] p))
      = some (accSpec b id keys σ (ops.foldl (accStep enc id) a)) := by
  induction ops generalizing a with
  | nil => rfl
  | cons op ops ih =>
    simp only [List.map_cons, Proxy.specChain, List.foldl_cons,
      specStep_keyOf enc b id keys σ hid hkeys p a op (hops op (by simp)), Option.bind_some]
    exact ih _ (fun o ho => hops o (by simp [ho]))



/-! ### what the clauses mean -/

/-- the meaning of a comparison: `column OP column | constant` -/
def rcOf {A} (c : Cmp A) : RCond A :=
  ⟨c.col, c.op, match c.rhs with
    | .col k => .name k
    | .val v => .const v⟩

def opRcs {A} : COp A → List (RCond A)
  | .filt c cs => (c :: cs).map rcOf
  | _ => []

/-- selection tokens that the server reads as the clauses `rcs` -/
def SelOk {A} (lit : List Char → Option A) (id : Name) (names : List Name) (sel : List (List Char))
    (rcs : List (RCond A)) : Prop :=
  (∀ x ∈ sel, x ≠ [] ∧ ∀ c ∈ x, c ≠ '&') ∧
    ∃ conds, sel.mapM CE.parseClause = some conds ∧ conds.mapM (resolve lit id names) = some rcs

theorem plain_not_op {c : Char} (h : plainChar c = true) : CE.isOpChar c = false := by
  have := plain_ne h
  simp [CE.isOpChar, this.2.2.2.2.2.2.2.1, this.2.2.2.2.2.2.2.2.1, this.2.2.2.2.2.2.2.2.2.1,
    this.2.2.2.2.2.2.2.2.2.2.1]

theorem clause_reads {A} (enc : A → List Char) (lit : List Char → Option A) (id : Name) (names : List Name)
    (hid : NameOk id) (hnames : ∀ k ∈ names, NameOk k)
    (henc : ∀ v, lit (enc v) = some v) (hhead : ∀ v, rsplitHead (enc v) ≠ id)
    (hst : ∀ v ch r, enc v = ch :: r → ch ≠ '=' ∧ ch ≠ '~')
    (c : Cmp A) (hc : CmpOk enc names c) :
    CE.parseClause (CE.renderClause (clauseCond enc id c)) = some (clauseCond enc id c)
    ∧ resolve lit id names (clauseCond enc id c) = some (rcOf c)
    ∧ CE.renderClause (clauseCond enc id c) ≠ [] := by
  obtain ⟨col, op, rhs⟩ := c
  obtain ⟨hcol, hrhs⟩ := hc
  simp only at hcol hrhs
  have hd : ∀ k ∈ names, ∀ x ∈ k, x ≠ '.' := fun k hk x hx => (plain_ne ((hnames k hk).2 x hx)).2.2.1
  have h1 : ∀ k ∈ names, ∀ ch ∈ id ++ '.' :: k, CE.isOpChar ch = false := by
    intro k hk ch hch
    simp only [List.mem_append, List.mem_cons] at hch
    rcases hch with h | h | h
    · exact plain_not_op (hid.2 ch h)
    · subst h; decide
    · exact plain_not_op ((hnames k hk).2 ch h)
  have hidhead : ∀ k ch r, id ++ '.' :: k = ch :: r → ch ≠ '=' ∧ ch ≠ '~' := by
    intro k ch r e
    obtain ⟨hne, hch⟩ := hid
    cases hi : id with
    | nil => exact absurd hi hne
    | cons i0 irest =>
      rw [hi] at e
      simp only [List.cons_append, List.cons.injEq] at e
      have := hch i0 (by rw [hi]; simp)
      rw [e.1] at this
      have hn := plain_ne this
      exact ⟨hn.2.2.2.2.2.2.2.2.2.1, hn.2.2.2.2.2.2.2.2.2.2.2⟩
  have hne : CE.renderClause (clauseCond enc id ⟨col, op, rhs⟩) ≠ [] := by
    obtain ⟨hne, _⟩ := hid
    simp [CE.renderClause, clauseCond, hne]
  refine ⟨?_, ?_, hne⟩
  · unfold CE.parseClause CE.renderClause
    have h2 : ∀ ch r, (clauseCond enc id ⟨col, op, rhs⟩).id2 = ch :: r → ch ≠ '=' ∧ ch ≠ '~' := by
      cases rhs with
      | col k => exact hidhead k
      | val v => exact hst v
    have h3 := splitClause_render (clauseCond enc id ⟨col, op, rhs⟩).id1
      (CE.ofOp (clauseCond enc id ⟨col, op, rhs⟩).op) (clauseCond enc id ⟨col, op, rhs⟩).id2 (h1 col hcol) h2
    rw [h3]
    cases op <;> rfl
  · cases rhs with
    | col k =>
      simp [clauseCond, rcOf, resolve, rsplitDot_append id col (hd col hcol), hcol, rsplitHead, lastTok,
        rsplitDot_append id k (hd k hrhs), hrhs]
    | val v =>
      simp [clauseCond, rcOf, resolve, rsplitDot_append id col (hd col hcol), hcol, hhead v, henc v]

theorem mapM_append_some {α β} (f : α → Option β) (l1 l2 : List α) (r1 r2 : List β)
    (h1 : l1.mapM f = some r1) (h2 : l2.mapM f = some r2) : (l1 ++ l2).mapM f = some (r1 ++ r2) := by
  rw [List.mapM_append, h1, h2]; rfl

theorem selOk_step {A} (enc : A → List Char) (lit : List Char → Option A) (id : Name) (names keys : List Name)
    (hid : NameOk id) (hnames : ∀ k ∈ names, NameOk k) (hkeys : ∀ k ∈ keys, k ∈ names)
    (henc : ∀ v, lit (enc v) = some v) (hhead : ∀ v, rsplitHead (enc v) ≠ id)
    (hst : ∀ v ch r, enc v = ch :: r → ch ≠ '=' ∧ ch ≠ '~')
    (a : Acc) (rcs : List (RCond A)) (op : COp A) (hop : OpOk enc keys op)
    (h : SelOk lit id names a.sel rcs) : SelOk lit id names (accStep enc id a op).sel (rcs ++ opRcs op) := by
  cases op with
  | filt c cs =>
    have hok : ∀ x ∈ c :: cs, CmpOk enc names x := by
      intro x hx
      obtain ⟨h1, h2⟩ := hop x hx
      refine ⟨hkeys _ h1, ?_⟩
      obtain ⟨col, o, rhs⟩ := x
      cases rhs with
      | col k => exact hkeys _ h2
      | val v => exact h2
    obtain ⟨hs1, conds, hs2, hs3⟩ := h
    have hnew1 : ((c :: cs).map fun x => CE.renderClause (clauseCond enc id x)).mapM CE.parseClause
        = some ((c :: cs).map (clauseCond enc id)) := by
      apply mapM_some_map
      intro x hx
      exact (clause_reads enc lit id names hid hnames henc hhead hst x (hok x hx)).1
    have hnew2 : ((c :: cs).map (clauseCond enc id)).mapM (resolve lit id names) = some ((c :: cs).map rcOf) := by
      apply mapM_some_map
      intro x hx
      exact (clause_reads enc lit id names hid hnames henc hhead hst x (hok x hx)).2.1
    refine ⟨?_, conds ++ (c :: cs).map (clauseCond enc id), ?_, ?_⟩
    · intro x hx
      simp only [accStep, List.mem_append, List.mem_map] at hx
      rcases hx with hx | ⟨y, hy, rfl⟩
      · exact hs1 x hx
      · exact ⟨(clause_reads enc lit id names hid hnames henc hhead hst y (hok y hy)).2.2,
          clause_no_amp enc id names hid hnames y (hok y hy)⟩
    · exact mapM_append_some _ _ _ _ _ hs2 hnew1
    · exact mapM_append_some _ _ _ _ _ hs3 hnew2
  | cols ks => simpa [accStep, opRcs] using h
  | sl s => simpa [accStep, opRcs] using h
  | idx i => simpa [accStep, opRcs] using h

/-- the selected columns of an accumulation are usable: non-empty, distinct, children of the template -/
def VisOk (keys : List Name) (a : Acc) : Prop :=
  a.sub = true → a.vis ≠ [] ∧ a.vis.Nodup ∧ ∀ k ∈ a.vis, k ∈ keys

theorem visOk_step {A} (enc : A → List Char) (id : Name) (keys : List Name) (a : Acc) (op : COp A)
    (hop : OpOk enc keys op) (h : VisOk keys a) : VisOk keys (accStep enc id a op) := by
  cases op with
  | cols ks => intro _; exact hop
  | filt c cs => exact h
  | sl s => exact h
  | idx i => exact h

theorem run_invariants {A} (enc : A → List Char) (lit : List Char → Option A) (id : Name) (names keys : List Name)
    (hid : NameOk id) (hnames : ∀ k ∈ names, NameOk k) (hkeys : ∀ k ∈ keys, k ∈ names)
    (henc : ∀ v, lit (enc v) = some v) (hhead : ∀ v, rsplitHead (enc v) ≠ id)
    (hst : ∀ v ch r, enc v = ch :: r → ch ≠ '=' ∧ ch ≠ '~')
    (ops : List (COp A)) (a : Acc) (rcs : List (RCond A)) (hops : ∀ op ∈ ops, OpOk enc keys op)
    (hs : SelOk lit id names a.sel rcs) (hv : VisOk keys a) :
    SelOk lit id names (ops.foldl (accStep enc id) a).sel (rcs ++ ops.flatMap opRcs)
    ∧ VisOk keys (ops.foldl (accStep enc id) a) := by
  induction ops generalizing a rcs with
  | nil => simpa using ⟨hs, hv⟩
  | cons op ops ih =>
    have := ih (accStep enc id a op) (rcs ++ opRcs op) (fun o ho => hops o (by simp [ho]))
      (selOk_step enc lit id names keys hid hnames hkeys henc hhead hst a rcs op (hops op (by simp)) hs)
      (visOk_step enc id keys a op (hops op (by simp)) hv)
    simpa [List.flatMap_cons, List.append_assoc] using this



def pOf (b : Name) (sel : List (List Char)) (sl : PSlice) (sub : Bool) (σ : Proxy.Sess) : Proxy.SeqProxy :=
  { baseurl := b, template := 0, selection := sel, slice := [sl], subChildren := sub, session := σ, opts := 0 }

theorem rsplitDot_nodot (s : List Char) (h : ∀ c ∈ s, c ≠ '.') : rsplitDot s = none := by
  cases hr : rsplitDot s with
  | none => rfl
  | some ab =>
    obtain ⟨a, b⟩ := ab
    obtain ⟨e, _⟩ := rsplitDot_some s a b hr
    exact absurd rfl (h '.' (by rw [e]; simp))

/-- on a proxy whose template is the sequence itself (`path = [id]`, no dot in `id`) the single-column branch of
    `_projection` is not taken -/
theorem projFull_seq (id : Name) (hid : ∀ c ∈ id, c ≠ '.') (keys vis : List Name) (p : Proxy.SeqProxy) :
    projFull ⟨[id], keys, vis⟩ p = projText ⟨[id], keys, vis⟩ p := by
  unfold projFull
  by_cases h1 : p.subChildren = true ∧ vis ≠ []
  · simp only [h1, and_self, if_true, ne_eq, not_false_eq_true]
  · rw [if_neg h1]
    by_cases h2 : keys = []
    · rw [if_pos h2]
      have hn : rsplitDot (proxyId ⟨[id], keys, vis⟩ p) = none := by
        apply rsplitDot_nodot
        intro c hc
        unfold proxyId Proxy.seqIds at hc
        cases hs : p.subChildren with
        | false => simp only [hs, Bool.false_eq_true, if_false, joinWith, Proxy.joinDot] at hc; exact hid c hc
        | true =>
          have hv : vis = [] := by
            by_cases hv : vis = []
            · exact hv
            · exact absurd ⟨hs, hv⟩ h1
          simp [hs, hv, joinWith] at hc
      rw [hn]
    · rw [if_neg h2]

/-- **the request on the wire**: the query text of an accumulated description is read by the server as
    the request made of the accumulated columns, record range and clauses -/
theorem query_request {A} (lit : List Char → Option A) (b id : Name) (keys names : List Name) (σ : Proxy.Sess)
    (a : Acc) (rcs : List (RCond A))
    (hid : NameOk id) (hnames : ∀ k ∈ names, NameOk k) (hkeys : ∀ k ∈ keys, k ∈ names)
    (hvis : VisOk keys a) (hsel : SelOk lit id names a.sel rcs) (hr : RangeOk a.sl) :
    ∃ conds, conds.mapM (resolve lit id names) = some rcs ∧
      (parseCE (specQuery (accSpec b id keys σ a))).bind (fun ps => toRequest id names ps.1 ps.2)
        = some ⟨if a.sub then some a.vis else none, wireRange a.sl, conds⟩ := by
  obtain ⟨hs1, conds, hs2, hs3⟩ := hsel
  refine ⟨conds, hs3, ?_⟩
  obtain ⟨hp, hHc, hH⟩ := slab_facts a.sl hr
  have hslab : (wireRange a.sl).toList = [] ∨ ∃ s, (wireRange a.sl).toList = [s] := by
    cases wireRange a.sl <;> simp
  have hhead : (wireRange a.sl).toList.head? = wireRange a.sl := by
    cases wireRange a.sl <;> rfl
  obtain ⟨vis, sub, sel, sl⟩ := a
  simp only at hs1 hs2 hp hHc hH hslab hhead hr
  cases sub with
  | false =>
    have hproj : projText ⟨[id], keys, vis⟩ (pOf b sel sl false σ) = id ++ hyperslabText [sl] := by
      simp [projText, proxyId, Proxy.seqIds, Proxy.joinDot, joinWith, pOf]
    obtain ⟨hpp, hch⟩ := parseProjection_whole id (hyperslabText [sl]) _ hid.2 hHc hH hp
    have hne : id ++ hyperslabText [sl] ≠ [] := by simp [hid.1]
    show (parseCE (rstripChar '&' (projFull ⟨[id], keys, vis⟩ (pOf b sel sl false σ) ++ '&' :: joinWith '&' sel))).bind _ = _
    rw [projFull_seq id (fun c hc => (plain_ne (hid.2 c hc)).2.2.1), hproj]
    rw [parseCE_query _ _ hne (fun c hc => (projChar_ne (hch c hc)).1) (hasOp_false _ hch) hs1, hpp]
    simp only [Option.map_some, Option.bind_some]
    rw [toRequest_whole id names _ sel conds hs2 hslab, hhead]
    rfl
  | true =>
    obtain ⟨hv1, hv2, hv3⟩ := hvis rfl
    simp only at hv1 hv2 hv3
    cases vis with
    | nil => exact absurd rfl hv1
    | cons k0 rest =>
      have hdrop : (id ++ '.' :: k0).drop id.length = '.' :: k0 := by simp
      have hproj : projText ⟨[id], keys, k0 :: rest⟩ (pOf b sel sl true σ)
          = joinWith ',' ((id ++ hyperslabText [sl] ++ '.' :: k0) :: rest.map fun k => id ++ '.' :: k) := by
        simp [projText, Proxy.seqIds, Proxy.joinDot, pOf]
      have hks : ∀ k ∈ k0 :: rest, ∀ c ∈ k, plainChar c = true :=
        fun k hk => (hnames k (hkeys k (hv3 k hk))).2
      obtain ⟨hpp, hch⟩ := parseProjection_cols id (hyperslabText [sl]) k0 rest _ hid.2 hks hHc hH hp
      have hne : joinWith ',' ((id ++ hyperslabText [sl] ++ '.' :: k0) :: rest.map fun k => id ++ '.' :: k) ≠ [] := by
        cases rest <;> simp [joinWith, hid.1]
      show (parseCE (rstripChar '&' (projFull ⟨[id], keys, k0 :: rest⟩ (pOf b sel sl true σ) ++ '&' :: joinWith '&' sel))).bind _ = _
      rw [projFull_seq id (fun c hc => (plain_ne (hid.2 c hc)).2.2.1), hproj]
      rw [parseCE_query _ _ hne (fun c hc => (projChar_ne (hch c hc)).1) (hasOp_false _ hch) hs1, hpp]
      simp only [Option.map_some, Option.bind_some]
      rw [toRequest_cols id names k0 rest _ sel conds hs2 (fun k hk => hkeys k (hv3 k hk)) hv2 hslab, hhead]
      rfl



/-! ### the opened proxy as an accumulation; the unbounded stop -/

def openAcc (id : Name) (names : List Name) (u : UrlCE) : Acc :=
  ⟨(openTmpl id names u).visible, u.proj.isSome, u.sel,
   match u.proj with
   | some (_, some r) => r
   | _ => PSlice.all⟩

theorem open_spec (base id : Name) (names : List Name) (σ : Proxy.Sess) (tm : Nat) (u : UrlCE) :
    Proxy.specOf (openTmpl id names u) (openProxy base σ tm u)
      = accSpec base id (openTmpl id names u).keys σ (openAcc id names u) := by
  obtain ⟨proj, sel⟩ := u
  cases proj with
  | none => rfl
  | some pr => obtain ⟨c, r⟩ := pr; rfl

/-- the record range of the reference: none for `slice(None)`, else the slice the proxy holds -/
def rangeList (s : PSlice) : List PSlice := if s = PSlice.all then [] else [s]

theorem mapM_some_length {α β} (f : α → Option β) : ∀ (l : List α) (r : List β), l.mapM f = some r → r.length = l.length
  | [], r, h => by simp at h; subst h; rfl
  | x :: xs, r, h => by
    rw [List.mapM_cons] at h
    cases hx : f x with
    | none => simp [hx] at h
    | some y =>
      cases hr : xs.mapM f with
      | none => simp [hx, hr] at h
      | some ys =>
        simp [hx, hr] at h
        subst h
        simp [mapM_some_length f xs ys hr]

/-- a stop of `MAXSIZE` (how an absent stop travels) selects what the absent stop selects, on any
    source of at most `MAXSIZE` records -/
theorem refEval_wire {A} (cmp : Op → A → A → Bool) (names : List Name) (rcs : List (RCond A)) (lay : Layout)
    (s : PSlice) (rows : List (List A)) (hlen : (rows.length : Int) ≤ MAXSIZE) :
    refEval cmp names ⟨rcs, lay, (wireRange s).toList⟩ rows = refEval cmp names ⟨rcs, lay, rangeList s⟩ rows := by
  unfold wireRange rangeList
  by_cases hall : s = PSlice.all
  · simp [hall]
  · simp only [hall, if_false, Option.toList]
    obtain ⟨st, sp, k⟩ := s
    cases sp with
    | some b => rfl
    | none =>
      unfold refEval
      simp only
      cases hm : (rows.filter fun r => rcs.all (refCond cmp names r)).mapM (refItem names · lay) with
      | none => rfl
      | some items =>
        have hl : items.length ≤ rows.length := by
          rw [mapM_some_length _ _ _ hm]; exact List.length_filter_le _ _
        have ht : items.take MAXSIZE.toNat = items := by
          apply List.take_of_length_le
          have : (0 : Int) ≤ MAXSIZE := by decide
          omega
        simp only [applySlices, wireSl, islice, isliceArgs]
        have hM : ¬ (MAXSIZE < 0) := by decide
        simp only [hM, if_false]
        split <;> simp [bind, Except.bind, pure, Except.pure, ht]


/-- the constraint of the URL given to `open_url` is one the theorem speaks about: its selection tokens
    read as the clauses `rcs0` of the sequence, its columns (if any) are distinct columns of the sequence -/
def UrlOk {A} (lit : List Char → Option A) (id : Name) (names : List Name) (u : UrlCE) (rcs0 : List (RCond A)) : Prop :=
  SelOk lit id names u.sel rcs0 ∧
    ∀ cols r, u.proj = some (some cols, r) → cols ≠ [] ∧ cols.Nodup ∧ ∀ k ∈ cols, k ∈ names


end Pydap.SeqClient
