import PydapModel.Seq
import PydapModel.TableVal
import Proofs.Seq
import Proofs.Hyperslab
namespace Pydap.Seq
open Pydap Pydap.IterData Pydap.TableVal

/-! ### (1) `litVal ∘ encVal = some` -/

theorem litVal_encVal_str (s : List Char) : litVal (encVal (.str s)) = some (.str s) := by
  simp [litVal, encVal]

/-- the part of `litNum` after the sign has been taken off -/
def litNumCore (neg : Bool) (body : List Char) : Option Val :=
  let (ip, fp) := match splitOnChar '.' body with
    | [a] => (a, [])
    | [a, b] => (a, b)
    | _ => ([], ['x'])
  if ip = [] then none else
  match parseNatChars ip, (if fp = [] then some 0 else parseNatChars fp) with
  | some i, some f =>
    let den := pow10 fp.length
    let numer := (i * den + f) * 16
    if numer % den = 0 then
      let v : Int := (numer / den : Nat)
      some (.num (if neg then -v else v))
    else none
  | _, _ => none

theorem litNum_neg (r : List Char) : litNum ('-' :: r) = litNumCore true r := rfl

theorem litNum_pos (c : Char) (r : List Char) (h : c ≠ '-') :
    litNum (c :: r) = litNumCore false (c :: r) := by
  unfold litNum
  split
  rename_i heq
  split at heq
  · rename_i heq'; simp at heq'; exact absurd heq'.1 h
  · simp only [Prod.mk.injEq] at heq
    obtain ⟨rfl, rfl⟩ := heq
    rfl

theorem pow10_pos (k : Nat) : 0 < pow10 k := by
  induction k with
  | zero => simp [pow10]
  | succ k ih => simp [pow10]; omega

theorem allDigits_no_dot {l : List Char} (h : AllDigits l) : ∀ c ∈ l, c ≠ '.' :=
  fun c hc => digit_ne (h c hc) (by decide)

theorem litNumCore_digits (neg : Bool) (ip fp : List Char) (i f v : Nat)
    (hipd : AllDigits ip) (hipne : ip ≠ []) (hi : parseNatChars ip = some i)
    (hfpd : AllDigits fp) (hf : (if fp = [] then some 0 else parseNatChars fp) = some f)
    (hv : (i * pow10 fp.length + f) * 16 = v * pow10 fp.length) :
    litNumCore neg (ip ++ (if fp = [] then [] else '.' :: fp))
      = some (.num (if neg then -(v : Int) else v)) := by
  have hsplit : (match splitOnChar '.' (ip ++ (if fp = [] then [] else '.' :: fp)) with
      | [a] => (a, [])
      | [a, b] => (a, b)
      | _ => ([], ['x'])) = (ip, fp) := by
    by_cases e : fp = []
    · subst e
      simp [splitOnChar_no_sep '.' ip (allDigits_no_dot hipd)]
    · simp only [e, if_false]
      rw [splitOnChar_append '.' ip fp (allDigits_no_dot hipd),
        splitOnChar_no_sep '.' fp (allDigits_no_dot hfpd)]
  unfold litNumCore
  rw [hsplit]
  simp only [hipne, if_false, hi, hf, hv]
  have hp := pow10_pos fp.length
  rw [Nat.mul_mod_left, Nat.mul_div_cancel _ hp]
  simp

/-- the sixteen fractional parts `m/16`, printed -/
theorem frac_digits (m : Nat) (h : m < 16) :
    ∃ fp f, stripTrailingZeros (pad4 (natDigits (m * 625))) = fp ∧ AllDigits fp
      ∧ (if fp = [] then some 0 else parseNatChars fp) = some f
      ∧ f * 16 = m * pow10 fp.length := by
  rcases m with _|_|_|_|_|_|_|_|_|_|_|_|_|_|_|_|m
  · exact ⟨[], 0, by simp [natDigits]; rfl, by unfold AllDigits; decide, by decide, by decide⟩
  · exact ⟨['0', '6', '2', '5'], 625, by simp [natDigits]; rfl, by unfold AllDigits; decide, by decide, by decide⟩
  · exact ⟨['1', '2', '5'], 125, by simp [natDigits]; rfl, by unfold AllDigits; decide, by decide, by decide⟩
  · exact ⟨['1', '8', '7', '5'], 1875, by simp [natDigits]; rfl, by unfold AllDigits; decide, by decide, by decide⟩
  · exact ⟨['2', '5'], 25, by simp [natDigits]; rfl, by unfold AllDigits; decide, by decide, by decide⟩
  · exact ⟨['3', '1', '2', '5'], 3125, by simp [natDigits]; rfl, by unfold AllDigits; decide, by decide, by decide⟩
  · exact ⟨['3', '7', '5'], 375, by simp [natDigits]; rfl, by unfold AllDigits; decide, by decide, by decide⟩
  · exact ⟨['4', '3', '7', '5'], 4375, by simp [natDigits]; rfl, by unfold AllDigits; decide, by decide, by decide⟩
  · exact ⟨['5'], 5, by simp [natDigits]; rfl, by unfold AllDigits; decide, by decide, by decide⟩
  · exact ⟨['5', '6', '2', '5'], 5625, by simp [natDigits]; rfl, by unfold AllDigits; decide, by decide, by decide⟩
  · exact ⟨['6', '2', '5'], 625, by simp [natDigits]; rfl, by unfold AllDigits; decide, by decide, by decide⟩
  · exact ⟨['6', '8', '7', '5'], 6875, by simp [natDigits]; rfl, by unfold AllDigits; decide, by decide, by decide⟩
  · exact ⟨['7', '5'], 75, by simp [natDigits]; rfl, by unfold AllDigits; decide, by decide, by decide⟩
  · exact ⟨['8', '1', '2', '5'], 8125, by simp [natDigits]; rfl, by unfold AllDigits; decide, by decide, by decide⟩
  · exact ⟨['8', '7', '5'], 875, by simp [natDigits]; rfl, by unfold AllDigits; decide, by decide, by decide⟩
  · exact ⟨['9', '3', '7', '5'], 9375, by simp [natDigits]; rfl, by unfold AllDigits; decide, by decide, by decide⟩
  · omega

theorem litVal_of_head (c : Char) (r : List Char) (h : c ≠ '"') :
    litVal (c :: r) = litNum (c :: r) := by
  unfold litVal
  split
  · rename_i heq; simp at heq; exact absurd heq.1 h
  · rfl

theorem litVal_encVal_num (n : Int) : litVal (encVal (.num n)) = some (.num n) := by
  obtain ⟨fp, f, hfp, hd, hf, hm⟩ := frac_digits (n.natAbs % 16) (Nat.mod_lt _ (by decide))
  have hv : (n.natAbs / 16 * pow10 fp.length + f) * 16 = n.natAbs * pow10 fp.length := by
    have ha : n.natAbs = 16 * (n.natAbs / 16) + n.natAbs % 16 := by omega
    generalize n.natAbs / 16 = q at *
    generalize n.natAbs % 16 = r at *
    rw [ha, Nat.add_mul (q * _), Nat.add_mul (16 * q), Nat.mul_assoc 16, ← hm]
    omega
  have hcore := fun neg => litNumCore_digits neg (natDigits (n.natAbs / 16)) fp (n.natAbs / 16) f n.natAbs
    (natDigits_allDigits _) (natDigits_ne_nil _) (parseNatChars_natDigits _) hd hf hv
  simp only [encVal, hfp]
  by_cases hn : n < 0
  · simp only [hn, if_true, List.cons_append, List.nil_append]
    rw [litVal_of_head _ _ (by decide), litNum_neg, hcore true]
    simp only [if_true]
    congr 2
    omega
  · simp only [hn, if_false, List.nil_append]
    have hne := natDigits_ne_nil (n.natAbs / 16)
    have hcd := natDigits_allDigits (n.natAbs / 16)
    have hc := hcore false
    cases hl : natDigits (n.natAbs / 16) with
    | nil => exact absurd hl hne
    | cons c cs =>
      rw [hl] at hc hcd
      have hcdig : isDigit c = true := hcd c (by simp)
      simp only [List.cons_append] at hc ⊢
      rw [litVal_of_head _ _ (digit_ne hcdig (by decide)), litNum_pos _ _ (digit_ne hcdig (by decide)), hc]
      simp only [Bool.false_eq_true, if_false]
      congr 2
      omega

/-! ### (2) the rebuilt clauses resolve to the same meaning -/

theorem rsplitDot_no_dot : ∀ (t : List Char), (∀ c ∈ t, c ≠ '.') → rsplitDot t = none
  | [], _ => rfl
  | c :: cs, h => by
    have := rsplitDot_no_dot cs (fun x hx => h x (by simp [hx]))
    have hc : c ≠ '.' := h c (by simp)
    simp [rsplitDot, this, hc]

theorem rsplitDot_append (h t : List Char) (ht : ∀ c ∈ t, c ≠ '.') :
    rsplitDot (h ++ '.' :: t) = some (h, t) := by
  induction h with
  | nil => simp [rsplitDot, rsplitDot_no_dot t ht]
  | cons c cs ih => simp [rsplitDot, ih]

theorem rsplitDot_some_spec : ∀ (s h t : List Char), rsplitDot s = some (h, t) →
    s = h ++ '.' :: t ∧ ∀ c ∈ t, c ≠ '.'
  | [], h, t, e => by simp [rsplitDot] at e
  | c :: cs, h, t, e => by
    unfold rsplitDot at e
    cases hd : rsplitDot cs with
    | some p =>
      obtain ⟨h', t'⟩ := p
      simp [hd] at e
      obtain ⟨rfl, rfl⟩ := e
      obtain ⟨e1, e2⟩ := rsplitDot_some_spec cs h' t' hd
      exact ⟨by rw [e1]; rfl, e2⟩
    | none =>
      simp [hd] at e
      obtain ⟨rfl, rfl, rfl⟩ := e
      exact ⟨rfl, rsplitDot_none_no_dot _ hd⟩

theorem lastTok_no_dot (s : List Char) : ∀ c ∈ lastTok s, c ≠ '.' := by
  unfold lastTok
  cases hd : rsplitDot s with
  | none => exact rsplitDot_none_no_dot _ hd
  | some p => obtain ⟨h, t⟩ := p; exact (rsplitDot_some_spec s h t hd).2

/-- what a resolved clause is made of: header names without dots -/
theorem resolve_shape {A} {lit : List Char → Option A} {id : Name} {names : List Name} {c : Cond}
    {rc : RCond A} (h : resolve lit id names c = some rc) :
    rc.c1 ∈ names ∧ (∀ x ∈ rc.c1, x ≠ '.') ∧
      ∀ k, rc.rhs = .name k → k ∈ names ∧ ∀ x ∈ k, x ≠ '.' := by
  unfold resolve at h
  cases hsp : rsplitDot c.id1 with
  | none => simp [hsp] at h
  | some p =>
    obtain ⟨p1, c1⟩ := p
    simp only [hsp] at h
    have hnd := (rsplitDot_some_spec _ _ _ hsp).2
    by_cases hp : p1 = id ∧ c1 ∈ names
    · simp only [hp, and_self, if_true] at h
      by_cases h2 : rsplitHead c.id2 = id
      · simp only [h2, if_true] at h
        by_cases hm : lastTok c.id2 ∈ names
        · simp only [hm, if_true, Option.some.injEq] at h
          subst h
          refine ⟨hp.2, hnd, ?_⟩
          intro k hk
          simp at hk
          subst hk
          exact ⟨hm, lastTok_no_dot _⟩
        · simp [hm] at h
      · simp only [h2, if_false] at h
        cases hlit : lit c.id2 with
        | none => simp [hlit] at h
        | some v =>
          simp [hlit] at h
          subst h
          exact ⟨hp.2, hnd, by intro k hk; simp at hk⟩
    · simp [hp] at h

theorem rerender_resolve_one {A} (enc : A → List Char) (lit : List Char → Option A) (id : Name)
    (names : List Name) (hid : id ∉ names) (hne : [] ∉ names)
    (henc : ∀ v, lit (enc v) = some v)
    (hhead : ∀ v, rsplitHead (enc v) ≠ id)
    (c : Cond) (rc : RCond A) (h : resolve lit id names c = some rc) :
    relevant id c = true ∧
      ∃ c', rerender enc lit id names c = some c' ∧ resolve lit id names c' = some rc := by
  obtain ⟨hrel, h1, h2, hop⟩ := operand_of_resolve hid hne h
  obtain ⟨hc1, hd1, hrhs⟩ := resolve_shape h
  refine ⟨hrel, ?_⟩
  obtain ⟨c1, op, rhs⟩ := rc
  simp only at h1 h2 hop hc1 hd1 hrhs
  subst hop
  cases rhs with
  | name c2 =>
    obtain ⟨hc2, hd2⟩ := hrhs c2 rfl
    refine ⟨⟨id ++ '.' :: c1, c.op, id ++ '.' :: c2⟩, by simp [rerender, h1, h2], ?_⟩
    simp [resolve, rsplitDot_append id c1 hd1, hc1, rsplitHead, lastTok, rsplitDot_append id c2 hd2, hc2]
  | const v =>
    refine ⟨⟨id ++ '.' :: c1, c.op, enc v⟩, by simp [rerender, h1, h2], ?_⟩
    simp [resolve, rsplitDot_append id c1 hd1, hc1, hhead v, henc v]

theorem rerender_resolves {A} (enc : A → List Char) (lit : List Char → Option A) (id : Name)
    (names : List Name) (hid : id ∉ names) (hne : [] ∉ names)
    (henc : ∀ v, lit (enc v) = some v)
    (hhead : ∀ v, rsplitHead (enc v) ≠ id)
    (cl : List Cond) (rcs : List (RCond A))
    (hcl : cl.mapM (resolve lit id names) = some rcs) :
    ∃ cs, (cl.filter (relevant id)).mapM (rerender enc lit id names) = some cs
          ∧ cs.mapM (resolve lit id names) = some rcs := by
  induction cl generalizing rcs with
  | nil =>
    simp at hcl; subst hcl
    exact ⟨[], by simp, by simp⟩
  | cons c cl ih =>
    rw [List.mapM_cons] at hcl
    cases hc : resolve lit id names c with
    | none => simp [hc] at hcl
    | some rc =>
      cases hr : cl.mapM (resolve lit id names) with
      | none => simp [hc, hr] at hcl
      | some rest =>
        simp [hc, hr] at hcl
        subst hcl
        obtain ⟨hrel, c', hc1, hc2⟩ := rerender_resolve_one enc lit id names hid hne henc hhead c rc hc
        obtain ⟨cs, hcs1, hcs2⟩ := ih rest hr
        refine ⟨c' :: cs, ?_, ?_⟩
        · rw [List.filter_cons_of_pos hrel, List.mapM_cons, hc1, hcs1]; rfl
        · rw [List.mapM_cons, hc2, hcs2]; rfl

/-! ### (3) an encoded value does not read as a column of the sequence -/

/-- `rsplitHead s` is empty or starts with the first character of `s` -/
theorem rsplitHead_head (s : List Char) (c : Char) (r : List Char) (h : rsplitHead s = c :: r) :
    ∃ r', s = c :: r' := by
  unfold rsplitHead at h
  cases hd : rsplitDot s with
  | none => simp [hd] at h; exact ⟨r, h⟩
  | some p =>
    obtain ⟨hh, t⟩ := p
    simp [hd] at h
    subst h
    exact ⟨r ++ '.' :: t, (rsplitDot_some_spec s _ t hd).1⟩

theorem isDigit_not_alpha (c : Char) (h : isDigit c = true) : c.isAlpha = false := by
  unfold isDigit at h
  simp only [Bool.and_eq_true, decide_eq_true_eq] at h
  have h2 : c.toNat ≤ '9'.toNat := h.2
  simp only [Char.reduceToNat] at h2
  simp [Char.isAlpha, Char.isUpper, Char.isLower]
  have h3 : c.val.toNat ≤ 57 := h2
  constructor <;> intro hle <;> have h4 := UInt32.le_iff_toNat_le.mp hle <;>
    simp at h4 <;> omega

/-- the first character of an encoded value: `-`, a digit, or `"` -/
theorem encVal_head (v : Val) : ∃ c r, encVal v = c :: r ∧ (c = '-' ∨ c = '"' ∨ isDigit c = true) := by
  cases v with
  | str s => exact ⟨'"', s ++ ['"'], rfl, Or.inr (Or.inl rfl)⟩
  | num n =>
    by_cases hn : n < 0
    · exact ⟨'-', _, by simp only [encVal, hn, if_true]; rfl, Or.inl rfl⟩
    · have hne := natDigits_ne_nil (n.natAbs / 16)
      have hcd := natDigits_allDigits (n.natAbs / 16)
      cases hl : natDigits (n.natAbs / 16) with
      | nil => exact absurd hl hne
      | cons c cs =>
        rw [hl] at hcd
        exact ⟨c, _, by simp only [encVal, hn, if_false, hl]; rfl, Or.inr (Or.inr (hcd c (by simp)))⟩

/-- general form: the sequence id is non-empty and starts with neither `-`, `"` nor a digit -/
theorem encVal_head_ne' (id : Name)
    (hidc : ∃ c r, id = c :: r ∧ c ≠ '-' ∧ c ≠ '"' ∧ isDigit c = false) (v : Val) :
    rsplitHead (encVal v) ≠ id := by
  obtain ⟨c, r, rfl, h1, h2, h3⟩ := hidc
  intro e
  obtain ⟨r', hr'⟩ := rsplitHead_head _ _ _ e
  obtain ⟨d, r'', hd, hcase⟩ := encVal_head v
  rw [hd] at hr'
  simp only [List.cons.injEq] at hr'
  obtain ⟨rfl, _⟩ := hr'
  rcases hcase with rfl | rfl | hdig
  · exact h1 rfl
  · exact h2 rfl
  · rw [hdig] at h3; cases h3

theorem encVal_head_ne (id : Name) (hidc : ∃ c r, id = c :: r ∧ c.isAlpha = true) (v : Val) :
    rsplitHead (encVal v) ≠ id := by
  obtain ⟨c, r, rfl, hc⟩ := hidc
  refine encVal_head_ne' _ ⟨c, r, rfl, ?_, ?_, ?_⟩ v
  · rintro rfl; revert hc; decide
  · rintro rfl; revert hc; decide
  · cases hd : isDigit c with
    | false => rfl
    | true => rw [isDigit_not_alpha c hd] at hc; cases hc

theorem litVal_encVal (v : Val) : litVal (encVal v) = some v := by
  cases v with
  | num n => exact litVal_encVal_num n
  | str s => exact litVal_encVal_str s

/-- (2) at the driver's values: the hypothesis `hcl` of `C04_serve_lazy` follows from the
    resolution of the request's own clauses -/
theorem rerender_resolves_val (id : Name) (names : List Name)
    (hid : id ∉ names) (hne : [] ∉ names) (hidc : ∃ c r, id = c :: r ∧ c.isAlpha = true)
    (cl : List Cond) (rcs : List (RCond Val))
    (hcl : cl.mapM (resolve litVal id names) = some rcs) :
    ∃ cs, (cl.filter (relevant id)).mapM (rerender encVal litVal id names) = some cs
          ∧ cs.mapM (resolve litVal id names) = some rcs :=
  rerender_resolves encVal litVal id names hid hne litVal_encVal (encVal_head_ne id hidc) cl rcs hcl

end Pydap.Seq
