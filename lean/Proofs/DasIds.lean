import Proofs.DasTotal
import Proofs.DasFlat
/-! Variable ids are pairwise distinct when sibling names are distinct and dot-free: `dotted` (= `".".join`) is injective
    on such paths, and the walk visits every path once (C08, the hypothesis of the flat-style theorems). -/
namespace Pydap.Das

mutual
/-- at every level: names without `.`, sibling names pairwise distinct -/
def VarNames : Var → Prop
  | .mk _ n _ cs => '.' ∉ n ∧ (cs.map Var.name).Nodup ∧ VarsNames cs
def VarsNames : List Var → Prop
  | [] => True
  | v :: rest => VarNames v ∧ VarsNames rest
end

/-- cutting at the first dot -/
theorem dot_split (n : Text) : ∀ (m X Y : Text), '.' ∉ n → '.' ∉ m →
    n ++ '.' :: X = m ++ '.' :: Y → n = m ∧ X = Y := by
  induction n with
  | nil =>
    intro m X Y _ hm h
    cases m with
    | nil => simp at h; exact ⟨rfl, h⟩
    | cons c m' =>
      simp only [List.nil_append, List.cons_append, List.cons.injEq] at h
      exact absurd (by rw [← h.1]; simp) hm
  | cons a n' ih =>
    intro m X Y hn hm h
    cases m with
    | nil =>
      simp only [List.nil_append, List.cons_append, List.cons.injEq] at h
      exact absurd (by rw [h.1]; simp) hn
    | cons c m' =>
      simp only [List.cons_append, List.cons.injEq] at h
      have hn' : '.' ∉ n' := fun hx => hn (List.mem_cons_of_mem _ hx)
      have hm' : '.' ∉ m' := fun hx => hm (List.mem_cons_of_mem _ hx)
      obtain ⟨e1, e2⟩ := ih m' X Y hn' hm' h.2
      exact ⟨by rw [h.1, e1], e2⟩

theorem dotted_cons2 (n r : Text) (rs : List Text) : dotted (n :: r :: rs) = n ++ '.' :: dotted (r :: rs) := rfl

/-- `".".join` is injective on non-empty paths of dot-free names -/
theorem dotted_inj : ∀ (p q : List Text), p ≠ [] → q ≠ [] → (∀ n ∈ p, '.' ∉ n) → (∀ n ∈ q, '.' ∉ n) →
    dotted p = dotted q → p = q
  | [], _, hp, _, _, _, _ => absurd rfl hp
  | _ :: _, [], _, hq, _, _, _ => absurd rfl hq
  | [n], [m], _, _, _, _, h => by simpa [dotted] using h
  | [n], m :: r :: rs, _, _, hp, hq, h => by
    rw [dotted_cons2] at h
    simp only [dotted] at h
    exact absurd (by rw [h]; simp) (hp n (by simp))
  | n :: r :: rs, [m], _, _, hp, hq, h => by
    rw [dotted_cons2] at h
    simp only [dotted] at h
    exact absurd (by rw [← h]; simp) (hq m (by simp))
  | n :: r :: rs, m :: r' :: rs', _, _, hp, hq, h => by
    rw [dotted_cons2, dotted_cons2] at h
    obtain ⟨e1, e2⟩ := dot_split n m _ _ (hp n (by simp)) (hq m (by simp)) h
    have := dotted_inj (r :: rs) (r' :: rs') (by simp) (by simp)
      (fun x hx => hp x (List.mem_cons_of_mem _ hx)) (fun x hx => hq x (List.mem_cons_of_mem _ hx)) e2
    rw [e1, this]

mutual
theorem walkVar_names : (v : Var) → VarNames v → ∀ p ∈ walkVar [] v, ∀ n ∈ p, '.' ∉ n
  | .mk k n a cs, h => by
    simp only [VarNames] at h
    intro p hp x hx
    simp only [walkVar, List.nil_append, List.mem_cons] at hp
    rcases hp with rfl | hp
    · simp only [List.mem_singleton] at hx; subst hx; exact h.1
    · rw [walkVars_pre cs [n]] at hp
      simp only [List.mem_map] at hp
      obtain ⟨q, hq, rfl⟩ := hp
      simp only [List.singleton_append, List.mem_cons] at hx
      rcases hx with rfl | hx
      · exact h.1
      · exact walkVars_names cs h.2.2 q hq x hx
theorem walkVars_names : (vs : List Var) → VarsNames vs → ∀ p ∈ walkVars [] vs, ∀ n ∈ p, '.' ∉ n
  | [], _ => by intro p hp; simp [walkVars] at hp
  | v :: rest, h => by
    simp only [VarsNames] at h
    intro p hp
    simp only [walkVars, List.mem_append] at hp
    rcases hp with hp | hp
    · exact walkVar_names v h.1 p hp
    · exact walkVars_names rest h.2 p hp
end

mutual
theorem walkVar_nodup : (v : Var) → VarNames v → (walkVar [] v).Nodup
  | .mk k n a cs, h => by
    simp only [VarNames] at h
    simp only [walkVar, List.nil_append]
    rw [walkVars_pre cs [n]]
    refine List.nodup_cons.mpr ⟨?_, ?_⟩
    · intro hm
      simp only [List.mem_map] at hm
      obtain ⟨q, hq, e⟩ := hm
      have hne := walkVars_ne cs q hq
      cases q with
      | nil => exact hne rfl
      | cons a b => simp at e
    · exact List.Pairwise.map (fun q => [n] ++ q) (fun a b hab e => hab (by simpa using e)) (walkVars_nodup cs h.2.2 h.2.1)
theorem walkVars_nodup : (vs : List Var) → VarsNames vs → (vs.map Var.name).Nodup → (walkVars [] vs).Nodup
  | [], _, _ => by simp [walkVars]
  | v :: rest, h, hnd => by
    simp only [VarsNames] at h
    simp only [List.map_cons, List.nodup_cons] at hnd
    simp only [walkVars]
    refine List.nodup_append.mpr ⟨walkVar_nodup v h.1, walkVars_nodup rest h.2 hnd.2, ?_⟩
    intro p hp q hq e
    subst e
    obtain ⟨r1, e1⟩ := walkVar_head v p hp
    obtain ⟨w, hw, r2, e2⟩ := walkVars_head rest p hq
    rw [e1] at e2
    simp only [List.cons.injEq] at e2
    exact hnd.1 (by rw [e2.1]; exact List.mem_map_of_mem hw)
end

/-- **ids pairwise distinct**: the first guard of the flat-style theorems follows from distinct, dot-free sibling names -/
theorem ids_nodup (cs : List Var) (h : VarsNames cs) (hnd : (cs.map Var.name).Nodup) :
    ((visitIds cs).map dotted).Nodup := by
  unfold visitIds
  have hn := walkVars_nodup cs h hnd
  have hnames := walkVars_names cs h
  have hne := walkVars_ne cs
  rw [List.map_reverse, List.Nodup, List.pairwise_reverse, List.pairwise_map]
  exact List.Pairwise.imp_of_mem
    (fun {a b} ha hb hab e => hab (dotted_inj a b (hne a ha) (hne b hb) (hnames a ha) (hnames b hb) e.symm)) hn

end Pydap.Das
