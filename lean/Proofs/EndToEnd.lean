/-
  End-to-end composition, part 1: row-major gather = numpy's N-d basic indexing (pointwise
  specification), facts about `sel` that need no hypothesis, well-formedness of the served answer,
  and theorem (A): request ∘ server slicing ∘ XDR encode ∘ XDR decode.
-/
import PydapModel.EndToEnd
import Proofs.Subset
import Proofs.XdrEnc
import Proofs.XdrDec
namespace Pydap.E2E
open Pydap Pydap.Xdr

/-! ## numpy's N-d basic indexing, pointwise -/

/-- row-major (C order) flat position of a multi-index in an array of shape `sh` -/
def ravel : List Nat → List Nat → Nat
  | _ :: sh, i :: ix => i * prod sh + ravel sh ix
  | _, _ => 0

/-- all multi-indices drawn from the per-axis position lists, in row-major order (first axis slowest) -/
def cart : List (List Nat) → List (List Nat)
  | [] => [[]]
  | s :: ss => s.flatMap fun i => (cart ss).map (i :: ·)

/-- **numpy's N-d basic indexing, as a definition** (product semantics): the result of indexing an
    array of shape `sh` (flat row-major values `d`) with one position list per axis holds, listed in
    row-major order of the result, the source element at each multi-index of the product -/
def npTake {α : Type} (sh : List Nat) (S : List (List Nat)) (d : List α) : List (Option α) :=
  (cart S).map fun ix => d[ravel sh ix]?

/-- one position list per axis, every position inside the axis -/
def InRange : List Nat → List (List Nat) → Prop
  | [], [] => True
  | n :: ns, s :: ss => (∀ i ∈ s, i < n) ∧ InRange ns ss
  | _, _ => False

theorem flatMap_length_const {α β : Type} (s : List α) (f : α → List β) (c : Nat)
    (h : ∀ i ∈ s, (f i).length = c) : (s.flatMap f).length = s.length * c := by
  induction s with
  | nil => simp
  | cons a as ih =>
    simp only [List.flatMap_cons, List.length_append, List.length_cons]
    rw [h a (by simp), ih (fun i hi => h i (by simp [hi])), Nat.succ_mul]
    omega

theorem flatMap_congr' {α β : Type} (s : List α) (f g : α → List β) (h : ∀ i ∈ s, f i = g i) :
    s.flatMap f = s.flatMap g := by
  induction s with
  | nil => rfl
  | cons a as ih =>
    simp only [List.flatMap_cons]
    rw [h a (by simp), ih (fun i hi => h i (by simp [hi]))]

theorem block_length {α : Type} (d : List α) (n p i : Nat) (hd : d.length = n * p) (hi : i < n) :
    ((d.drop (i * p)).take p).length = p := by
  have h1 : (i + 1) * p ≤ n * p := Nat.mul_le_mul_right p hi
  rw [Nat.succ_mul] at h1
  simp only [List.length_take, List.length_drop]
  omega

theorem gather_length {α : Type} : ∀ (sh : List Nat) (S : List (List Nat)) (d : List α),
    InRange sh S → d.length = prod sh → (gather sh S d).length = prod (selShape S)
  | [], [], d, _, hd => by simpa [gather, selShape, prod] using hd
  | [], _ :: _, _, h, _ => by simp [InRange] at h
  | _ :: _, [], _, h, _ => by simp [InRange] at h
  | n :: sh, s :: ss, d, h, hd => by
    simp only [gather, selShape, List.map_cons, prod]
    rw [flatMap_length_const s _ (prod (selShape ss))]
    · rfl
    · intro i hi
      exact gather_length sh ss _ h.2 (block_length d n (prod sh) i (by simpa [prod] using hd) (h.1 i hi))

theorem gather_mem {α : Type} : ∀ (sh : List Nat) (S : List (List Nat)) (d : List α) (x : α),
    x ∈ gather sh S d → x ∈ d
  | [], _, d, x, h => by cases ‹List (List Nat)› <;> simpa [gather] using h
  | _ :: _, [], d, x, h => by simpa [gather] using h
  | n :: sh, s :: ss, d, x, h => by
    simp only [gather, List.mem_flatMap] at h
    obtain ⟨i, _, hx⟩ := h
    exact List.mem_of_mem_drop (List.mem_of_mem_take (gather_mem sh ss _ x hx))

theorem ravel_lt : ∀ (sh : List Nat) (S : List (List Nat)) (ix : List Nat),
    InRange sh S → ix ∈ cart S → ravel sh ix < prod sh
  | [], [], ix, _, h => by simp [cart] at h; subst h; simp [ravel, prod]
  | [], _ :: _, _, h, _ => by simp [InRange] at h
  | _ :: _, [], _, h, _ => by simp [InRange] at h
  | n :: sh, s :: ss, ix, h, hm => by
    simp only [cart, List.mem_flatMap, List.mem_map] at hm
    obtain ⟨i, hi, ix', hix', rfl⟩ := hm
    have h1 := ravel_lt sh ss ix' h.2 hix'
    have h2 : (i + 1) * prod sh ≤ n * prod sh := Nat.mul_le_mul_right _ (h.1 i hi)
    rw [Nat.succ_mul] at h2
    simp only [ravel, prod]
    omega

theorem cart_length : ∀ S : List (List Nat), (cart S).length = prod (selShape S)
  | [] => rfl
  | s :: ss => by
    simp only [cart, selShape, List.map_cons, prod]
    rw [flatMap_length_const s _ (prod (selShape ss))]
    · rfl
    · intro i _; simp [cart_length ss, selShape]

/-- **`gather` is numpy's N-d basic indexing**: gathering along per-axis position lists yields, in
    row-major order of the result, `source[S₀[j₀], …, S_{r-1}[j_{r-1}]]` for every multi-index of the
    result; its length is the product of the per-axis lengths. -/
theorem gather_spec {α : Type} : ∀ (sh : List Nat) (S : List (List Nat)) (d : List α),
    InRange sh S → d.length = prod sh → (gather sh S d).map some = npTake sh S d
  | [], [], d, _, hd => by
    match d, hd with
    | [x], _ => simp [gather, npTake, cart, ravel]
  | [], _ :: _, _, h, _ => by simp [InRange] at h
  | _ :: _, [], _, h, _ => by simp [InRange] at h
  | n :: sh, s :: ss, d, h, hd => by
    simp only [gather, npTake, cart, List.map_flatMap, List.map_map]
    apply flatMap_congr'
    intro i hi
    have hb := block_length d n (prod sh) i (by simpa [prod] using hd) (h.1 i hi)
    rw [gather_spec sh ss _ h.2 hb]
    simp only [npTake]
    apply List.map_congr_left
    intro ix hix
    have hr := ravel_lt sh ss ix h.2 hix
    simp only [Function.comp, ravel, List.getElem?_take, List.getElem?_drop, if_pos hr]

/-! ## facts about `sel` that need no hypothesis on the slice -/

theorem npBound_le (N : Nat) (x : Option Int) : (npBound N N x).toNat ≤ N := by
  cases x with
  | none => simp [npBound]
  | some i => simp only [npBound]; split <;> omega

theorem sel_lt (N : Nat) (s : PSlice) : ∀ i ∈ sel N s, i < N := by
  intro i hi
  simp only [sel, List.mem_range'] at hi
  obtain ⟨j, hj, rfl⟩ := hi
  have hb := npBound_le N s.stop
  generalize (npBound N N s.stop).toNat = b at *
  generalize (npBound N 0 s.start).toNat = a at *
  generalize (s.step.getD 1).toNat = k at *
  by_cases hk : k = 0
  · subst hk; simp at hj
  · have hk' : 0 < k := Nat.pos_of_ne_zero hk
    have h1 : (j + 1) * k ≤ b - a + k - 1 := (Nat.le_div_iff_mul_le hk').mp hj
    rw [Nat.succ_mul] at h1
    have : k * j = j * k := Nat.mul_comm _ _
    omega

theorem sel_length_le (N : Nat) (s : PSlice) : (sel N s).length ≤ N := by
  simp only [sel, List.length_range']
  have hb := npBound_le N s.stop
  generalize (npBound N N s.stop).toNat = b at *
  generalize (npBound N 0 s.start).toNat = a at *
  generalize (s.step.getD 1).toNat = k at *
  by_cases hk : k = 0
  · subst hk; simp
  · have hk' : 0 < k := Nat.pos_of_ne_zero hk
    apply Nat.le_of_lt_succ
    rw [Nat.div_lt_iff_lt_mul hk', Nat.succ_mul]
    have : N ≤ N * k := Nat.le_mul_of_pos_right N hk'
    omega

theorem inRange_selList : ∀ (shape : List Nat) (Q : List PSlice), Q.length = shape.length →
    InRange shape (selList shape Q)
  | [], [], _ => trivial
  | [], _ :: _, h => by simp at h
  | _ :: _, [], h => by simp at h
  | n :: ns, q :: qs, h =>
    ⟨sel_lt n q, inRange_selList ns qs (by simpa using h)⟩

theorem prod_selList_le : ∀ (shape : List Nat) (Q : List PSlice), Q.length = shape.length →
    prod (selShape (selList shape Q)) ≤ prod shape
  | [], [], _ => Nat.le_refl _
  | [], _ :: _, h => by simp at h
  | _ :: _, [], h => by simp at h
  | n :: ns, q :: qs, h => by
    simp only [selList, selShape, List.map_cons, prod]
    exact Nat.mul_le_mul (sel_length_le n q) (prod_selList_le ns qs (by simpa using h))

/-! ## the served answer is a value of its declaration -/

/-- a source array: `prod shape` values of type `ty`, row-major -/
def WFArr (ty : Ty) (shape : List Nat) (vals : List Val) : Prop :=
  vals.length = prod shape ∧ (∀ v ∈ vals, wfVal ty v = true) ∧ vals.length < 2147483648

theorem dataOf_cons (n : Nat) (ns : List Nat) (vs : List Val) : dataOf (n :: ns) vs = .array vs := by
  unfold dataOf; split <;> simp_all

theorem served_wf (ty : Ty) (shape : List Nat) (vals : List Val) (Q : List PSlice)
    (hw : WFArr ty shape vals) (hq : Q.length = shape.length) :
    WF (answerTmpl ty (selShape (selList shape Q)))
      (.tuple [dataOf (selShape (selList shape Q)) (gather shape (selList shape Q) vals)]) = true := by
  obtain ⟨hlen, hval, hbig⟩ := hw
  have hr := inRange_selList shape Q hq
  have hgl := gather_length shape _ vals hr hlen
  have hle := prod_selList_le shape Q hq
  have hall : (gather shape (selList shape Q) vals).all (wfVal ty) = true := by
    rw [List.all_eq_true]; intro v hv; exact hval v (gather_mem _ _ _ v hv)
  match shape, Q, hq with
  | [], [], _ =>
    match vals, hlen with
    | [v], _ => simpa [answerTmpl, selList, selShape, gather, dataOf, WF, WFs] using hval v (by simp)
  | n :: ns, q :: qs, _ =>
    simp only [selList, selShape, List.map_cons] at hgl hle hall ⊢
    rw [dataOf_cons]
    simp only [answerTmpl, WF, WFs, List.isEmpty_cons, Bool.not_false, Bool.true_and, Bool.and_true,
      Bool.and_eq_true, beq_iff_eq, decide_eq_true_eq]
    exact ⟨⟨hgl, hall⟩, by omega⟩

/-! ## (A) -/

/-- the decoder returns what the encoder was given, for the served answer -/
theorem fetch_of_remote (ty : Ty) (shape : List Nat) (vals : List Val) (pre : List PSlice) (idx : List Idx)
    (Q : List PSlice) (hw : WFArr ty shape vals) (hq : Q.length = shape.length)
    (hR : remoteIndex shape pre idx = .ok (selList shape Q)) :
    fetchArray ty shape vals pre idx
      = .ok (dataOf (selShape (selList shape Q)) (gather shape (selList shape Q) vals), []) := by
  have hwf := served_wf ty shape vals Q hw hq
  have hrt : decImpl (answerTmpl ty (selShape (selList shape Q)))
      (encImpl (answerTmpl ty (selShape (selList shape Q)))
        (.tuple [dataOf (selShape (selList shape Q)) (gather shape (selList shape Q) vals)]))
      = .ok (.tuple [dataOf (selShape (selList shape Q)) (gather shape (selList shape Q) vals)], []) := by
    have := decImpl_enc _ _ [] hwf
    rw [List.append_nil] at this
    rw [encImpl_eq _ _ hwf]
    exact this
  unfold fetchArray
  simp only [hR, served, hrt]

/-! ## numpy's answer, and the composed chain -/

def allSome {α : Type} : List (Option α) → Option (List α)
  | [] => some []
  | none :: _ => none
  | some a :: r => (allSome r).map (a :: ·)

theorem allSome_map_some {α : Type} (l : List α) : allSome (l.map some) = some l := by
  induction l with
  | nil => rfl
  | cons a as ih => simp [allSome, ih]

/-- **numpy's `source[pre][idx]`** (integer axes kept with length one) on a source of shape `shape`
    with flat row-major values `vals`: shape and flat row-major values of the result.  Per axis the
    positions are C02's `specList` (entry `E_k` applied to the pre-sliced axis: `sel`, `selInt`), the
    values are the product semantics `npTake`.  `none` = some position falls outside the source. -/
def numpyIndex {α : Type} (shape : List Nat) (vals : List α) (P : List PSlice) (E : List Idx) :
    Option (List Nat × List α) :=
  match allSome ((specList shape P E).map allSome) with
  | none => none
  | some R => (allSome (npTake shape R vals)).map fun vs => (selShape R, vs)

theorem numpyIndex_of_positions {α : Type} (shape : List Nat) (vals : List α) (P : List PSlice) (E : List Idx)
    (Q : List PSlice) (hq : Q.length = shape.length) (hlen : vals.length = prod shape)
    (hs : (selList shape Q).map (List.map some) = specList shape P E) :
    numpyIndex shape vals P E = some (selShape (selList shape Q), gather shape (selList shape Q) vals) := by
  unfold numpyIndex
  rw [← hs, List.map_map]
  have : (allSome ∘ List.map some : List Nat → Option (List Nat)) = some := by
    funext r; exact allSome_map_some r
  rw [this, allSome_map_some]
  simp only
  rw [← gather_spec shape _ vals (inRange_selList shape Q hq) hlen, allSome_map_some]
  rfl

/-- **(A), generic in the expansion `E` of the index** (as `remoteIndex_spec`): the value the client
    decodes is numpy's `source[pre][idx]`, and nothing of the response is left unread -/
theorem fetchArray_spec (ty : Ty) (shape : List Nat) (vals : List Val) (pre : List PSlice) (idx E : List Idx)
    (hw : WFArr ty shape vals) (hlen : pre.length ≤ shape.length)
    (hfix : ∀ cshape : List Nat, cshape.length = shape.length → fixSlice idx cshape = zipFix E cshape)
    (hv : ValidList shape (padPre pre shape.length) E) :
    ∃ cshape vs, numpyIndex shape vals (padPre pre shape.length) E = some (cshape, vs) ∧
      fetchArray ty shape vals pre idx = .ok (dataOf cshape vs, []) := by
  obtain ⟨R, h1, h2, h3⟩ := remoteIndex_spec shape pre idx E hlen hfix hv
  subst h3
  have hq := reqList_length shape _ E hv
  exact ⟨_, _, numpyIndex_of_positions shape vals _ E _ hq hw.1 h2,
    fetch_of_remote ty shape vals pre idx _ hw hq h1⟩

end Pydap.E2E
