import Proofs.DasLink
/-! Vocabulary of the C08 property statements: domains, guards, expected outcome, refutation witnesses. -/
namespace Pydap.Das

/-- the DAS-safe domain of one attribute value that is not a dict -/
def LeafDom : AVal → Prop
  | .sc x => ScalarOk (typeConvert x) x
  | .list xs => ∀ x ∈ xs, ScalarOk (listType xs) x       -- homogeneous: every element fits the list's DAS type
  | .dict _ => False

/-- lists the DAS can carry: two or more values (`len(values) == 1` is unwrapped by the parser) -/
def Carried : AVal → Prop
  | .list xs => 2 ≤ xs.length
  | _ => True

/-- what the client must hold after `open_url` of a served dataset: the global attributes (dict-valued
    `NC_GLOBAL`/`DODS_EXTRA` merged, everything else on top), and for every variable in visiting order its
    own attribute map in key order (`expectVars`: grid members, never printed, hold nothing) -/
def expected (ds : Dataset) : Attached :=
  ⟨dupdate (mergeGlobals (sortKeys ds.attrs) []) ((sortKeys ds.attrs).filter notGlobal), expectVars ds.children⟩

/-- the guards of the whole-dataset round trip: values the DAS carries (`AttrsDeep`/`VarsDeep`: lists of ≥ 2,
    dict keys distinct — complement of C08.short_list) and no name collisions (`DsG`/`VarsG`: attribute names
    differ from the names of the node's children and of the dataset — complement of
    C08.attr_named_like_child —, sibling names distinct, no dot in top-level names, no top-level variable
    called NC_GLOBAL/DODS_EXTRA, Base without children, Grid members without children) -/
def Guard (ds : Dataset) : Prop := DsG ds ∧ AttrsDeep ds.attrs ∧ VarsDeep ds.children

def wShort : Dataset := ⟨"d".toList, [], [Var.mk .base "a".toList [("x".toList, .list [.num "5".toList false])] []]⟩
def wCollide : Dataset := ⟨"d".toList, [], [Var.mk .struct "s".toList [("t".toList, .sc (.num "7".toList false))]
      [Var.mk .base "t".toList [] []]]⟩

theorem nameOk_a : NameOk "a".toList := ⟨by decide, by decide⟩
theorem nameOk_x : NameOk "x".toList := ⟨by decide, by decide⟩
theorem nameOk_s : NameOk "s".toList := ⟨by decide, by decide⟩
theorem nameOk_t : NameOk "t".toList := ⟨by decide, by decide⟩

theorem wShort_ok : DsOk wShort := by
  refine ⟨trivial, ?_, trivial⟩
  show NameOk "a".toList ∧ AttrsOk [("x".toList, .list [.num "5".toList false])]
  refine ⟨nameOk_a, nameOk_x, ?_, trivial⟩
  show ∀ x ∈ [Scalar.num "5".toList false], ScalarOk (listType [Scalar.num "5".toList false]) x
  intro x hx
  simp at hx; subst hx
  exact ⟨by decide, by decide, rfl⟩

theorem wCollide_ok : DsOk wCollide := by
  refine ⟨trivial, ?_, trivial⟩
  show NameOk "s".toList ∧ AttrsOk [("t".toList, .sc (.num "7".toList false))] ∧ VarsOk [Var.mk .base "t".toList [] []]
  refine ⟨nameOk_s, ⟨nameOk_t, ?_, trivial⟩, ⟨nameOk_t, trivial⟩, trivial⟩
  exact ⟨by decide, by decide, rfl⟩


def exSmall : Dataset :=
  ⟨"d".toList, [("title".toList, .sc (.str "t; {x}".toList))],
   [Var.mk .struct "s".toList [("u".toList, .sc (.num "1".toList true))]
      [Var.mk .base "a".toList [("l".toList, .list [.num "1".toList false, .num "2".toList false])] []]]⟩

theorem nameOk_u : NameOk "u".toList := ⟨by decide, by decide⟩
theorem nameOk_l : NameOk "l".toList := ⟨by decide, by decide⟩
theorem nameOk_title : NameOk "title".toList := ⟨by decide, by decide⟩

theorem exSmall_ok : DsOk exSmall := by
  refine ⟨⟨nameOk_title, ⟨by unfold SafeStr; decide, rfl⟩, trivial⟩, ?_, trivial⟩
  show NameOk "s".toList ∧ AttrsOk [("u".toList, .sc (.num "1".toList true))] ∧ VarsOk [_]
  refine ⟨nameOk_s, ⟨nameOk_u, ⟨by decide, by decide, rfl⟩, trivial⟩, ⟨nameOk_a, nameOk_l, ?_, trivial⟩, trivial⟩
  show ∀ x ∈ [Scalar.num "1".toList false, Scalar.num "2".toList false], ScalarOk _ x
  intro x hx
  simp at hx
  rcases hx with rfl | rfl <;> exact ⟨by decide, by decide, rfl⟩

theorem exSmall_guard : Guard exSmall := by
  refine ⟨⟨?_, by decide, by unfold NoDot; decide, (by intro e h; cases h), by decide⟩, ⟨trivial, trivial⟩, ?_⟩
  · show (VarsG [_] ∧ _) ∧ True
    refine ⟨⟨⟨⟨by decide, rfl⟩, trivial⟩, by decide⟩, trivial⟩
  · show (AttrsDeep _ ∧ VarsDeep [_]) ∧ True
    exact ⟨⟨⟨trivial, trivial⟩, ⟨⟨by show 2 ≤ 2; decide, trivial⟩, trivial⟩⟩, trivial⟩

/-- keep-around over a whole tree: a Grid with the plain attribute `x = ""` named like its member `x`, and a plain
    global attribute named like the dataset -/
def wKeep : Dataset := ⟨"d".toList, [("d".toList, .sc (.str "ab".toList))],
  [Var.mk .grid "g".toList [("x".toList, .sc (.str []))] [Var.mk .base "arr".toList [] [], Var.mk .base "x".toList [] []]]⟩

theorem wKeep_guard : Guard wKeep := by
  refine ⟨⟨?_, by decide, by unfold NoDot; decide, ?_, by decide⟩, ⟨trivial, trivial⟩, ⟨⟨trivial, trivial⟩, trivial⟩⟩
  · refine ⟨⟨by decide, ?_⟩, trivial⟩
    intro m hm
    simp only [List.mem_cons, List.not_mem_nil, or_false] at hm
    rcases hm with rfl | rfl
    · exact ⟨rfl, by intro e h; cases h⟩
    · exact ⟨rfl, by intro e h; cases h⟩
  · intro e h; cases h

def exDs : Dataset :=
  ⟨"d".toList,
   [("title".toList, .sc (.str "t; {x}".toList)), ("NC_GLOBAL".toList, .dict [("n".toList, .sc (.num "3".toList false))])],
   [Var.mk .struct "s".toList [("u".toList, .sc (.num "1".toList true))]
      [Var.mk .base "a".toList [("l".toList, .list [.num "1".toList false, .num "2".toList false]),
                                 ("m".toList, .dict [("k".toList, .sc (.str [])), ("e".toList, .dict [])])] []],
    Var.mk .grid "g".toList [("ga".toList, .sc (.num "nan".toList true))]
      [Var.mk .base "arr".toList [("hidden".toList, .sc (.num "1".toList false))] []]]⟩


def exTmpl : List Var := [Var.mk .struct "s".toList [] [Var.mk .base "a".toList [] []], Var.mk .base "b".toList [] []]

end Pydap.Das
