/-
  Lemmas and tactics for symbolic execution of MiniPy blocks (lean/PydapModel/MiniPy.lean).
-/
import PydapModel.MiniPy
import PydapModel.Slice
import Mathlib.Tactic.SplitIfs
namespace Pydap
open MiniPy

theorem find_filter_ne (env : Env) (x y : String) (hxy : x ≠ y) :
    List.find? (fun p => p.1 == y) (env.filter (fun p => p.1 != x)) = List.find? (fun p => p.1 == y) env := by
  induction env with
  | nil => rfl
  | cons p ps ih =>
    by_cases hp : p.1 = x
    · have h1 : (p.1 != x) = false := by simp [hp]
      have h2 : (p.1 == y) = false := by rw [hp]; simpa using hxy
      rw [List.filter_cons, h1, List.find?_cons, h2]
      simpa using ih
    · have h1 : (p.1 != x) = true := by simp [hp]
      rw [List.filter_cons, h1]
      simp only [if_true, List.find?_cons]
      rw [ih]

@[simp] theorem lookup_setVar_eq (env : Env) (x : String) (v : Val) : lookup (setVar env x v) x = .ok v := by
  simp [lookup, setVar]

theorem lookup_setVar_ne (env : Env) (x y : String) (v : Val) (h : (x == y) = false) :
    lookup (setVar env x v) y = lookup env y := by
  have hxy : x ≠ y := by intro e; subst e; simp at h
  simp only [lookup, setVar, List.find?_cons, h]
  rw [find_filter_ne env x y hxy]

@[simp] theorem lookup_cons_eq (env : Env) (x : String) (v : Val) : lookup ((x, v) :: env) x = .ok v := by
  simp [lookup]

theorem lookup_cons_ne (env : Env) (x y : String) (v : Val) (h : (x == y) = false) :
    lookup ((x, v) :: env) y = lookup env y := by
  simp [lookup, h]

@[simp] theorem bind_ok' {ε α β} (a : α) (f : α → Except ε β) : (Except.ok a >>= f) = f a := rfl
@[simp] theorem bind_error' {ε α β} (e : ε) (f : α → Except ε β) : ((Except.error e : Except ε α) >>= f) = Except.error e := rfl

theorem truthy_none : truthy .none = false := rfl
theorem truthy_int (i : Int) : truthy (.int i) = (i != 0) := rfl
theorem truthy_bool (b : Bool) : truthy (.bool b) = b := rfl
theorem truthy_slice (a b c : Option Int) : truthy (.slice a b c) = true := rfl
theorem asInt_int (i : Int) : asInt (.int i) = .ok i := rfl
theorem asInt_none : asInt .none = .error .typeError := rfl
theorem ofOpt_some (i : Int) : ofOpt (some i) = .int i := rfl
theorem ofOpt_none : ofOpt none = .none := rfl
theorem toOpt_int (i : Int) : toOpt (.int i) = .ok (some i) := rfl
theorem toOpt_none : toOpt .none = .ok none := rfl

theorem ite_truthy_ofOpt (a : Option Int) (d : Int) :
    (if truthy (ofOpt a) = true then (Except.ok (ofOpt a) : Except Err Val) else Except.ok (Val.int d))
      = Except.ok (Val.int (orElse a d)) := by
  cases a with
  | none => rfl
  | some v => by_cases h : v = 0 <;> simp [ofOpt, truthy, orElse, h]

theorem ite_truthy_int (i d : Int) :
    (if truthy (Val.int i) = true then (Except.ok (Val.int i) : Except Err Val) else Except.ok (Val.int d))
      = Except.ok (Val.int (orElse (some i) d)) := ite_truthy_ofOpt (some i) d

theorem orElse_none (d : Int) : orElse none d = d := rfl

/-- symbolic execution of a MiniPy block along one path: all branch conditions are decided by hypotheses in context -/
macro "mp_path" : tactic => `(tactic|
  (simp (decide := true) only [runItem, exec, eval, bind_ok', bind_error', lookup_cons_eq, lookup_cons_ne,
    lookup_setVar_eq, lookup_setVar_ne, truthy_none, ite_truthy_int, truthy_bool, truthy_slice, asInt_int, asInt_none,
    ofOpt_some, ofOpt_none, toOpt_int, toOpt_none, ite_truthy_ofOpt, *,
    if_true, if_false, bne_iff_ne, ne_eq, decide_true, decide_false, not_false_eq_true, not_true_eq_false,
    Int.add_zero, Int.zero_add, ge_iff_le, Bool.false_eq_true, Bool.or_true, Bool.or_false, Bool.true_or, Bool.false_or]))


macro "mp_finish" : tactic => `(tactic|
  ((repeat' (split_ifs <;> (try mp_path) <;> (try simp_all (decide := true)))) <;>
   (try simp only [orElse_none, Int.mul_one, Int.one_mul, true_and, and_true]) <;> (try (repeat' constructor)) <;> (try omega)))

/-! ### second round: bit arithmetic, floor division, text (one lemma per new construct) -/

theorem pyAnd_nat (a b : Nat) : pyAnd (a : Int) (b : Int) = .ok ((a &&& b : Nat) : Int) := by
  simp [pyAnd]

theorem pyOr_nat (a b : Nat) : pyOr (a : Int) (b : Int) = .ok ((a ||| b : Nat) : Int) := by
  simp [pyOr]

theorem pyAnd_neg (a b : Int) (h : a < 0 ∨ b < 0) : pyAnd a b = .error .unsupported := by
  have : ¬ (0 ≤ a ∧ 0 ≤ b) := by omega
  simp [pyAnd, this]

theorem pyShr_nat (a b : Nat) : pyShr (a : Int) (b : Int) = .ok ((a / 2 ^ b : Nat) : Int) := by
  simp [pyShr, Int.shiftRight_eq_div_pow]

theorem pyShr_int (a : Int) (b : Nat) : pyShr a (b : Int) = .ok (a / ((2 ^ b : Nat) : Int)) := by
  simp [pyShr, Int.shiftRight_eq_div_pow]

theorem pyShl_nat (a : Int) (b : Nat) : pyShl a (b : Int) = .ok (a * 2 ^ b) := by
  simp [pyShl]

theorem pyShift_neg (a b : Int) (h : b < 0) : pyShr a b = .error .valueError ∧ pyShl a b = .error .valueError := by
  have : ¬ (0 ≤ b) := by omega
  simp [pyShr, pyShl, this]

/-- for a positive divisor Python's `%` is Lean's `%` on `Int` -/
theorem pyMod_pos (a b : Int) (h : 0 < b) : pyMod a b = .ok (a % b) := by
  have hb : b ≠ 0 := by omega
  have h0 : 0 ≤ b := by omega
  simp [pyMod, hb, Int.fmod_eq_emod, h0]

theorem pyFloorDiv_pos (a b : Int) (h : 0 < b) : pyFloorDiv a b = .ok (a / b) := by
  have hb : b ≠ 0 := by omega
  have h0 : 0 ≤ b := by omega
  simp [pyFloorDiv, hb, Int.fdiv_eq_ediv, h0]

theorem pyMod_zero (a : Int) : pyMod a 0 = .error .zeroDivisionError := rfl
theorem pyFloorDiv_zero (a : Int) : pyFloorDiv a 0 = .error .zeroDivisionError := rfl

theorem land_mask24 (h : Nat) : h &&& 16777215 = h % 16777216 := Nat.and_two_pow_sub_one_eq_mod h 24
theorem land_mask8 (h : Nat) : h &&& 255 = h % 256 := Nat.and_two_pow_sub_one_eq_mod h 8
theorem land_mask24' (h : Nat) : 16777215 &&& h = h % 16777216 := by rw [Nat.and_comm]; exact land_mask24 h
theorem land_mask8' (h : Nat) : 255 &&& h = h % 256 := by rw [Nat.and_comm]; exact land_mask8 h

theorem pyInt_int (i : Int) : pyInt (.int i) = .ok i := rfl
theorem pyInt_bool (b : Bool) : pyInt (.bool b) = .ok (if b then 1 else 0) := rfl
theorem pyInt_none : pyInt .none = .error .typeError := rfl
theorem asInt_bool (b : Bool) : asInt (.bool b) = .ok (if b then 1 else 0) := rfl
theorem asInt_str (cs : List Nat) : asInt (.str cs) = .error .typeError := rfl
theorem truthy_str (cs : List Nat) : truthy (.str cs) = !cs.isEmpty := rfl
theorem truthy_ilist (l : List Int) : truthy (.ilist l) = !l.isEmpty := rfl
theorem truthy_bit (b : Bool) : truthy (.int (if b then 1 else 0)) = b := by cases b <;> rfl

theorem strLookup_nil (x : List Nat) : strLookup [] x = .error .keyError := rfl
theorem strLookup_cons (k v x : List Nat) (t : List (List Nat × List Nat)) :
    strLookup ((k, v) :: t) x = if k = x then .ok (.str v) else strLookup t x := rfl

theorem prodInts_nil : prodInts [] = 1 := rfl
theorem prodInts_cons (x : Int) (xs : List Int) : prodInts (x :: xs) = x * prodInts xs := rfl

theorem fmtBin_nat (w n : Nat) :
    fmtBin w (n : Int) = .ok (List.replicate (w - (binStr n).length) 48 ++ binStr n) := by
  simp [fmtBin]

theorem fmtBin_neg (w : Nat) (i : Int) (h : i < 0) : fmtBin w i = .error .unsupported := by
  have : ¬ (0 ≤ i) := by omega
  simp [fmtBin, this]

/-! ### text of the models (`List Char`) as MiniPy strings -/

/-- text (a `List Char` of the models) as MiniPy code points -/
def codesOf (l : List Char) : List Nat := l.map Char.toNat

theorem Char.toNat_inj' {a b : Char} (h : a.toNat = b.toNat) : a = b := by
  apply Char.ext
  exact UInt32.toNat_inj.mp h

theorem codesOf_inj {a b : List Char} : codesOf a = codesOf b ↔ a = b := by
  constructor
  · intro h
    induction a generalizing b with
    | nil => cases b <;> simp_all [codesOf]
    | cons x xs ih =>
      cases b with
      | nil => simp [codesOf] at h
      | cons y ys =>
        simp only [codesOf, List.map_cons, List.cons.injEq] at h
        rw [Char.toNat_inj' h.1, ih (b := ys) h.2]
  · intro h; rw [h]

theorem isPrefixOf_codesOf (a b : List Char) : (codesOf a).isPrefixOf (codesOf b) = a.isPrefixOf b := by
  induction a generalizing b with
  | nil => simp [codesOf]
  | cons x xs ih =>
    cases b with
    | nil => simp [codesOf]
    | cons y ys =>
      simp only [codesOf, List.map_cons, List.isPrefixOf] 
      have := ih ys
      simp only [codesOf] at this
      rw [this]
      by_cases hxy : x = y
      · subst hxy; rw [beq_self_eq_true, beq_self_eq_true]
      · have hn : x.toNat ≠ y.toNat := fun h => hxy (Char.toNat_inj' h)
        have e1 : (x.toNat == y.toNat) = false := beq_eq_false_iff_ne.mpr hn
        have e2 : (x == y) = false := beq_eq_false_iff_ne.mpr hxy
        rw [e1, e2]

/-- `a and b` on booleans -/
theorem ite_truthy_bool_and (d e : Bool) :
    (if truthy (Val.bool d) = true then (Except.ok (Val.bool e) : Except Err Val) else Except.ok (Val.bool d))
      = .ok (.bool (d && e)) := by cases d <;> rfl

/-! ### remaining second-round constructs: text tests, slices, `frombuffer`, literals -/

theorem joinEmpty_nil : joinEmpty [] = [] := rfl
theorem joinEmpty_endsSep (a : List Nat) : joinEmpty (a ++ [47]) = a ++ [47] := by
  simp [joinEmpty]
theorem joinEmpty_noSep (a : List Nat) (c : Nat) (h : c ≠ 47) : joinEmpty (a ++ [c]) = a ++ [c] ++ [47] := by
  simp [joinEmpty, h]
theorem beU32_len (l : List Int) (h : l.length ≠ 4) : beU32 l = .error .unsupported := by
  match l, h with
  | [], _ => rfl
  | [_], _ => rfl
  | [_, _], _ => rfl
  | [_, _, _], _ => rfl
  | _ :: _ :: _ :: _ :: _ :: _, _ => rfl
  | [_, _, _, _], h => simp at h
theorem beU32_nat (a b c d : Nat) (ha : a < 256) (hb : b < 256) (hc : c < 256) (hd : d < 256) :
    beU32 [(a : Int), b, c, d] = .ok ((((a * 256 + b) * 256 + c) * 256 + d : Nat) : Int) := by
  have h : (0 ≤ (a : Int) ∧ (a : Int) < 256 ∧ 0 ≤ (b : Int) ∧ (b : Int) < 256 ∧ 0 ≤ (c : Int) ∧ (c : Int) < 256 ∧
      0 ≤ (d : Int) ∧ (d : Int) < 256) := by omega
  simp only [beU32]
  rw [if_pos h]
  congr 1
theorem eval_boolc (env : Env) (b : Bool) : eval env (.boolc b) = .ok (.bool b) := rfl
theorem eval_strc (env : Env) (cs : List Nat) : eval env (.strc cs) = .ok (.str cs) := rfl
theorem eval_inInts (env : Env) (e : Expr) (l : List Int) (i : Int) (h : eval env e = .ok (.int i)) :
    eval env (.inInts e l) = .ok (.bool (l.contains i)) := by
  simp only [eval, h, bind_ok', asInt_int]
theorem eval_startswith (env : Env) (a b : Expr) (x y : List Nat) (ha : eval env a = .ok (.str x))
    (hb : eval env b = .ok (.str y)) : eval env (.startswith a b) = .ok (.bool (y.isPrefixOf x)) := by
  simp only [eval, ha, hb, bind_ok']
theorem eval_takeN (env : Env) (e : Expr) (cs : List Nat) (n : Nat) (h : eval env e = .ok (.str cs)) :
    eval env (.takeN e n) = .ok (.str (cs.take n)) := by
  simp only [eval, h, bind_ok']
theorem eval_dropN (env : Env) (e : Expr) (cs : List Nat) (n : Nat) (h : eval env e = .ok (.str cs)) :
    eval env (.dropN e n) = .ok (.str (cs.drop n)) := by
  simp only [eval, h, bind_ok']
theorem eval_eqStr (env : Env) (a b : Expr) (x y : List Nat) (ha : eval env a = .ok (.str x))
    (hb : eval env b = .ok (.str y)) : eval env (.eqStr a b) = .ok (.bool (decide (x = y))) := by
  simp only [eval, ha, hb, bind_ok']
theorem eval_neg (env : Env) (e : Expr) (i : Int) (h : eval env e = .ok (.int i)) :
    eval env (.neg e) = .ok (.int (-i)) := by
  simp only [eval, h, bind_ok', asInt_int]
theorem eval_rev_str (env : Env) (e : Expr) (cs : List Nat) (h : eval env e = .ok (.str cs)) :
    eval env (.rev e) = .ok (.str cs.reverse) := by
  simp only [eval, h, bind_ok']

/-! ### third round: `str.replace`, `for` loops -/

theorem replaceGo_single (p : Nat) (rep l : List Nat) :
    replaceGo [p] rep 0 l = l.flatMap (fun x => if x = p then rep else [x]) := by
  induction l with
  | nil => rfl
  | cons x t ih =>
    simp only [replaceGo, List.isPrefixOf, List.length_singleton, Nat.sub_self, ih, List.flatMap_cons, Bool.and_true]
    by_cases h : x = p
    · subst h; simp
    · have : (p == x) = false := by simp; exact fun e => h e.symm
      simp [h, this]

theorem exec_forIn (env : Env) (x : String) (e : Expr) (body : Stmt) :
    exec env (.forIn x e body) =
      ((eval env e >>= iterItems) >>= fun items => items.foldlM (fun env v => exec (setVar env x v) body) env) := by
  simp only [exec, bind_assoc]

/-- simulation rule for `for x in items: body`: an abstract state `σ` related to environments by `A`, and a step
    function over the abstract items `bs` (the loop sees `item b`) that every turn of the body follows, both when it
    succeeds and when it raises -/
theorem forIn_sim {σ β : Type} (x : String) (body : Stmt) (A : σ → Env → Prop) (item : β → Val)
    (step : σ → β → Except Err σ)
    (bs : List β)
    (hstep : ∀ s b env, b ∈ bs → A s env →
      match step s b with
      | .ok s' => ∃ env', exec (setVar env x (item b)) body = .ok env' ∧ A s' env'
      | .error e => exec (setVar env x (item b)) body = .error e) : ∀ s env, A s env →
      match bs.foldlM step s with
      | .ok s' => ∃ env', (bs.map item).foldlM (fun env v => exec (setVar env x v) body) env = .ok env' ∧ A s' env'
      | .error e => (bs.map item).foldlM (fun env v => exec (setVar env x v) body) env = .error e := by
  induction bs with
  | nil => intro s env h; exact ⟨env, rfl, h⟩
  | cons v t ih =>
    intro s env h
    have ih := ih (fun s b env hb => hstep s b env (List.mem_cons_of_mem _ hb))
    have hs := hstep s v env (List.mem_cons_self) h
    simp only [List.foldlM_cons, List.map_cons]
    cases hv : step s v with
    | error e =>
      rw [hv] at hs
      simp only [hs, bind_error']
    | ok s' =>
      rw [hv] at hs
      obtain ⟨env', he, ha⟩ := hs
      simp only [he, bind_ok']
      exact ih s' env' ha

theorem foldlM_ok_append {β γ : Type} (f : β → List γ) (bs : List β) (acc : List γ) :
    bs.foldlM (fun (a : List γ) b => (Except.ok (a ++ f b) : Except Err (List γ))) acc = .ok (acc ++ bs.flatMap f) := by
  induction bs generalizing acc with
  | nil => simp only [List.foldlM_nil, List.flatMap_nil, List.append_nil]; rfl
  | cons b t ih => simp only [List.foldlM_cons, bind_ok', ih, List.flatMap_cons, List.append_assoc]

/-- symbolic execution for blocks that use the second-round constructs -/
macro "mp_sym" : tactic => `(tactic|
  (simp (decide := true) only [runItem, exec, eval, bind_ok', bind_error', lookup_cons_eq, lookup_cons_ne,
    lookup_setVar_eq, lookup_setVar_ne, truthy_none, truthy_bool, truthy_slice, truthy_int, truthy_str, truthy_ilist,
    truthy_bit, asInt_int, asInt_none, asInt_bool, asInt_str, pyInt_int, pyInt_bool, pyAnd_nat, pyOr_nat, pyShr_nat,
    pyShl_nat, strLookup_nil, strLookup_cons, prodInts_nil, prodInts_cons, *,
    if_true, if_false, bne_iff_ne, ne_eq, decide_true, decide_false, not_false_eq_true, not_true_eq_false,
    Bool.false_eq_true, Bool.not_true, Bool.not_false]))

/-! ### fourth round: `for x, y in zip(a, b)`, conditional expressions, tuples of ints and slices -/

theorem exec_forZip (env : Env) (x y : String) (e1 e2 : Expr) (body : Stmt) :
    exec env (.forZip x y e1 e2 body) =
      ((eval env e1 >>= iterItems) >>= fun i1 => (eval env e2 >>= iterItems) >>= fun i2 =>
        (i1.zip i2).foldlM (fun env vw => exec (setVar (setVar env x vw.1) y vw.2) body) env) := by
  simp only [exec, bind_assoc]

/-- simulation rule for `for x, y in zip(…)`: as `forIn_sim`, the loop sees the pair `item b` -/
theorem forZip_sim {σ β : Type} (x y : String) (body : Stmt) (A : σ → Env → Prop) (item : β → Val × Val)
    (step : σ → β → Except Err σ)
    (bs : List β)
    (hstep : ∀ s b env, b ∈ bs → A s env →
      match step s b with
      | .ok s' => ∃ env', exec (setVar (setVar env x (item b).1) y (item b).2) body = .ok env' ∧ A s' env'
      | .error e => exec (setVar (setVar env x (item b).1) y (item b).2) body = .error e) : ∀ s env, A s env →
      match bs.foldlM step s with
      | .ok s' => ∃ env', (bs.map item).foldlM (fun env vw => exec (setVar (setVar env x vw.1) y vw.2) body) env
            = .ok env' ∧ A s' env'
      | .error e => (bs.map item).foldlM (fun env vw => exec (setVar (setVar env x vw.1) y vw.2) body) env
            = .error e := by
  induction bs with
  | nil => intro s env h; exact ⟨env, rfl, h⟩
  | cons v t ih =>
    intro s env h
    have ih := ih (fun s b env hb => hstep s b env (List.mem_cons_of_mem _ hb))
    have hs := hstep s v env (List.mem_cons_self) h
    simp only [List.foldlM_cons, List.map_cons]
    cases hv : step s v with
    | error e =>
      rw [hv] at hs
      simp only [hs, bind_error']
    | ok s' =>
      rw [hv] at hs
      obtain ⟨env', he, ha⟩ := hs
      simp only [he, bind_ok']
      exact ih s' env' ha

/-- `p and q` / `p or q` on booleans, after `truthy_bool` (whatever decidability instance simp left in the `if`) -/
theorem and_bool (p q : Bool) [inst : Decidable (p = true)] :
    (@ite _ (p = true) inst (Except.ok (Val.bool q) : Except Err Val) (Except.ok (Val.bool p))) = .ok (.bool (p && q)) := by
  cases p <;> simp
theorem or_bool (p q : Bool) [inst : Decidable (p = true)] :
    (@ite _ (p = true) inst (Except.ok (Val.bool p) : Except Err Val) (Except.ok (Val.bool q))) = .ok (.bool (p || q)) := by
  cases p <;> simp

/-- `truthy_bool` as a proper rewrite rule (not `rfl`: simp then also rewrites the decidability instance of an `if`) -/
theorem truthy_bool' (b : Bool) : truthy (.bool b) = b := by cases b <;> rfl

theorem iterItems_tuple (l : List Item) : iterItems (.tuple l) = .ok (l.map Item.toVal) := rfl
theorem iterItems_ilist (l : List Int) : iterItems (.ilist l) = .ok (l.map .int) := rfl
theorem toVal_int (i : Int) : Item.toVal (.int i) = .int i := rfl
theorem toVal_slice (a b c : Option Int) : Item.toVal (.slice a b c) = .slice a b c := rfl

end Pydap
