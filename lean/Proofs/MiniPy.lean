/-
  Lemmas and tactics for symbolic execution of MiniPy blocks (lean/PydapModel/MiniPy.lean).
-/
import PydapModel.MiniPy
import PydapModel.Slice
import Mathlib.Tactic.SplitIfs
namespace Pydap
open MiniPy

theorem find_filter_ne (env : Env) (x y : String) (hxy : x ≠ y) :
    List.find? (fun p => p.1 == y) (env.filter (fun p => p.1 != x)) = List.find? (fun p => p.1 == y) env := by
  induction env with
  | nil => rfl
  | cons p ps ih =>
    by_cases hp : p.1 = x
    · have h1 : (p.1 != x) = false := by simp [hp]
      have h2 : (p.1 == y) = false := by rw [hp]; simpa using hxy
      rw [List.filter_cons, h1, List.find?_cons, h2]
      simpa using ih
    · have h1 : (p.1 != x) = true := by simp [hp]
      rw [List.filter_cons, h1]
      simp only [if_true, List.find?_cons]
      rw [ih]

@[simp] theorem lookup_setVar_eq (env : Env) (x : String) (v : Val) : lookup (setVar env x v) x = .ok v := by
  simp [lookup, setVar]

theorem lookup_setVar_ne (env : Env) (x y : String) (v : Val) (h : (x == y) = false) :
    lookup (setVar env x v) y = lookup env y := by
  have hxy : x ≠ y := by intro e; subst e; simp at h
  simp only [lookup, setVar, List.find?_cons, h]
  rw [find_filter_ne env x y hxy]

@[simp] theorem lookup_cons_eq (env : Env) (x : String) (v : Val) : lookup ((x, v) :: env) x = .ok v := by
  simp [lookup]

theorem lookup_cons_ne (env : Env) (x y : String) (v : Val) (h : (x == y) = false) :
    lookup ((x, v) :: env) y = lookup env y := by
  simp [lookup, h]

@[simp] theorem bind_ok' {ε α β} (a : α) (f : α → Except ε β) : (Except.ok a >>= f) = f a := rfl
@[simp] theorem bind_error' {ε α β} (e : ε) (f : α → Except ε β) : ((Except.error e : Except ε α) >>= f) = Except.error e := rfl

theorem truthy_none : truthy .none = false := rfl
theorem truthy_int (i : Int) : truthy (.int i) = (i != 0) := rfl
theorem truthy_bool (b : Bool) : truthy (.bool b) = b := rfl
theorem truthy_slice (a b c : Option Int) : truthy (.slice a b c) = true := rfl
theorem asInt_int (i : Int) : asInt (.int i) = .ok i := rfl
theorem asInt_none : asInt .none = .error .typeError := rfl
theorem ofOpt_some (i : Int) : ofOpt (some i) = .int i := rfl
theorem ofOpt_none : ofOpt none = .none := rfl
theorem toOpt_int (i : Int) : toOpt (.int i) = .ok (some i) := rfl
theorem toOpt_none : toOpt .none = .ok none := rfl

theorem ite_truthy_ofOpt (a : Option Int) (d : Int) :
    (if truthy (ofOpt a) = true then (Except.ok (ofOpt a) : Except Err Val) else Except.ok (Val.int d))
      = Except.ok (Val.int (orElse a d)) := by
  cases a with
  | none => rfl
  | some v => by_cases h : v = 0 <;> simp [ofOpt, truthy, orElse, h]

theorem ite_truthy_int (i d : Int) :
    (if truthy (Val.int i) = true then (Except.ok (Val.int i) : Except Err Val) else Except.ok (Val.int d))
      = Except.ok (Val.int (orElse (some i) d)) := ite_truthy_ofOpt (some i) d

theorem orElse_none (d : Int) : orElse none d = d := rfl

/-- symbolic execution of a MiniPy block along one path: all branch conditions are decided by hypotheses in context -/
macro "mp_path" : tactic => `(tactic|
  (simp (decide := true) only [runItem, exec, eval, bind_ok', bind_error', lookup_cons_eq, lookup_cons_ne,
    lookup_setVar_eq, lookup_setVar_ne, truthy_none, ite_truthy_int, truthy_bool, truthy_slice, asInt_int, asInt_none,
    ofOpt_some, ofOpt_none, toOpt_int, toOpt_none, ite_truthy_ofOpt, *,
    if_true, if_false, bne_iff_ne, ne_eq, decide_true, decide_false, not_false_eq_true, not_true_eq_false,
    Int.add_zero, Int.zero_add, ge_iff_le, Bool.false_eq_true, Bool.or_true, Bool.or_false, Bool.true_or, Bool.false_or]))


macro "mp_finish" : tactic => `(tactic|
  ((repeat' (split_ifs <;> (try mp_path) <;> (try simp_all (decide := true)))) <;>
   (try simp only [orElse_none, Int.mul_one, Int.one_mul, true_and, and_true]) <;> (try (repeat' constructor)) <;> (try omega)))

end Pydap
