import Proofs.DdsTree
namespace Pydap.Dds
open Pydap

/-! ### well-formed trees, fuel -/

mutual
def WFT : Tmpl → Prop
  | .base b => BaseOk b
  | .struct n kids => NameOk n ∧ WFL kids ∧ (kids.map Tmpl.name).Nodup
  | .seq n kids => NameOk n ∧ WFL kids ∧ (kids.map Tmpl.name).Nodup
  | .grid n kids => NameOk n ∧ (∀ b ∈ kids, BaseOk b) ∧ (kids.map (·.name)).Nodup
def WFL : List Tmpl → Prop
  | [] => True
  | t :: ts => WFT t ∧ WFL ts
end

mutual
def needT : Tmpl → Nat
  | .base _ => 1
  | .grid _ _ => 1
  | .struct _ kids => 1 + needL kids
  | .seq _ kids => 1 + needL kids
def needL : List Tmpl → Nat
  | [] => 0
  | t :: ts => 1 + needT t + needL ts
end

mutual
theorem normT_name : (t : Tmpl) → (sq : Nat) → (normT t sq).name = t.name
  | .base b, sq => by simp [normT, Tmpl.name, normBase_entries]
  | .struct n kids, sq => by simp [normT, Tmpl.name]
  | .seq n kids, sq => by simp [normT, Tmpl.name]
  | .grid n kids, sq => by simp [normT, Tmpl.name]
end

theorem normL_names (ts : List Tmpl) (sq : Nat) : (normL ts sq).map Tmpl.name = ts.map Tmpl.name := by
  induction ts with
  | nil => simp [normL]
  | cons t ts ih => simp [normL, normT_name, ih]

theorem decl_base (f : Nat) (buf : Text)
    (h : lower (buf.takeWhile isWord) ≠ "grid".toList ∧ lower (buf.takeWhile isWord) ≠ "sequence".toList
      ∧ lower (buf.takeWhile isWord) ≠ "structure".toList) :
    decl (f + 1) buf = match base buf with
      | .error e => .error e
      | .ok (v, b1) => .ok (.base v, b1) := by
  simp only [decl]
  rw [if_neg h.1, if_neg (not_or.mpr ⟨h.2.1, h.2.2⟩)]
  cases base buf with
  | error e => rfl
  | ok p => rfl

theorem decl_grid (f : Nat) (buf : Text) (h : lower (buf.takeWhile isWord) = "grid".toList) :
    decl (f + 1) buf = grid buf := by
  simp only [decl]
  rw [if_pos h]

theorem decl_struct (f : Nat) (Y : Text) :
    decl (f + 1) ("Structure".toList ++ (' ' :: '{' :: '\n' :: Y)) =
      match decls f (lstrip Y) with
      | .error e => .error e
      | .ok (kids, b3) => match closing b3 with
        | .error e => .error e
        | .ok (nm, b4) => .ok (.struct nm (insertAll kids), b4) := by
  have hw : lower (("Structure".toList ++ (' ' :: '{' :: '\n' :: Y)).takeWhile isWord) = "structure".toList := by
    rw [(takeWhile_span isWord "Structure".toList ' ' _ (by decide) (by decide)).1]; decide
  have s1 : consumeLit "structure".toList ("Structure".toList ++ (' ' :: '{' :: '\n' :: Y)) = .ok ('{' :: '\n' :: Y) := by
    rw [consumeLit_prefix _ _ _ (by decide), lstrip_cons_space _ (by decide), lstrip_cons_nonspace _ (by decide)]
  have s2 : consumeLit ['{'] ('{' :: '\n' :: Y) = .ok (lstrip Y) := by
    rw [consumeLit_one _ _ _ rfl, lstrip_cons_space _ (by decide)]
  simp only [decl, hw, s1, s2]
  cases decls f (lstrip Y) with
  | error e => rfl
  | ok p =>
    obtain ⟨kids, b3⟩ := p
    simp only []
    cases closing b3 with
    | error e => rfl
    | ok q => rfl

theorem decl_seq (f : Nat) (Y : Text) :
    decl (f + 1) ("Sequence".toList ++ (' ' :: '{' :: '\n' :: Y)) =
      match decls f (lstrip Y) with
      | .error e => .error e
      | .ok (kids, b3) => match closing b3 with
        | .error e => .error e
        | .ok (nm, b4) => .ok (.seq nm (insertAll kids), b4) := by
  have hw : lower (("Sequence".toList ++ (' ' :: '{' :: '\n' :: Y)).takeWhile isWord) = "sequence".toList := by
    rw [(takeWhile_span isWord "Sequence".toList ' ' _ (by decide) (by decide)).1]; decide
  have s1 : consumeLit "sequence".toList ("Sequence".toList ++ (' ' :: '{' :: '\n' :: Y)) = .ok ('{' :: '\n' :: Y) := by
    rw [consumeLit_prefix _ _ _ (by decide), lstrip_cons_space _ (by decide), lstrip_cons_nonspace _ (by decide)]
  have s2 : consumeLit ['{'] ('{' :: '\n' :: Y) = .ok (lstrip Y) := by
    rw [consumeLit_one _ _ _ rfl, lstrip_cons_space _ (by decide)]
  simp only [decl, hw, s1, s2]
  cases decls f (lstrip Y) with
  | error e => rfl
  | ok p =>
    obtain ⟨kids, b3⟩ := p
    simp only []
    cases closing b3 with
    | error e => rfl
    | ok q => rfl

theorem container_text (level : Nat) (kw body tail rest : Text) (c : Char) (cs : Text) (hkw : kw = c :: cs)
    (hc : isSpace c = false) :
    lstrip ((indent level ++ (kw ++ [' ', '{', '\n']) ++ body ++ tail) ++ rest)
      = kw ++ (' ' :: '{' :: '\n' :: (body ++ (tail ++ rest))) := by
  subst hkw
  simp only [List.append_assoc, List.cons_append, List.nil_append]
  rw [lstrip_indent]; exact lstrip_cons_nonspace _ hc

theorem peek_of_word (buf : Text) (c : Char) (r : Text) (h : buf = c :: r) (hw : isWord c = true) :
    peekLit ['}'] buf = false := by
  subst h; exact word_peek_close c r hw

mutual
theorem decl_print : (t : Tmpl) → (level sq : Nat) → (s rest : Text) → (fuel : Nat) →
    printT t level sq = .ok s → WFT t → needT t ≤ fuel →
    decl fuel (lstrip (s ++ rest)) = .ok (normT t sq, lstrip rest) ∧ peekLit ['}'] (lstrip (s ++ rest)) = false
  | .base b, level, sq, s, rest, fuel, hp, hwf, hf => by
    simp only [printT] at hp
    simp only [WFT] at hwf
    simp only [needT] at hf
    obtain ⟨f, rfl⟩ : ∃ f, fuel = f + 1 := ⟨fuel - 1, by omega⟩
    refine ⟨?_, printBase_peek b level sq s rest hp⟩
    rw [decl_base f _ (printBase_word b level sq s rest hp), base_print b level sq s rest hp hwf]
    simp [normT]
  | .grid n kids, level, sq, s, rest, fuel, hp, hwf, hf => by
    simp only [printT] at hp
    simp only [WFT] at hwf
    simp only [needT] at hf
    obtain ⟨f, rfl⟩ : ∃ f, fuel = f + 1 := ⟨fuel - 1, by omega⟩
    have hg := grid_print n kids level sq s rest hp hwf.1 hwf.2.1 hwf.2.2
    -- the text starts with "Grid "
    have hstart : ∃ Z, lstrip (s ++ rest) = "Grid".toList ++ (' ' :: Z) := by
      unfold printGrid at hp
      cases kids with
      | nil => cases hp
      | cons a maps =>
        simp only at hp
        cases h1 : printBase a (level + 2) sq with
        | error e => rw [h1] at hp; cases hp
        | ok sa =>
          rw [h1] at hp
          cases h2 : printBases maps (level + 2) sq with
          | error e => rw [h2] at hp; cases hp
          | ok sm =>
            rw [h2] at hp
            injection hp with hp; subst hp
            exact ⟨_, by simp only [List.append_assoc]; rw [lstrip_indent]; exact lstrip_cons_nonspace _ (by decide)⟩
    obtain ⟨Z, hZ⟩ := hstart
    have hw : lower ((lstrip (s ++ rest)).takeWhile isWord) = "grid".toList := by
      rw [hZ, (takeWhile_span isWord "Grid".toList ' ' _ (by decide) (by decide)).1]; decide
    refine ⟨?_, ?_⟩
    · rw [decl_grid f _ hw, hg]; simp [normT]
    · rw [hZ]; exact word_peek_close 'G' _ (by decide)
  | .struct n kids, level, sq, s, rest, fuel, hp, hwf, hf => by
    simp only [printT] at hp
    simp only [WFT] at hwf
    simp only [needT] at hf
    obtain ⟨f, rfl⟩ : ∃ f, fuel = f + 1 := ⟨fuel - 1, by omega⟩
    cases hb : printL kids (level + 1) sq with
    | error e => rw [hb] at hp; cases hp
    | ok body =>
      rw [hb] at hp
      injection hp with hp; subst hp
      have e1 := container_text level "Structure".toList body (closeText level n) rest 'S' _ rfl (by decide)
      have ih := decls_print kids (level + 1) sq body (closeText level n ++ rest) f hb hwf.2.1 (by omega)
        (closing_peek level n rest)
      have hc := closing_print level n rest hwf.1
      have hins := insertAll_nodup (normL kids sq) (by rw [normL_names]; exact hwf.2.2)
      refine ⟨?_, ?_⟩
      · show decl (f + 1) (lstrip ((indent level ++ ("Structure".toList ++ [' ', '{', '\n']) ++ body ++ closeText level n) ++ rest)) = _
        rw [e1, decl_struct, ih]
        simp only [hc, hins, normT]
      · show peekLit ['}'] (lstrip ((indent level ++ ("Structure".toList ++ [' ', '{', '\n']) ++ body ++ closeText level n) ++ rest)) = _
        rw [e1]; exact word_peek_close 'S' _ (by decide)
  | .seq n kids, level, sq, s, rest, fuel, hp, hwf, hf => by
    simp only [printT] at hp
    simp only [WFT] at hwf
    simp only [needT] at hf
    obtain ⟨f, rfl⟩ : ∃ f, fuel = f + 1 := ⟨fuel - 1, by omega⟩
    cases hb : printL kids (level + 1) (sq + 1) with
    | error e => rw [hb] at hp; cases hp
    | ok body =>
      rw [hb] at hp
      injection hp with hp; subst hp
      have e1 := container_text level "Sequence".toList body (closeText level n) rest 'S' _ rfl (by decide)
      have ih := decls_print kids (level + 1) (sq + 1) body (closeText level n ++ rest) f hb hwf.2.1 (by omega)
        (closing_peek level n rest)
      have hc := closing_print level n rest hwf.1
      have hins := insertAll_nodup (normL kids (sq + 1)) (by rw [normL_names]; exact hwf.2.2)
      refine ⟨?_, ?_⟩
      · show decl (f + 1) (lstrip ((indent level ++ ("Sequence".toList ++ [' ', '{', '\n']) ++ body ++ closeText level n) ++ rest)) = _
        rw [e1, decl_seq, ih]
        simp only [hc, hins, normT]
      · show peekLit ['}'] (lstrip ((indent level ++ ("Sequence".toList ++ [' ', '{', '\n']) ++ body ++ closeText level n) ++ rest)) = _
        rw [e1]; exact word_peek_close 'S' _ (by decide)
theorem decls_print : (ts : List Tmpl) → (level sq : Nat) → (s rest : Text) → (fuel : Nat) →
    printL ts level sq = .ok s → WFL ts → needL ts ≤ fuel → peekLit ['}'] (lstrip rest) = true →
    decls fuel (lstrip (s ++ rest)) = .ok (normL ts sq, lstrip rest)
  | [], level, sq, s, rest, fuel, hp, hwf, hf, hr => by
    simp only [printL] at hp
    injection hp with hp; subst hp
    cases fuel <;> simp [decls, hr, normL]
  | t :: ts, level, sq, s, rest, fuel, hp, hwf, hf, hr => by
    simp only [printL] at hp
    simp only [WFL] at hwf
    simp only [needL] at hf
    obtain ⟨f, rfl⟩ : ∃ f, fuel = f + 1 := ⟨fuel - 1, by omega⟩
    cases h1 : printT t level sq with
    | error e => rw [h1] at hp; cases hp
    | ok st =>
      rw [h1] at hp
      cases h2 : printL ts level sq with
      | error e => rw [h2] at hp; cases hp
      | ok sr =>
        rw [h2] at hp
        injection hp with hp; subst hp
        have ht := decl_print t level sq st (sr ++ rest) f h1 hwf.1 (by omega)
        have hts := decls_print ts level sq sr rest f h2 hwf.2 (by omega) hr
        rw [List.append_assoc]
        simp only [decls, ht.2, Bool.false_eq_true, if_false, ht.1, hts, normL]
end

/-! ### fuel: the text is long enough -/

theorem printGrid_len (n : Text) (kids : List BaseV) (level sq : Nat) (s : Text)
    (hp : printGrid n kids level sq = .ok s) : 2 ≤ s.length := by
  unfold printGrid at hp
  cases kids with
  | nil => cases hp
  | cons a maps =>
    simp only at hp
    cases h1 : printBase a (level + 2) sq with
    | error e => rw [h1] at hp; cases hp
    | ok sa =>
      rw [h1] at hp
      cases h2 : printBases maps (level + 2) sq with
      | error e => rw [h2] at hp; cases hp
      | ok sm =>
        rw [h2] at hp
        injection hp with hp; subst hp
        simp only [List.length_append, closeText, List.length_cons]; omega

mutual
theorem needT_len : (t : Tmpl) → (level sq : Nat) → (s : Text) → printT t level sq = .ok s → needT t + 1 ≤ s.length
  | .base b, level, sq, s, hp => by
    simp only [printT] at hp
    have := printBase_len b level sq s hp
    simp only [needT]; omega
  | .grid n kids, level, sq, s, hp => by
    simp only [printT] at hp
    have := printGrid_len n kids level sq s hp
    simp only [needT]; omega
  | .struct n kids, level, sq, s, hp => by
    simp only [printT] at hp
    cases hb : printL kids (level + 1) sq with
    | error e => rw [hb] at hp; cases hp
    | ok body =>
      rw [hb] at hp
      injection hp with hp; subst hp
      have := needL_len kids (level + 1) sq body hb
      simp only [needT, List.length_append, closeText, List.length_cons, String.toList]
      simp only [List.length_append, List.length_cons, List.length_nil]
      omega
  | .seq n kids, level, sq, s, hp => by
    simp only [printT] at hp
    cases hb : printL kids (level + 1) (sq + 1) with
    | error e => rw [hb] at hp; cases hp
    | ok body =>
      rw [hb] at hp
      injection hp with hp; subst hp
      have := needL_len kids (level + 1) (sq + 1) body hb
      simp only [needT, List.length_append, closeText, List.length_cons]
      omega
theorem needL_len : (ts : List Tmpl) → (level sq : Nat) → (s : Text) → printL ts level sq = .ok s → needL ts ≤ s.length
  | [], level, sq, s, hp => by simp [needL]
  | t :: ts, level, sq, s, hp => by
    simp only [printL] at hp
    cases h1 : printT t level sq with
    | error e => rw [h1] at hp; cases hp
    | ok st =>
      rw [h1] at hp
      cases h2 : printL ts level sq with
      | error e => rw [h2] at hp; cases hp
      | ok sr =>
        rw [h2] at hp
        injection hp with hp; subst hp
        have := needT_len t level sq st h1
        have := needL_len ts level sq sr h2
        simp only [needL, List.length_append]; omega
end

/-! ### datasets -/

def WFds (d : Dataset) : Prop := NameOk d.name ∧ WFL d.kids ∧ (d.kids.map Tmpl.name).Nodup

theorem parse_print (d : Dataset) (s : Text) (hp : printDs d = .ok s) (hwf : WFds d) :
    parseDds s = .ok (normDs d) := by
  unfold printDs at hp
  cases hb : printL d.kids 1 0 with
  | error e => rw [hb] at hp; cases hp
  | ok body =>
    rw [hb] at hp
    injection hp with hp; subst hp
    have hlen := needL_len d.kids 1 0 body hb
    have e0 : "Dataset {\n".toList ++ body ++ closeText 0 d.name
        = "Dataset".toList ++ (' ' :: '{' :: '\n' :: (body ++ (closeText 0 d.name ++ []))) := by
      simp
    have s1 : consumeLit "dataset".toList ("Dataset".toList ++ (' ' :: '{' :: '\n' :: (body ++ (closeText 0 d.name ++ []))))
        = .ok ('{' :: '\n' :: (body ++ (closeText 0 d.name ++ []))) := by
      rw [consumeLit_prefix _ _ _ (by decide), lstrip_cons_space _ (by decide), lstrip_cons_nonspace _ (by decide)]
    have s2 : consumeLit ['{'] ('{' :: '\n' :: (body ++ (closeText 0 d.name ++ [])))
        = .ok (lstrip (body ++ (closeText 0 d.name ++ []))) := by
      rw [consumeLit_one _ _ _ rfl, lstrip_cons_space _ (by decide)]
    have s3 := decls_print d.kids 1 0 body (closeText 0 d.name ++ [])
      ("Dataset".toList ++ (' ' :: '{' :: '\n' :: (body ++ (closeText 0 d.name ++ [])))).length hb hwf.2.1
      (by simp only [List.length_append, List.length_cons]; omega) (closing_peek 0 d.name [])
    have s4 := closing_print 0 d.name [] hwf.1
    have hins := insertAll_nodup (normL d.kids 0) (by rw [normL_names]; exact hwf.2.2)
    rw [e0]
    simp only [parseDds, parseDdsWith, s1, s2, s3, s4, hins, normDs]

end Pydap.Dds
