/-
  C09 helper lemmas: the record-marker loop decodes the wire form of a flat sequence, and raises on every
  proper prefix of it.
-/
import PydapModel.Stream
import Proofs.Stream
namespace Pydap.Stream
open Pydap.Gen

theorem runBR_bind (d : Dec α) (f : α → Dec β) : ∀ b : Bytes,
    (d.bind f).runBR b = (match d.runBR b with
      | .ok x => (f x.1).runBR x.2
      | .error e => .error e) := by
  induction d with
  | ret a => intro b; rfl
  | fail e => intro b; rfl
  | read n k ih =>
    intro b
    by_cases hn : n ≤ b.length
    · simp [Dec.bind, Dec.runBR, brRead, hn, ih]
    · simp [Dec.bind, Dec.runBR, brRead, hn]

theorem brRead_append (x rest : Bytes) : brRead x.length (x ++ rest) = .ok (x, rest) := by
  simp [brRead]

theorem brRead_append' (n : Nat) (x rest : Bytes) (h : x.length = n) : brRead n (x ++ rest) = .ok (x, rest) := by
  subst h; exact brRead_append x rest

/-! ### big-endian words -/

theorem be32enc_length (k : Nat) : (be32enc k).length = 4 := rfl

theorem be32_be32enc (k : Nat) (h : k < 4294967296) : be32 (be32enc k) = k := by
  simp [be32, be32enc, UInt8.toNat_ofNat']
  omega

/-! ### one value, one record -/

theorem pad_length (k : Nat) : (List.replicate (pad4 k) (0 : UInt8)).length = pad4 k := by simp

theorem decStr_enc (s rest : Bytes) (ha : isAscii s = true) (hl : s.length < 2147483648) :
    decStr.runBR (encStr s ++ rest) = .ok (s, rest) := by
  have h1 : brRead 4 (be32enc s.length ++ (s ++ (List.replicate (pad4 s.length) 0 ++ rest)))
      = .ok (be32enc s.length, s ++ (List.replicate (pad4 s.length) 0 ++ rest)) :=
    brRead_append' 4 _ _ rfl
  have h2 : be32 (be32enc s.length) = s.length := be32_be32enc _ (by omega)
  have h3 : brRead s.length (s ++ (List.replicate (pad4 s.length) 0 ++ rest))
      = .ok (s, List.replicate (pad4 s.length) 0 ++ rest) := brRead_append _ _
  have h4 : brRead (pad4 s.length) (List.replicate (pad4 s.length) 0 ++ rest)
      = .ok (List.replicate (pad4 s.length) 0, rest) := brRead_append' _ _ _ (by simp)
  have hnl : ¬ 2147483648 ≤ s.length := by omega
  simp only [decStr, encStr, List.append_assoc, Dec.runBR, h1, be32enc_length, h2]
  simp only [ne_eq, not_true_eq_false, if_false, hnl, Dec.runBR, h3, ha, if_true, h4]

theorem decCol_enc (c : Col) (v rest : Bytes) (h : ValOk c v) :
    (decCol c).runBR (encVal c v ++ rest) = .ok (v, rest) := by
  cases c with
  | fixed w =>
    simp only [ValOk] at h
    simp [decCol, encVal, Dec.runBR, brRead_append' w v rest h, h]
  | str => exact decStr_enc v rest h.1 h.2

theorem decCols_enc : ∀ (cols : List Col) (row : Row) (rest : Bytes), RowOk cols row →
    (decCols cols).runBR (encRow cols row ++ rest) = .ok (row, rest) := by
  intro cols
  induction cols with
  | nil =>
    intro row rest h
    cases row with
    | nil => simp [decCols, encRow, Dec.runBR]
    | cons v vs => simp [RowOk] at h
  | cons c cs ih =>
    intro row rest h
    cases row with
    | nil => simp [RowOk] at h
    | cons v vs =>
      obtain ⟨h1, h2⟩ := h
      simp only [decCols, encRow, List.append_assoc, runBR_bind, decCol_enc c v _ h1, ih vs rest h2]
      simp [Dec.runBR]

theorem simple_row : ∀ (cols : List Col) (row : Row), RowOk cols row → cols.all Col.isFixed = true →
    (encRow cols row).length = (cols.map Col.width).sum ∧
    splitWidths (cols.map Col.width) (encRow cols row) = row := by
  intro cols
  induction cols with
  | nil =>
    intro row h _
    cases row with
    | nil => simp [encRow, splitWidths]
    | cons v vs => simp [RowOk] at h
  | cons c cs ih =>
    intro row h hall
    cases row with
    | nil => simp [RowOk] at h
    | cons v vs =>
      obtain ⟨h1, h2⟩ := h
      cases c with
      | str => simp [Col.isFixed] at hall
      | fixed w =>
        simp only [ValOk] at h1
        have hall' : cs.all Col.isFixed = true := by simp [Col.isFixed] at hall ⊢; exact hall
        obtain ⟨i1, i2⟩ := ih vs h2 hall'
        constructor
        · simp [encRow, encVal, Col.width, h1, i1]
        · simp [encRow, encVal, Col.width, splitWidths, ← h1, i2]

theorem decRecord_enc (cols : List Col) (row : Row) (rest : Bytes) (h : RowOk cols row) :
    (decRecord cols).runBR (encRow cols row ++ rest) = .ok (row, rest) := by
  unfold decRecord
  by_cases hall : cols.all Col.isFixed = true
  · obtain ⟨i1, i2⟩ := simple_row cols row h hall
    rw [if_pos hall]
    simp [Dec.runBR, brRead_append' _ _ rest i1, i1, i2]
  · rw [if_neg hall]
    exact decCols_enc cols row rest h

/-! ### the marker loop -/

theorem start_length : START_OF_SEQUENCE.length = 4 := by decide
theorem end_length : END_OF_SEQUENCE.length = 4 := by decide
theorem end_ne_start : END_OF_SEQUENCE ≠ START_OF_SEQUENCE := by decide

theorem seqLoop_run (cols : List Col) (f : Nat) (b : Bytes) :
    (seqLoop cols (f + 1)).runBR b = (match brRead 4 b with
      | .error e => .error e
      | .ok m =>
        if m.1 = START_OF_SEQUENCE then
          match (decRecord cols).runBR m.2 with
          | .error e => .error e
          | .ok r => match (seqLoop cols f).runBR r.2 with
            | .error e => .error e
            | .ok rs => .ok (r.1 :: rs.1, rs.2)
        else .ok ([], m.2)) := by
  simp only [seqLoop, Dec.runBR]
  cases brRead 4 b with
  | error e => rfl
  | ok m =>
    simp only []
    by_cases hm : m.1 = START_OF_SEQUENCE
    · simp only [hm, if_true, runBR_bind]
      cases (decRecord cols).runBR m.2 with
      | error e => rfl
      | ok r =>
        simp only []
        cases (seqLoop cols f).runBR r.2 with
        | error e => rfl
        | ok rs => rfl
    · simp [hm, Dec.runBR]

theorem seqLoop_enc (cols : List Col) : ∀ (rows : List Row) (f : Nat) (rest : Bytes),
    (∀ r ∈ rows, RowOk cols r) → rows.length < f →
    (seqLoop cols f).runBR (encSeq cols rows ++ rest) = .ok (rows, rest) := by
  intro rows
  induction rows with
  | nil =>
    intro f rest _ hf
    obtain ⟨f, rfl⟩ : ∃ g, f = g + 1 := ⟨f - 1, by simp at hf; omega⟩
    rw [seqLoop_run]
    simp [encSeq, brRead_append' 4 END_OF_SEQUENCE rest end_length, end_ne_start]
  | cons r rs ih =>
    intro f rest hok hf
    obtain ⟨f, rfl⟩ : ∃ g, f = g + 1 := ⟨f - 1, by simp at hf; omega⟩
    rw [seqLoop_run]
    have h1 : brRead 4 (START_OF_SEQUENCE ++ (encRow cols r ++ (encSeq cols rs ++ rest)))
        = .ok (START_OF_SEQUENCE, encRow cols r ++ (encSeq cols rs ++ rest)) :=
      brRead_append' 4 _ _ start_length
    have h2 := decRecord_enc cols r (encSeq cols rs ++ rest) (hok r (by simp))
    have h3 := ih f rest (fun x hx => hok x (by simp [hx])) (by simp at hf; omega)
    simp only [encSeq, List.append_assoc, h1, if_true, h2, h3]

theorem encSeq_length (cols : List Col) : ∀ rows : List Row, rows.length < (encSeq cols rows).length := by
  intro rows
  induction rows with
  | nil => simp [encSeq, end_length]
  | cons r rs ih => simp [encSeq, start_length]; omega

/-- a proper prefix of the wire form of a sequence makes the loop raise, whatever the fuel beyond its length -/
theorem seqLoop_prefix (cols : List Col) : ∀ (rows : List Row) (p : Bytes) (f : Nat),
    (∀ r ∈ rows, RowOk cols r) → p <+: encSeq cols rows → p ≠ encSeq cols rows → p.length < f →
    (seqLoop cols f).runBR p = .error .eof := by
  intro rows
  induction rows with
  | nil =>
    intro p f _ hp hne hf
    obtain ⟨f, rfl⟩ : ∃ g, f = g + 1 := ⟨f - 1, by omega⟩
    rw [seqLoop_run]
    have hl : p.length < 4 := by
      have h1 := hp.length_le
      simp only [encSeq, end_length] at h1
      have : p.length ≠ 4 := fun h => hne (hp.eq_of_length (by simp [encSeq, end_length, h]))
      omega
    have : ¬ 4 ≤ p.length := by omega
    simp [brRead, this]
  | cons r rs ih =>
    intro p f hok hp hne hf
    obtain ⟨f, rfl⟩ : ∃ g, f = g + 1 := ⟨f - 1, by omega⟩
    rw [seqLoop_run]
    by_cases h4 : 4 ≤ p.length
    · -- p = START ++ p1
      obtain ⟨t, ht⟩ := hp
      simp only [encSeq, List.append_assoc] at ht
      have hs : p.take 4 = START_OF_SEQUENCE := by
        have := congrArg (List.take 4) ht
        rw [List.take_append_of_le_length h4, List.take_append_of_le_length (by simp [start_length])] at this
        simpa [List.take_of_length_le (Nat.le_of_eq start_length)] using this
      have hd : p.drop 4 ++ t = encRow cols r ++ encSeq cols rs := by
        have := congrArg (List.drop 4) ht
        rw [List.drop_append_of_le_length h4, List.drop_append_of_le_length (by simp [start_length])] at this
        simpa [List.drop_of_length_le (Nat.le_of_eq start_length)] using this
      have hb : brRead 4 p = .ok (START_OF_SEQUENCE, p.drop 4) := by simp [brRead, h4, hs]
      simp only [hb, if_true]
      have hfull := decRecord_enc cols r (encSeq cols rs) (hok r (by simp))
      have hpre : p.drop 4 <+: encRow cols r ++ encSeq cols rs := ⟨t, hd⟩
      rcases runBR_prefix (decRecord cols) _ _ _ _ hfull hpre with ⟨g1, g2⟩ | ⟨_, g2⟩
      · simp only [g2]
        have hlen : (encRow cols r ++ encSeq cols rs).length - (encSeq cols rs).length = (encRow cols r).length := by
          simp
        rw [hlen] at g1 g2 ⊢
        -- the rest is a proper prefix of the remaining rows
        have hd2 : (p.drop 4).drop (encRow cols r).length ++ t = encSeq cols rs := by
          have := congrArg (List.drop (encRow cols r).length) hd
          rw [List.drop_append_of_le_length g1] at this
          simpa using this
        have hne2 : (p.drop 4).drop (encRow cols r).length ≠ encSeq cols rs := by
          intro he
          apply hne
          have ht0 : t = [] := by
            have := congrArg List.length hd2
            rw [he] at this; simp at this
            exact this
          subst ht0
          simpa [encSeq] using ht
        have := ih ((p.drop 4).drop (encRow cols r).length) f (fun x hx => hok x (by simp [hx])) ⟨t, hd2⟩ hne2
          (by simp; omega)
        simp only [this]
      · simp only [g2]
    · have : ¬ 4 ≤ p.length := h4
      simp [brRead, this]

end Pydap.Stream
