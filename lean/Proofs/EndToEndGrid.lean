/-
  End-to-end composition, part 2 — grids: `grid[key]` is one `fetchArray` per indexed child, so (A)
  applies to the array and, at rank 1, to every indexed map.
-/
import Proofs.EndToEnd
namespace Pydap.E2E
open Pydap Pydap.Xdr

theorem fetchGrid_array (og : Bool) (ty : Ty) (shape : List Nat) (vals : List Val) (maps : List (Ty × List Val))
    (pre : List PSlice) (key : List Idx) :
    (fetchGrid og ty shape vals maps pre key)[0]? = some (0, fetchArray ty shape vals pre key) := by
  cases og <;> simp [fetchGrid, gridGetitem]

theorem fetchGrid_off (ty : Ty) (shape : List Nat) (vals : List Val) (maps : List (Ty × List Val))
    (pre : List PSlice) (key : List Idx) :
    fetchGrid false ty shape vals maps pre key = [(0, fetchArray ty shape vals pre key)] := by
  simp [fetchGrid, gridGetitem]

theorem validList_getElem : ∀ (shape : List Nat) (P : List PSlice) (E : List Idx), ValidList shape P E →
    ∀ (j : Nat) (h1 : j < shape.length) (h2 : j < P.length) (h3 : j < E.length),
      NonNegSl P[j] ∧ ValidIdx (sel shape[j] P[j]).length E[j]
  | [], _, _, _, j, h1, _, _ => by simp at h1
  | _ :: _, [], E, h, _, _, _, _ => by cases E <;> simp [ValidList] at h
  | _ :: _, _ :: _, [], h, _, _, _, _ => by simp [ValidList] at h
  | n :: ns, p :: ps, e :: es, h, 0, _, _, _ => ⟨h.1, h.2.1⟩
  | n :: ns, p :: ps, e :: es, h, j + 1, h1, h2, h3 => by
    simpa using validList_getElem ns ps es h.2.2 j (by simpa using h1) (by simpa using h2) (by simpa using h3)

/-- the slice map `j` stores (`pre[j]` or nothing) padded to rank 1 is entry `j` of the padded pre-constraint -/
theorem padPre_map (pre : List PSlice) (rank j : Nat) (hj : j < rank) (hp : pre.length ≤ rank) :
    padPre (pre[j]?).toList 1 = [(padPre pre rank)[j]'(by rw [padPre_length pre rank hp]; exact hj)] := by
  by_cases h : j < pre.length
  · simp [padPre, List.getElem_append_left, h]
  · have h' : pre.length ≤ j := by omega
    simp [padPre, List.getElem?_eq_none h', List.getElem_append_right h', PSlice.all]

/-- **an indexed map**: when `gridGetitem` pairs map `j` (child `j+1`) with the entry `e`, the client
    decodes numpy's `map_j[pre_j][e]` (axis kept) -/
theorem fetchGrid_map (og : Bool) (ty : Ty) (shape : List Nat) (vals : List Val) (maps : List (Ty × List Val))
    (pre : List PSlice) (key : List Idx) (j : Nat) (e : Idx) (hj : j < shape.length) (hjm : j < maps.length)
    (hp : pre.length ≤ shape.length)
    (hwm : WFArr maps[j].1 [shape[j]] maps[j].2) (he : e ≠ Idx.ell)
    (hg : (gridGetitem og shape.length key)[j + 1]? = some (j + 1, [e]))
    (hP : NonNegSl ((padPre pre shape.length)[j]'(by rw [padPre_length pre _ hp]; exact hj)))
    (hve : ValidIdx (sel shape[j] ((padPre pre shape.length)[j]'(by rw [padPre_length pre _ hp]; exact hj))).length e) :
    ∃ cs vs,
      numpyIndex [shape[j]] maps[j].2 [(padPre pre shape.length)[j]'(by rw [padPre_length pre _ hp]; exact hj)] [e]
        = some (cs, vs) ∧
      (fetchGrid og ty shape vals maps pre key)[j + 1]? = some (j + 1, .ok (dataOf cs vs, [])) := by
  have hnoell : NoEll [e] := by intro x hx; simp at hx; subst hx; exact he
  have hpl : ((pre[j]?).toList).length ≤ [shape[j]].length := by cases pre[j]? <;> simp
  obtain ⟨cs, vs, h1, h2⟩ := fetchArray_spec maps[j].1 [shape[j]] maps[j].2 ((pre[j]?).toList) [e] [e] hwm hpl
    (fun cshape hc => by
      match cshape, hc with
      | [c], _ =>
        rw [fixSlice_noEll [e] [c] hnoell (by simp)]
        simp [npExpand])
    (by
      show ValidList [shape[j]] (padPre (pre[j]?).toList 1) [e]
      rw [padPre_map pre shape.length j hj hp]
      exact ⟨hP, hve, trivial⟩)
  refine ⟨cs, vs, ?_, ?_⟩
  · have := padPre_map pre shape.length j hj hp
    simp only [List.length_cons, List.length_nil] at h1
    rw [show (0 + 1 : Nat) = 1 from rfl, this] at h1
    exact h1
  · simp only [fetchGrid, List.getElem?_map, hg, Option.map_some]
    simp only [Nat.add_sub_cancel, List.getElem?_eq_getElem hjm, List.getElem?_eq_getElem hj]
    simp [h2]

end Pydap.E2E
