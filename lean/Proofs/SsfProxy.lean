/-
  The id string of the client's function proxy parses back to the call tree it was built from
  (C19_proxy): `Ssf.render` (client.py `ServerFunction.__call__`) against `Ssf.parseCall`
  (`eval_function`: FUNCTION regexp + the parenthesis-aware tokeniser), character by character.
-/
import PydapModel.Ssf
namespace Pydap.Ssf
open Pydap Pydap.Handler

/-- a text without `(`, `)` and `,`: function names, variable ids, numbers as `%.6g` prints them,
    quoted strings without these three characters -/
def Plain (s : Str) : Prop := ∀ c ∈ s, c ≠ '(' ∧ c ≠ ')' ∧ c ≠ ','

instance (s : Str) : Decidable (Plain s) := by unfold Plain; exact inferInstance

mutual
/-- the call trees the proxy builds: plain names, plain non-empty leaves (`encode` never yields an
    empty text, ids are not empty), any number of arguments -/
def Arg.Ok : Arg → Prop
  | .tok s => Plain s ∧ s ≠ []
  | .call n args => Plain n ∧ Arg.OkList args
def Arg.OkList : List Arg → Prop
  | [] => True
  | a :: as => a.Ok ∧ Arg.OkList as
end

mutual
def Arg.depth : Arg → Nat
  | .tok _ => 0
  | .call _ args => Arg.depthList args + 1
def Arg.depthList : List Arg → Nat
  | [] => 0
  | a :: as => max a.depth (Arg.depthList as)
end

/-! ### the tokeniser on plain text and on rendered trees -/

theorem tokTop_plain (key : Char) : ∀ (s rest : Str) (n : Int) (cur : Str),
    (∀ c ∈ s, c ≠ '(' ∧ c ≠ ')' ∧ c ≠ key) →
    tokTop key (s ++ rest) n cur = tokTop key rest n (s.reverse ++ cur)
  | [], _, _, _, _ => by simp
  | c :: s, rest, n, cur, h => by
    have hc := h c (by simp)
    have ih := tokTop_plain key s rest n (c :: cur) (fun d hd => h d (by simp [hd]))
    simp only [List.cons_append, tokTop, hc.1, hc.2.1, hc.2.2, if_false, false_and]
    rw [ih]; simp

theorem render_call (n : Str) (args : List Arg) :
    render (.call n args) = n ++ ('(' :: (joinWith [','] (render.renderList args) ++ [')'])) := by
  simp [render]

mutual
/-- a rendered tree passes through the tokeniser without a split, whatever the running count -/
theorem tokTop_tree : ∀ (t : Arg), t.Ok → ∀ (rest : Str) (n : Int) (cur : Str), 0 ≤ n →
    tokTop ',' (render t ++ rest) n cur = tokTop ',' rest n ((render t).reverse ++ cur)
  | .tok s, h, rest, n, cur, _ => by
    simp only [render]
    exact tokTop_plain ',' s rest n cur h.1
  | .call nm args, h, rest, n, cur, hn => by
    simp only [Arg.Ok] at h
    rw [render_call, List.append_assoc, tokTop_plain ',' nm _ n cur h.1]
    simp only [List.cons_append, tokTop, if_true]
    rw [List.append_assoc, tokTop_list args h.2 _ (n + 1) _ (by omega)]
    simp only [List.cons_append, List.nil_append, tokTop]
    simp only [show (')' = '(') = False by decide, if_false, if_true]
    rw [show n + 1 - 1 = n by omega]
    simp
/-- the arguments of a call, joined by commas, pass at any count ≥ 1 -/
theorem tokTop_list : ∀ (as : List Arg), Arg.OkList as → ∀ (rest : Str) (n : Int) (cur : Str), 1 ≤ n →
    tokTop ',' (joinWith [','] (render.renderList as) ++ rest) n cur
      = tokTop ',' rest n ((joinWith [','] (render.renderList as)).reverse ++ cur)
  | [], _, rest, n, cur, _ => by simp [render.renderList, joinWith]
  | [a], h, rest, n, cur, hn => by
    simp only [render.renderList, joinWith]
    exact tokTop_tree a h.1 rest n cur (by omega)
  | a :: b :: as, h, rest, n, cur, hn => by
    simp only [render.renderList, joinWith]
    have hb := tokTop_list (b :: as) h.2 rest n
    simp only [render.renderList] at hb
    simp only [List.append_assoc]
    rw [tokTop_tree a h.1 _ n cur (by omega)]
    simp only [List.cons_append, List.nil_append, tokTop]
    have hne : ¬ (n = 0) := by omega
    simp only [show (',' = '(') = False by decide, show (',' = ')') = False by decide, if_false, hne, and_false]
    rw [hb _ hn]
    simp
end

/-- at count 0 the commas between the arguments — and only they — split -/
theorem tokTop_args : ∀ (as : List Arg), Arg.OkList as → as ≠ [] → ∀ (cur : Str),
    tokTop ',' (joinWith [','] (render.renderList as)) 0 cur
      = match render.renderList as with
        | [] => []
        | x :: xs => (cur.reverse ++ x) :: xs
  | [], _, hne, _ => absurd rfl hne
  | [a], h, _, cur => by
    simp only [render.renderList, joinWith]
    have := tokTop_tree a h.1 [] 0 cur (by omega)
    simp only [List.append_nil] at this
    rw [this]; simp [tokTop]
  | a :: b :: as, h, _, cur => by
    simp only [render.renderList, joinWith]
    simp only [List.append_assoc]
    rw [tokTop_tree a h.1 _ 0 cur (by omega)]
    simp only [List.cons_append, List.nil_append, tokTop]
    simp only [show (',' = '(') = False by decide, show (',' = ')') = False by decide, if_false, and_self, if_true]
    have ih := tokTop_args (b :: as) h.2 (by simp) []
    simp only [render.renderList] at ih
    rw [ih]; simp

/-! ### the FUNCTION regexp on rendered trees -/

theorem dropWhile_plain (s rest : Str) (h : ∀ c ∈ s, c ≠ '(') :
    (s ++ '(' :: rest).dropWhile (· ≠ '(') = '(' :: rest := by
  induction s with
  | nil => simp
  | cons c s ih =>
    have hc := h c (by simp)
    simp only [List.cons_append, List.dropWhile_cons, ne_eq, hc, not_false_eq_true, decide_true, if_true]
    exact ih (fun d hd => h d (by simp [hd]))

theorem takeWhile_plain (s rest : Str) (h : ∀ c ∈ s, c ≠ '(') :
    (s ++ '(' :: rest).takeWhile (· ≠ '(') = s := by
  induction s with
  | nil => simp
  | cons c s ih =>
    have hc := h c (by simp)
    simp only [List.cons_append, List.takeWhile_cons, ne_eq, hc, not_false_eq_true, decide_true, if_true]
    rw [ih (fun d hd => h d (by simp [hd]))]

theorem functionMatch_call (nm : Str) (args : List Arg) (h : Plain nm) :
    functionMatch (render (.call nm args)) = some (nm, joinWith [','] (render.renderList args)) := by
  have h' : ∀ c ∈ nm, c ≠ '(' := fun c hc => (h c hc).1
  rw [render_call]
  unfold functionMatch
  rw [dropWhile_plain nm _ h', takeWhile_plain nm _ h']
  simp

theorem functionMatch_plain (s : Str) (h : Plain s) : functionMatch s = none := by
  have : ∀ (s : Str), (∀ c ∈ s, c ≠ '(') → s.dropWhile (· ≠ '(') = [] := by
    intro s
    induction s with
    | nil => simp
    | cons c s ih =>
      intro h
      have hc := h c (by simp)
      simp only [List.dropWhile_cons, ne_eq, hc, not_false_eq_true, decide_true, if_true]
      exact ih (fun d hd => h d (by simp [hd]))
  unfold functionMatch
  rw [this s (fun c hc => (h c hc).1)]

/-! ### the round trip -/

theorem render_ne_nil : ∀ (t : Arg), t.Ok → render t ≠ []
  | .tok s, h => by simpa [render] using h.2
  | .call nm args, _ => by rw [render_call]; simp

theorem join_ne_nil (a : Arg) (as : List Arg) (h : Arg.OkList (a :: as)) :
    joinWith [','] (render.renderList (a :: as)) ≠ [] := by
  have := render_ne_nil a h.1
  cases as with
  | nil => simpa [render.renderList, joinWith] using this
  | cons b bs => simp [render.renderList, joinWith]

mutual
theorem parseCall_render : ∀ (t : Arg), t.Ok → ∀ fuel, t.depth ≤ fuel → parseCall fuel (render t) = t
  | .tok s, h, fuel, _ => by
    cases fuel with
    | zero => simp [parseCall, render]
    | succ f => simp only [parseCall, render]; rw [functionMatch_plain s h.1]
  | .call nm args, h, fuel, hd => by
    simp only [Arg.Ok] at h
    simp only [Arg.depth] at hd
    cases fuel with
    | zero => omega
    | succ f =>
      simp only [parseCall]
      rw [functionMatch_call nm args h.1]
      simp only
      have hl := parseCall_renderList args h.2 f (by omega)
      cases args with
      | nil => simp [render.renderList, joinWith, tokenizeArgs]
      | cons a as =>
        have hne := join_ne_nil a as h.2
        simp only [tokenizeArgs, hne, if_false]
        rw [tokTop_args (a :: as) h.2 (by simp) []]
        simp only [render.renderList] at hl ⊢
        simp only [List.reverse_nil, List.nil_append]
        rw [hl]
theorem parseCall_renderList : ∀ (as : List Arg), Arg.OkList as → ∀ fuel, Arg.depthList as ≤ fuel →
    (render.renderList as).map (parseCall fuel) = as
  | [], _, _, _ => by simp [render.renderList]
  | a :: as, h, fuel, hd => by
    simp only [Arg.depthList] at hd
    simp only [render.renderList, List.map_cons]
    rw [parseCall_render a h.1 fuel (by omega), parseCall_renderList as h.2 fuel (by omega)]
end

/-! ### the fuel the evaluator uses (the length of the text) always suffices -/

mutual
theorem depth_le_length : ∀ (t : Arg), t.depth ≤ (render t).length
  | .tok s => by simp [Arg.depth]
  | .call nm args => by
    rw [render_call]
    have := depthList_le_length args
    simp only [Arg.depth, List.length_append, List.length_cons, List.length_nil]
    omega
theorem depthList_le_length : ∀ (as : List Arg), Arg.depthList as ≤ (joinWith [','] (render.renderList as)).length
  | [] => by simp [Arg.depthList]
  | [a] => by
    have := depth_le_length a
    simp only [Arg.depthList, render.renderList, joinWith]
    omega
  | a :: b :: as => by
    have h1 := depth_le_length a
    have h2 := depthList_le_length (b :: as)
    simp only [render.renderList] at h2
    simp only [Arg.depthList, render.renderList, joinWith, List.length_append] at h2 ⊢
    omega
end

end Pydap.Ssf
