/-
  C12 — `get_var(dataset, var.id) is var`: below a dataset root satisfying the invariant, the id of every
  variable reachable through listed children is the dotted chain of the (quoted) names on the way, and
  looking that id up with `get_var` returns exactly that variable.
-/
import PydapModel.Heap
import Proofs.Quote
import Proofs.Tree
namespace Pydap.Tree
open Pydap.Quote

/-! ### `str.split` -/

/-- the `foldr` inside `splitOn`: (the piece in front of the first separator, the later pieces) -/
def splitAux (sep : Chr) (s : Str) : Str × List Str :=
  s.foldr (fun c (acc : Str × List Str) => if c = sep then ([], acc.1 :: acc.2) else (c :: acc.1, acc.2)) ([], [])

theorem splitOn_eq (sep : Chr) (s : Str) : splitOn sep s = (splitAux sep s).1 :: (splitAux sep s).2 := rfl

theorem splitAux_cons (sep c : Chr) (s : Str) :
    splitAux sep (c :: s) =
      if c = sep then ([], (splitAux sep s).1 :: (splitAux sep s).2)
      else (c :: (splitAux sep s).1, (splitAux sep s).2) := rfl

theorem splitAux_free (sep : Chr) (b : Str) (h : sep ∉ b) : splitAux sep b = (b, []) := by
  induction b with
  | nil => rfl
  | cons c t ih =>
    simp only [List.mem_cons, not_or] at h
    have hc : ¬ c = sep := fun e => h.1 e.symm
    rw [splitAux_cons, if_neg hc, ih h.2]

theorem splitAux_snoc (sep : Chr) (a b : Str) (h : sep ∉ b) :
    splitAux sep (a ++ sep :: b) = ((splitAux sep a).1, (splitAux sep a).2 ++ [b]) := by
  induction a with
  | nil =>
    show splitAux sep (sep :: b) = _
    rw [splitAux_cons, if_pos rfl, splitAux_free sep b h]; rfl
  | cons c t ih =>
    rw [List.cons_append, splitAux_cons, splitAux_cons, ih]
    by_cases hc : c = sep
    · simp [hc]
    · simp [hc]

/-- a string without the separator is its own single piece -/
theorem splitOn_free (sep : Chr) (b : Str) (h : b.contains sep = false) : splitOn sep b = [b] := by
  have h' : sep ∉ b := by simpa using h
  rw [splitOn_eq, splitAux_free sep b h']

/-- appending a separator and a separator-free piece appends that piece -/
theorem splitOn_snoc (sep : Chr) (a b : Str) (h : b.contains sep = false) :
    splitOn sep (a ++ sep :: b) = splitOn sep a ++ [b] := by
  have h' : sep ∉ b := by simpa using h
  rw [splitOn_eq, splitOn_eq, splitAux_snoc sep a b h']; rfl

theorem joinDot_snoc (ns : List Str) (n : Str) (hne : ns ≠ []) :
    joinDot (ns ++ [n]) = joinDot ns ++ dot :: n := by
  induction ns with
  | nil => exact absurd rfl hne
  | cons a t ih =>
    cases t with
    | nil => rfl
    | cons b t' =>
      have := ih (by simp)
      simp only [List.cons_append, joinDot] at this ⊢
      rw [this]; simp

theorem joinDot_eq_intercalate (ns : List Str) : joinDot ns = List.intercalate [dot] ns := by
  induction ns with
  | nil => rfl
  | cons a t ih =>
    cases t with
    | nil => simp [joinDot, List.intercalate]
    | cons b t' =>
      simp only [joinDot, ih]
      simp [List.intercalate, List.intersperse]

/-! ### `_dict[k]` under the invariant -/

/-- the entry found under `k` satisfies the invariant, is named `k`, and (if listed) carries the id derived
    from the parent -/
theorem find?_some (pk : Kind) (pid : Str) (vis : List Str) (f : Forest) (k : Str) (c : Obj)
    (hs : shapeOk f = true) (hi : idsOk pk pid vis f = true) (h : f.find? k = some c) :
    invO c ∧ c.hdr.name = k ∧ (listed vis c.hdr.name = true → c.hdr.id = childId pk pid c.hdr.name) := by
  induction f with
  | nil => simp [Forest.find?] at h
  | cons h0 kids rest _ ihr =>
    simp only [shapeOk, Bool.and_eq_true] at hs
    obtain ⟨⟨⟨⟨⟨⟨s1, s2⟩, s3⟩, s4⟩, s5⟩, s6⟩, s7⟩ := hs
    simp only [idsOk, Bool.and_eq_true] at hi
    obtain ⟨⟨i1, i2⟩, i3⟩ := hi
    simp only [Forest.find?] at h
    split at h
    · rename_i he
      cases h
      refine ⟨⟨?_, i2⟩, he, ?_⟩
      · simp only [shapeO, shapeOk, Bool.and_eq_true]
        exact ⟨⟨⟨⟨⟨⟨s1, s2⟩, by simp [Forest.keys]⟩, s4⟩, s5⟩, s6⟩, trivial⟩
      · intro hl
        simpa [hl] using i1
    · exact ihr s7 i3 h

/-- `c` is listed directly below `o`: some visible key `k` with `_dict[_quote(k)] = c`
    (this is what `children()` yields) -/
def childOf (o c : Obj) : Prop := ∃ k ∈ o.hdr.visible, o.kids.find? (quote k) = some c

/-- every element of `children o` is a `childOf o` -/
theorem childOf_of_children (o c : Obj) (cs : List Obj) (h : children o = .ok cs) (hc : c ∈ cs) : childOf o c := by
  unfold children at h
  unfold childOf
  generalize o.hdr.visible = vis at h
  induction vis generalizing cs with
  | nil =>
    simp only [List.mapM_nil, pure, Except.pure] at h
    cases h; cases hc
  | cons k t ih =>
    simp only [List.mapM_cons, bind, Except.bind, pure, Except.pure] at h
    cases hf : o.kids.find? (quote k) with
    | none => rw [hf] at h; cases h
    | some c0 =>
      rw [hf] at h
      simp only at h
      split at h
      · cases h
      · rename_i cs' ht
        cases h
        rcases List.mem_cons.1 hc with hc | hc
        · subst hc; exact ⟨k, by simp, hf⟩
        · obtain ⟨k', hk', hf'⟩ := ih cs' hc ht
          exact ⟨k', by simp [hk'], hf'⟩

/-- a listed child: invariant, id derived from the parent, clean name, and `parent[child.name] is child` -/
theorem childOf_facts (o c : Obj) (ho : invO o) (h : childOf o c) :
    invO c ∧ c.hdr.id = childId o.hdr.kind o.hdr.id c.hdr.name
    ∧ quote c.hdr.name = c.hdr.name ∧ c.hdr.name.contains dot = false
    ∧ getItem o c.hdr.name = .ok c := by
  obtain ⟨k, hk, hf⟩ := h
  obtain ⟨hs, hi⟩ := ho
  have he := ((shapeO_parts o).1 hs).2.2.2.2
  obtain ⟨hc, hn, hid⟩ := find?_some _ _ _ _ _ _ he hi hf
  have hl : listed o.hdr.visible c.hdr.name = true := by
    simp only [listed, List.any_eq_true]
    exact ⟨k, hk, by simp [hn]⟩
  obtain ⟨q, d, _⟩ := (shapeO_parts c).1 hc.1
  refine ⟨hc, hid hl, q, d, ?_⟩
  unfold getItem
  rw [hn, quote_idem, hf]

/-! ### `get_var` -/

theorem getVar_free (o : Obj) (n : Str) (h : n.contains dot = false) : getVar o n = getItem o n := by
  unfold getVar
  rw [splitOn_free dot n h]
  simp only [List.foldlM_cons, List.foldlM_nil, bind, Except.bind, pure, Except.pure]
  cases getItem o n <;> rfl

theorem getVar_snoc (o p : Obj) (pid n : Str) (h : n.contains dot = false) (hp : getVar o pid = .ok p) :
    getVar o (pid ++ dot :: n) = getItem p n := by
  unfold getVar at hp ⊢
  rw [splitOn_snoc dot pid n h, List.foldlM_append, hp]
  simp only [List.foldlM_cons, List.foldlM_nil, bind, Except.bind, pure, Except.pure]
  cases getItem p n <;> rfl

/-- `Chain root ns v`: `v` is reached from `root` in ≥ 1 steps through listed children, `ns` the names on
    the way; no intermediate object is a dataset (datasets are roots) -/
inductive Chain (root : Obj) : List Str → Obj → Prop
  | child {c} : childOf root c → Chain root [c.hdr.name] c
  | step {ns p c} : Chain root ns p → p.hdr.kind ≠ .dataset → childOf p c → Chain root (ns ++ [c.hdr.name]) c

theorem Chain.ne_nil {root v : Obj} {ns : List Str} (h : Chain root ns v) : ns ≠ [] := by
  cases h <;> simp

/-- **`get_var(dataset, var.id) is var`** for every variable reachable from the dataset through listed
    children; its id is the dotted chain of the names, each of them quoted and free of `.` -/
theorem getVar_chain (root v : Obj) (ns : List Str) (hr : invObj root = true) (hd : root.hdr.kind = .dataset)
    (hc : Chain root ns v) :
    getVar root v.hdr.id = .ok v ∧ splitOn dot v.hdr.id = ns ∧ v.hdr.id = joinDot ns
    ∧ (∀ n ∈ ns, quote n = n ∧ n.contains dot = false) ∧ invObj v = true := by
  induction hc with
  | @child c h =>
    obtain ⟨hi, hid, q, d, hg⟩ := childOf_facts root c ((invO_iff root).2 hr) h
    have hid' : c.hdr.id = c.hdr.name := by rw [hid, hd]; simp [childId]
    refine ⟨?_, ?_, ?_, ?_, (invO_iff c).1 hi⟩
    · rw [hid', getVar_free _ _ d, hg]
    · rw [hid', splitOn_free _ _ d]
    · rw [hid']; rfl
    · intro n hn
      simp only [List.mem_singleton] at hn
      subst hn; exact ⟨q, d⟩
  | @step ns p c hch hnd h ih =>
    obtain ⟨g, sp, j, al, ip⟩ := ih
    obtain ⟨hi, hid, q, d, hg⟩ := childOf_facts p c ((invO_iff p).2 ip) h
    have hid' : c.hdr.id = p.hdr.id ++ dot :: c.hdr.name := by rw [hid]; simp [childId, hnd]
    refine ⟨?_, ?_, ?_, ?_, (invO_iff c).1 hi⟩
    · rw [hid', getVar_snoc root p _ _ d g, hg]
    · rw [hid', splitOn_snoc _ _ _ d, sp]
    · rw [hid', joinDot_snoc _ _ hch.ne_nil, j]
    · intro n hn
      simp only [List.mem_append, List.mem_singleton] at hn
      rcases hn with hn | hn
      · exact al n hn
      · subst hn; exact ⟨q, d⟩

/-- the same with `List.intercalate` -/
theorem getVar_chain_intercalate (root v : Obj) (ns : List Str) (hr : invObj root = true)
    (hd : root.hdr.kind = .dataset) (hc : Chain root ns v) :
    getVar root v.hdr.id = .ok v ∧ v.hdr.id = List.intercalate [dot] ns := by
  obtain ⟨a, _, c, _⟩ := getVar_chain root v ns hr hd hc
  exact ⟨a, by rw [c, joinDot_eq_intercalate]⟩

/-- every element of `children(dataset)` is found again under its id -/
theorem getVar_children (root c : Obj) (cs : List Obj) (hr : invObj root = true) (hd : root.hdr.kind = .dataset)
    (h : children root = .ok cs) (hc : c ∈ cs) : getVar root c.hdr.id = .ok c :=
  (getVar_chain root c _ hr hd (.child (childOf_of_children root c cs h hc))).1

/-! ### a concrete dataset: `ds["s"]["a b"]`, the grand-child's name needs quoting -/

/-- `a b` -/
def exName : Str := [[97], [32], [98]]

def exTree : Except Err Obj := do
  let s ← setItem (mkObj 1 .struct [[115]] [] .none) exName (mkObj 2 .base exName [] (.atom 0))
  setItem (mkObj 0 .dataset [[100], [115]] [] .none) [[115]] s

/-- the grand-child, as stored: name `a%20b`, id `s.a%20b` -/
def exLeaf : Obj :=
  ⟨⟨2, .base, quote exName, [115] :: dot :: quote exName, [], [], .atom 0⟩, .nil⟩

example : quote exName = [[97], [37], [50], [48], [98]] := by decide

example : (exTree.toOption.map invObj) = some true := by decide

example : (do let ds ← exTree; getVar ds exLeaf.hdr.id).toOption = some exLeaf := by decide

/-- `children(ds["s"])` yields one object, whose id is `s.a%20b` -/
example : (do let ds ← exTree; let s ← getItem ds [[115]]; let cs ← children s
              pure (cs.map fun (c : Obj) => c.hdr.id)).toOption
    = some [[115] :: dot :: quote exName] := by decide

end Pydap.Tree
