/-
  Helper lemmas for C01/C05: big-endian words, table facts (by `decide` over the generated tables),
  the numeric value round trip.
-/
import PydapModel.XdrTypes
import PydapModel.XdrSpec
import PydapModel.Xdr
namespace Pydap.Xdr

@[simp] theorem be_length (k n : Nat) : (be k n).length = k := by
  induction k generalizing n with
  | zero => rfl
  | succ k ih => simp [be, ih]

theorem beNat_snoc (xs : Bytes) (b : UInt8) : beNat (xs ++ [b]) = beNat xs * 256 + b.toNat := by
  simp [beNat, List.foldl_append]

theorem beNat_be (k n : Nat) : beNat (be k n) = n % 256 ^ k := by
  induction k generalizing n with
  | zero => simp [be, beNat, Nat.mod_one]
  | succ k ih =>
    rw [be, beNat_snoc, ih]
    have h : (UInt8.ofNat (n % 256)).toNat = n % 256 := by
      simp [UInt8.toNat_ofNat']
    rw [h, Nat.pow_succ, Nat.mul_comm (256 ^ k) 256, Nat.mod_mul]
    omega

@[simp] theorem zeros_length (n : Nat) : (zeros n).length = n := by simp [zeros]

/-! ### table facts: re-elaborated against lib.py's tables on every run -/

theorem lengthWord_eq (n : Nat) : lengthWord n = be 4 n := by
  have : (dtypeItemsize Gen.DAP2_ARRAY_LENGTH_NUMPY_TYPE).getD 0 = 4 := by decide
  simp [lengthWord, this]

theorem start_eq : Gen.START_OF_SEQUENCE = XdrSpec.startOfInstance := by decide
theorem end_eq : Gen.END_OF_SEQUENCE = XdrSpec.endOfSequence := by decide

theorem wireWidth_tbl :
    wireWidth .byte = 1 ∧ wireWidth .int16 = 4 ∧ wireWidth .uint16 = 4 ∧ wireWidth .int32 = 4 ∧
    wireWidth .uint32 = 4 ∧ wireWidth .float32 = 4 ∧ wireWidth .float64 = 8 ∧ wireWidth .string = 0 := by
  decide

theorem wireChar_S (ty : Ty) : wireChar ty = 'S' ↔ ty = .string := by
  cases ty <;> decide

theorem wireChar_B (ty : Ty) : wireChar ty = 'B' ↔ ty = .byte := by
  cases ty <;> decide

theorem wireStr_B (ty : Ty) : wireStr ty = "B" ↔ ty = .byte := by
  cases ty <;> decide

theorem parserChar_S (ty : Ty) : parserChar ty = 'S' ↔ ty = .string := by
  cases ty <;> decide


theorem parser_tbl :
    parserWidth .byte = 1 ∧ parserWidth .int16 = 2 ∧ parserWidth .uint16 = 2 ∧ parserWidth .int32 = 4 ∧
    parserWidth .uint32 = 4 ∧ parserWidth .float32 = 4 ∧ parserWidth .float64 = 8 ∧
    parserChar .byte = 'B' ∧ parserChar .int16 = 'h' ∧ parserChar .uint16 = 'H' ∧ parserChar .int32 = 'i' ∧
    parserChar .uint32 = 'I' ∧ parserChar .float32 = 'f' ∧ parserChar .float64 = 'd' := by
  decide

theorem fromWire_toWire (ty : Ty) (v : Int) (h : wfVal ty (.num v) = true) :
    fromWire ty (toWire ty (.num v)) = .ok (.num v) := by
  obtain ⟨w1, w2, w3, w4, w5, w6, w7, _⟩ := wireWidth_tbl
  obtain ⟨p1, p2, p3, p4, p5, p6, p7, c1, c2, c3, c4, c5, c6, c7⟩ := parser_tbl
  cases ty
  case string => simp [wfVal] at h
  all_goals
    simp only [wfVal, Bool.and_eq_true, decide_eq_true_eq] at h
    simp only [fromWire, toWire, be_length, beNat_be, narrow, w1, w2, w3, w4, w5, w6, w7,
      p1, p2, p3, p4, p5, p6, p7, c1, c2, c3, c4, c5, c6, c7]
    simp
    omega
end Pydap.Xdr
