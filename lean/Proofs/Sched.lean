/-
  Noninterference for the generic shared-heap machine of `PydapModel/Sched.lean`:
  under the ownership discipline every schedule gives every thread exactly its solo run.
-/
import PydapModel.Sched
namespace Pydap.Sched

variable {L V O E : Type} [DecidableEq L]

theorem writeAll_notin (h : Heap L V) (ls : List L) (vs : List V) (l : L) (hl : l ∉ ls) :
    writeAll h ls vs l = h l := by
  induction ls generalizing h vs with
  | nil => simp [writeAll]
  | cons a ls ih =>
    cases vs with
    | nil => simp [writeAll]
    | cons v vs =>
      simp only [writeAll]
      rw [ih]
      · simp only [Heap.set]
        have : l ≠ a := fun e => hl (by simp [e])
        simp [this]
      · exact fun m => hl (List.mem_cons_of_mem _ m)

theorem writeAll_congr (h h' : Heap L V) (ls : List L) (vs : List V) (l : L) (e : h l = h' l) :
    writeAll h ls vs l = writeAll h' ls vs l := by
  induction ls generalizing h h' vs with
  | nil => simpa [writeAll] using e
  | cons a ls ih =>
    cases vs with
    | nil => simpa [writeAll] using e
    | cons v vs =>
      simp only [writeAll]
      apply ih
      simp only [Heap.set]
      split <;> simp [e]

/-- the remaining program only ever shrinks to a suffix -/
theorem stepThread_suffix (h : Heap L V) (s : TState L V O E) :
    (stepThread h s).2.rest <:+ s.rest := by
  unfold stepThread
  split
  · simp_all
  · rename_i st rest hr
    split
    · rw [hr]; exact List.nil_suffix
    · rw [hr]; exact List.suffix_cons _ _

theorem soloN_suffix (h : Heap L V) (s : TState L V O E) (k : Nat) :
    (soloN h s k).2.rest <:+ s.rest := by
  induction k generalizing h s with
  | zero => exact List.suffix_refl _
  | succ k ih => exact (ih _ _).trans (stepThread_suffix h s)

theorem soloN_succ (h : Heap L V) (s : TState L V O E) (k : Nat) :
    soloN h s (k + 1) = stepThread (soloN h s k).1 (soloN h s k).2 := by
  induction k generalizing h s with
  | zero => rfl
  | succ k ih => rw [soloN, ih]; rfl

/-- a step leaves untouched every location outside the write set of the step it executes -/
theorem stepThread_heap_notin (h : Heap L V) (s : TState L V O E) (l : L)
    (hl : ∀ st, st ∈ s.rest → l ∉ st.writes) : (stepThread h s).1 l = h l := by
  unfold stepThread
  split
  · rfl
  · rename_i st rest hr
    split
    · rfl
    · exact writeAll_notin _ _ _ _ (hl st (by rw [hr]; simp))

/-- two heaps that agree on the reads of the next step produce the same thread state, and agree
    afterwards wherever they agreed before -/
theorem stepThread_agree (h h' : Heap L V) (s : TState L V O E)
    (hr : ∀ st, st ∈ s.rest → ∀ l, l ∈ st.reads → h l = h' l) :
    (stepThread h s).2 = (stepThread h' s).2 ∧
    ∀ l, h l = h' l → (stepThread h s).1 l = (stepThread h' s).1 l := by
  unfold stepThread
  split
  · exact ⟨rfl, fun _ e => e⟩
  · rename_i st rest hs
    have hm : st.reads.map h = st.reads.map h' :=
      List.map_congr_left (fun l hl => hr st (by rw [hs]; simp) l hl)
    rw [hm]
    split
    · exact ⟨rfl, fun _ e => e⟩
    · exact ⟨rfl, fun l e => writeAll_congr _ _ _ _ _ e⟩

/-- the invariant carried along a schedule: thread `t` has made `n t` steps and its control state and
    owned part of the heap are those of its solo run of `n t` steps; never-written locations still
    hold their initial value -/
structure Inv (owner : L → Option Nat) (P : Nat → List (Step L V O E)) (h0 : Heap L V)
    (c : Config L V O E) (n : Nat → Nat) : Prop where
  th : ∀ t, c.th t = (soloN h0 ⟨P t, []⟩ (n t)).2
  own : ∀ t l, owner l = some t → c.heap l = (soloN h0 ⟨P t, []⟩ (n t)).1 l
  frame : ∀ l, NeverWritten P l → c.heap l = h0 l

theorem soloN_frame (P : Nat → List (Step L V O E)) (h0 : Heap L V) (t : Nat) (k : Nat) (l : L)
    (hl : NeverWritten P l) : (soloN h0 ⟨P t, []⟩ k).1 l = h0 l := by
  induction k with
  | zero => rfl
  | succ k ih =>
    rw [soloN_succ, stepThread_heap_notin, ih]
    intro st hst
    exact hl t st ((soloN_suffix h0 ⟨P t, []⟩ k).subset hst)

theorem inv_init (owner : L → Option Nat) (P : Nat → List (Step L V O E)) (h0 : Heap L V) :
    Inv owner P h0 (init h0 P) (fun _ => 0) :=
  ⟨fun _ => rfl, fun _ _ _ => rfl, fun _ _ => rfl⟩

theorem inv_sched {owner : L → Option Nat} {P : Nat → List (Step L V O E)} {h0 : Heap L V}
    (hD : Disciplined owner P) {c : Config L V O E} {n : Nat → Nat} (hI : Inv owner P h0 c n)
    (t : Nat) : Inv owner P h0 (sched c t) (fun u => if u = t then n t + 1 else n u) := by
  -- the steps still ahead of thread t belong to its program
  have hsub : ∀ st, st ∈ (c.th t).rest → st ∈ P t := by
    intro st hst
    rw [hI.th t] at hst
    exact (soloN_suffix h0 ⟨P t, []⟩ (n t)).subset hst
  -- the shared heap and t's solo heap agree on everything t's next step reads
  have hreads : ∀ st, st ∈ (c.th t).rest → ∀ l, l ∈ st.reads →
      c.heap l = (soloN h0 ⟨P t, []⟩ (n t)).1 l := by
    intro st hst l hl
    rcases hD.reads_ok t st (hsub st hst) l hl with ho | hn
    · exact hI.own t l ho
    · rw [hI.frame l hn, soloN_frame P h0 t (n t) l hn]
  have hag := stepThread_agree c.heap (soloN h0 ⟨P t, []⟩ (n t)).1 (c.th t) hreads
  constructor
  · intro u
    by_cases hu : u = t
    · subst hu
      simp only [sched, if_true]
      rw [soloN_succ, hag.1, hI.th u]
    · simp only [sched, if_neg hu]
      exact hI.th u
  · intro u l ho
    by_cases hu : u = t
    · subst hu
      simp only [sched, if_true]
      rw [soloN_succ, hag.2 l (hI.own u l ho), hI.th u]
    · simp only [sched, if_neg hu]
      rw [stepThread_heap_notin]
      · exact hI.own u l ho
      · intro st hst hl
        have := hD.writes_owned t st (hsub st hst) l hl
        rw [ho] at this
        exact hu (Option.some.inj this)
  · intro l hn
    simp only [sched]
    rw [stepThread_heap_notin]
    · exact hI.frame l hn
    · intro st hst
      exact hn t st (hsub st hst)

theorem inv_run {owner : L → Option Nat} {P : Nat → List (Step L V O E)} {h0 : Heap L V}
    (hD : Disciplined owner P) (σ : List Nat) {c : Config L V O E} {n : Nat → Nat}
    (hI : Inv owner P h0 c n) : Inv owner P h0 (run c σ) (fun u => n u + σ.count u) := by
  induction σ generalizing c n with
  | nil => simpa [run] using hI
  | cons t σ ih =>
    have h1 := ih (inv_sched hD hI t)
    simp only [run]
    have e : (fun u => (if u = t then n t + 1 else n u) + σ.count u)
        = (fun u => n u + (t :: σ).count u) := by
      funext u
      by_cases hu : u = t
      · subst hu; simp; omega
      · have : ¬ t = u := fun e => hu e.symm
        simp [hu, this]
    rw [e] at h1
    exact h1

/-- a finished thread stays finished -/
theorem stepThread_nil (h : Heap L V) (s : TState L V O E) (hs : s.rest = []) :
    stepThread h s = (h, s) := by
  unfold stepThread; rw [hs]

theorem soloN_nil (h : Heap L V) (s : TState L V O E) (hs : s.rest = []) (k : Nat) :
    soloN h s k = (h, s) := by
  induction k with
  | zero => rfl
  | succ k ih => rw [soloN, stepThread_nil h s hs]; exact ih

theorem stepThread_length (h : Heap L V) (s : TState L V O E) :
    (stepThread h s).2.rest.length ≤ s.rest.length - 1 := by
  unfold stepThread
  split
  · simp_all
  · rename_i st rest hr
    split <;> simp [hr]

theorem soloN_add (h : Heap L V) (s : TState L V O E) (j k : Nat) :
    soloN h s (j + k) = soloN (soloN h s j).1 (soloN h s j).2 k := by
  induction j generalizing h s with
  | zero => simp [soloN]
  | succ j ih => rw [Nat.add_right_comm, soloN, ih]; rfl

theorem soloN_done (h : Heap L V) (s : TState L V O E) (k : Nat) (hk : s.rest.length ≤ k) :
    (soloN h s k).2.rest = [] := by
  induction k generalizing h s with
  | zero => simpa [soloN] using hk
  | succ k ih =>
    rw [soloN]
    apply ih
    have := stepThread_length h s
    omega

/-- running past completion changes nothing -/
theorem soloN_saturate (h : Heap L V) (prog : List (Step L V O E)) (k : Nat)
    (hk : prog.length ≤ k) : soloN h ⟨prog, []⟩ k = solo h prog := by
  obtain ⟨d, rfl⟩ := Nat.exists_eq_add_of_le hk
  rw [soloN_add, solo]
  exact soloN_nil _ _ (soloN_done h ⟨prog, []⟩ prog.length (Nat.le_refl _)) d

/-! ### requests that raise midway (malformed requests, errors found while constraining the dataset) -/

/-- the step of a request at which a Python exception is raised: touches nothing, ends the thread with `e` -/
def raiseStep (e : E) : Step L V O E := ⟨[], [], fun _ => .error e⟩

/-- a program cut short: `none` = runs to its end; `some (k, e)` = after `k` steps the exception `e` is raised
    (`k = 0`: the request is rejected before anything is done, as `parse_ce` does with a malformed one) -/
def interrupted (prog : List (Step L V O E)) : Option (Nat × E) → List (Step L V O E)
  | none => prog
  | some (k, e) => prog.take k ++ [raiseStep e]

theorem mem_interrupted {prog : List (Step L V O E)} {c : Option (Nat × E)} {s : Step L V O E}
    (h : s ∈ interrupted prog c) : s ∈ prog ∨ (s.reads = [] ∧ s.writes = []) := by
  cases c with
  | none => exact Or.inl h
  | some ke =>
    obtain ⟨k, e⟩ := ke
    simp only [interrupted, List.mem_append, List.mem_singleton] at h
    rcases h with h | h
    · exact Or.inl (List.mem_of_mem_take h)
    · subst h; exact Or.inr ⟨rfl, rfl⟩

/-- the discipline survives cutting any thread's program short at any point, with any exception -/
theorem disciplined_interrupted {owner : L → Option Nat} {P : Nat → List (Step L V O E)}
    (hD : Disciplined owner P) (cut : Nat → Option (Nat × E)) :
    Disciplined owner (fun t => interrupted (P t) (cut t)) := by
  refine ⟨?_, ?_⟩
  · intro t s hs l hl
    rcases mem_interrupted hs with h | h
    · exact hD.writes_owned t s h l hl
    · rw [h.2] at hl; cases hl
  · intro t s hs l hl
    rcases mem_interrupted hs with h | h
    · rcases hD.reads_ok t s h l hl with h' | h'
      · exact Or.inl h'
      · right
        intro u s' hs' hw
        rcases mem_interrupted hs' with h'' | h''
        · exact h' u s' h'' hw
        · rw [h''.2] at hw; cases hw
    · rw [h.1] at hl; cases hl

/-- a request rejected before its first step emits the exception and nothing else -/
theorem solo_rejected (h : Heap L V) (prog : List (Step L V O E)) (e : E) :
    (solo h (interrupted prog (some (0, e)))).2.outs = [Emit.err e] ∧
    (solo h (interrupted prog (some (0, e)))).1 = h := by
  simp [solo, interrupted, soloN, stepThread, raiseStep]

end Pydap.Sched
