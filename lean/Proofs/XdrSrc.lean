/-
  C05/C01: the encoder's dispatch on the source representation (`Xdr.encArr`, PydapModel/XdrSrc.lean) produces the
  value-level encoding `encBase` of the data the array holds, whatever dtype char, byte order, strides, offset and
  memory hold it.
-/
import Proofs.XdrBasic
import Proofs.XdrEnc
import PydapModel.XdrSrc
namespace Pydap.Xdr

/-! ### the loop over blocks is the logical order -/

theorem blocks_flatten (a : NpArr) (sh : List Nat) (st : List Int) (n : Nat) :
    (blocks a (n :: sh) st).flatten = elemsAt a (n :: sh) st a.offset := by
  cases st with
  | nil => simp [blocks, elemsAt]
  | cons s st => simp [blocks, elemsAt, List.flatMap_def]

theorem blocksWire_flatten (ty : Ty) (bl : List (List Elem)) :
    blocksWire ty bl = (bl.flatten.map (castWire ty)).flatten := by
  induction bl with
  | nil => simp [blocksWire]
  | cons b bl ih =>
    simp only [blocksWire] at ih
    simp [blocksWire, ih]

/-! ### items and their values -/

theorem castWire_of_val (ty : Ty) (hs : ty ≠ .string) (e : Elem) (v : Val) (hv : e.val? = some v)
    (hw : wfVal ty v = true) : castWire ty e = toWire ty v := by
  cases e with
  | num n => simp [Elem.val?] at hv; subst hv; rfl
  | ustr cps =>
    simp only [Elem.val?] at hv
    split at hv
    · simp at hv; subst hv; cases ty <;> simp [wfVal] at hw; exact absurd rfl hs
    · simp at hv
  | bstr b =>
    simp [Elem.val?] at hv; subst hv; cases ty <;> simp [wfVal] at hw; exact absurd rfl hs

theorem map_castWire (ty : Ty) (hs : ty ≠ .string) (es : List Elem) (vs : List Val) (hv : valsOf? es = some vs)
    (hw : vs.all (wfVal ty) = true) : es.map (castWire ty) = vs.map (toWire ty) := by
  induction es generalizing vs with
  | nil => simp [valsOf?] at hv; subst hv; rfl
  | cons e es ih =>
    simp only [valsOf?] at hv
    cases h1 : e.val? with
    | none => simp [h1] at hv
    | some v =>
      cases h2 : valsOf? es with
      | none => simp [h1, h2] at hv
      | some vs' =>
        simp [h1, h2] at hv
        subst hv
        simp only [List.all_cons, Bool.and_eq_true] at hw
        simp [castWire_of_val ty hs e v h1 hw.1, ih vs' h2 hw.2]

theorem encWord_of_val (e : Elem) (v : Val) (hv : e.val? = some v) (hw : wfVal .string v = true) :
    encWord e = .ok (strField v) := by
  cases e with
  | num n => simp [Elem.val?] at hv; subst hv; simp [wfVal] at hw
  | ustr cps =>
    simp only [Elem.val?] at hv
    split at hv
    · rename_i h
      simp at hv; subst hv
      simp [encWord, h, strField]
    · simp at hv
  | bstr b => simp [Elem.val?] at hv; subst hv; simp [encWord, strField]

theorem encWords_of_vals (es : List Elem) (vs : List Val) (hv : valsOf? es = some vs)
    (hw : vs.all (wfVal .string) = true) : encWords es = .ok (vs.map strField).flatten := by
  induction es generalizing vs with
  | nil => simp [valsOf?] at hv; subst hv; rfl
  | cons e es ih =>
    simp only [valsOf?] at hv
    cases h1 : e.val? with
    | none => simp [h1] at hv
    | some v =>
      cases h2 : valsOf? es with
      | none => simp [h1, h2] at hv
      | some vs' =>
        simp [h1, h2] at hv
        subst hv
        simp only [List.all_cons, Bool.and_eq_true] at hw
        simp [encWords, encWord_of_val e v h1 hw.1, ih vs' h2 hw.2]

/-! ### `_basetype` on an array = the value-level encoder on the data it holds -/

theorem encArr_eq_encBase (a : NpArr) (ty : Ty) (d : Data) (hty : a.ty? = some ty) (hd : a.data? = some d)
    (hwf : WF (.base ty a.shape) d = true) : encArr a = .ok (encBase ty d) := by
  unfold NpArr.ty? at hty
  unfold encArr
  rw [hty]
  simp only
  unfold NpArr.data? at hd
  cases hsh : a.shape with
  | nil =>
    simp only [hsh, List.isEmpty_nil, if_true] at hd ⊢
    cases hv : (readElem a a.offset).val? with
    | none => simp [hv] at hd
    | some v =>
      simp [hv] at hd
      subst hd
      rw [hsh] at hwf
      simp only [WF] at hwf
      have hb : blocks a [1] [0] = [[readElem a a.offset]] := by
        simp [blocks, elemsAt]
      rw [hb]
      by_cases hs : ty = .string
      · subst hs
        have hS : wireChar .string = 'S' := by decide
        have hB : ¬ wireStr .string = "B" := by decide
        simp [hS, hB, encWords, encWord_of_val _ v hv hwf, encBase, encElems]
      · have hS : ¬ wireChar ty = 'S' := by rw [wireChar_S]; exact hs
        have hc := castWire_of_val ty hs _ v hv hwf
        by_cases hB : wireStr ty = "B"
        · simp [hB, blocksWire, hc, encBase, encElems, prod]
        · simp [hB, hS, blocksWire, hc, encBase, encElems]
  | cons n sh =>
    simp only [hsh, List.isEmpty_cons, Bool.false_eq_true, if_false] at hd ⊢
    cases hv : valsOf? a.elems with
    | none => simp [hv] at hd
    | some vs =>
      simp [hv] at hd
      subst hd
      rw [hsh] at hwf
      simp only [WF, Bool.and_eq_true, beq_iff_eq, decide_eq_true_eq] at hwf
      obtain ⟨⟨hlen, hall⟩, _⟩ := hwf
      have hfl : (blocks a (n :: sh) a.strides).flatten = a.elems := by
        rw [blocks_flatten]; simp [NpArr.elems, hsh]
      by_cases hs : ty = .string
      · subst hs
        have hS : wireChar .string = 'S' := by decide
        have hB : ¬ wireStr .string = "B" := by decide
        simp [hS, hB, hfl, encWords_of_vals _ vs hv hall, encBase, encElems, hlen]
      · have hS : ¬ wireChar ty = 'S' := by rw [wireChar_S]; exact hs
        have hc := map_castWire ty hs _ vs hv hall
        by_cases hB : wireStr ty = "B"
        · simp [hB, hS, blocksWire_flatten, hfl, hc, encBase, encElems, hlen]
        · simp [hB, hS, blocksWire_flatten, hfl, hc, encBase, encElems, hlen]

/-- … hence the reference encoding -/
theorem encArr_eq_spec (a : NpArr) (ty : Ty) (d : Data) (hty : a.ty? = some ty) (hd : a.data? = some d)
    (hwf : WF (.base ty a.shape) d = true) : encArr a = .ok (XdrSpec.enc (.base ty a.shape) d) := by
  rw [encArr_eq_encBase a ty d hty hd hwf, ← encImpl_eq _ _ hwf]
  simp [encImpl]

/-! ### items no wider than their wire type are in range, whatever the memory holds -/

theorem foldl_be_lt (bs : Bytes) (acc : Nat) :
    bs.foldl (fun a b => a * 256 + b.toNat) acc < (acc + 1) * 256 ^ bs.length := by
  induction bs generalizing acc with
  | nil => simp
  | cons b bs ih =>
    simp only [List.foldl_cons, List.length_cons]
    have h1 := ih (acc * 256 + b.toNat)
    have hb : b.toNat < 256 := b.toNat_lt
    have h2 : (acc * 256 + b.toNat + 1) * 256 ^ bs.length ≤ ((acc + 1) * 256) * 256 ^ bs.length :=
      Nat.mul_le_mul_right _ (by omega)
    calc _ < _ := h1
      _ ≤ _ := h2
      _ = _ := by rw [Nat.pow_succ]; simp [Nat.mul_assoc, Nat.mul_comm]

theorem beNat_lt (bs : Bytes) : beNat bs < 256 ^ bs.length := by
  have := foldl_be_lt bs 0
  simpa [beNat] using this

theorem itemNat_lt (big : Bool) (bs : Bytes) (w : Nat) (h : bs.length ≤ w) : itemNat big bs < 256 ^ w := by
  have h1 : itemNat big bs < 256 ^ bs.length := by
    unfold itemNat
    split
    · exact beNat_lt bs
    · have := beNat_lt bs.reverse
      simpa using this
  exact Nat.lt_of_lt_of_le h1 (Nat.pow_le_pow_right (by omega) h)

/-- dtype chars whose items are no wider than the wire type of their DAP2 type -/
def NChar.narrow : NChar → Bool
  | .b | .h | .i | .B | .H | .I | .bool | .f | .d => true
  | _ => false

theorem readElem_in_range (a : NpArr) (ty : Ty) (hty : a.ty? = some ty) (hn : a.char.narrow = true) (addr : Int) :
    ∃ v, readElem a addr = .num v ∧ wfVal ty (.num v) = true := by
  have hlen : ∀ w, ((a.buf.drop addr.toNat).take w).length ≤ w := by
    intro w; simp [List.length_take]; omega
  unfold NpArr.ty? at hty
  cases hc : a.char <;> simp [hc, NChar.narrow] at hn
  all_goals
    rw [hc] at hty
    simp only [NChar.code] at hty
  case b =>
    have : ty = .int16 := by
      have h : tyOfNumpyChar "b" = some .int16 := by decide
      rw [h] at hty; exact (Option.some.inj hty).symm
    subst this
    have := itemNat_lt a.big _ 1 (hlen 1)
    refine ⟨_, by simp [readElem, hc, NChar.kind, NpArr.itemsize, NChar.size]; rfl, ?_⟩
    simp [wfVal, toSigned]
    split <;> omega
  case h =>
    have : ty = .int16 := by
      have h : tyOfNumpyChar "h" = some .int16 := by decide
      rw [h] at hty; exact (Option.some.inj hty).symm
    subst this
    have := itemNat_lt a.big _ 2 (hlen 2)
    refine ⟨_, by simp [readElem, hc, NChar.kind, NpArr.itemsize, NChar.size]; rfl, ?_⟩
    simp [wfVal, toSigned]
    split <;> omega
  case i =>
    have : ty = .int32 := by
      have h : tyOfNumpyChar "i" = some .int32 := by decide
      rw [h] at hty; exact (Option.some.inj hty).symm
    subst this
    have := itemNat_lt a.big _ 4 (hlen 4)
    refine ⟨_, by simp [readElem, hc, NChar.kind, NpArr.itemsize, NChar.size]; rfl, ?_⟩
    simp [wfVal, toSigned]
    split <;> omega
  case B =>
    have : ty = .byte := by
      have h : tyOfNumpyChar "B" = some .byte := by decide
      rw [h] at hty; exact (Option.some.inj hty).symm
    subst this
    have := itemNat_lt a.big _ 1 (hlen 1)
    refine ⟨_, by simp [readElem, hc, NChar.kind, NpArr.itemsize, NChar.size]; rfl, ?_⟩
    simp [wfVal]
    omega
  case H =>
    have : ty = .uint16 := by
      have h : tyOfNumpyChar "H" = some .uint16 := by decide
      rw [h] at hty; exact (Option.some.inj hty).symm
    subst this
    have := itemNat_lt a.big _ 2 (hlen 2)
    refine ⟨_, by simp [readElem, hc, NChar.kind, NpArr.itemsize, NChar.size]; rfl, ?_⟩
    simp [wfVal]
    omega
  case I =>
    have : ty = .uint32 := by
      have h : tyOfNumpyChar "I" = some .uint32 := by decide
      rw [h] at hty; exact (Option.some.inj hty).symm
    subst this
    have := itemNat_lt a.big _ 4 (hlen 4)
    refine ⟨_, by simp [readElem, hc, NChar.kind, NpArr.itemsize, NChar.size]; rfl, ?_⟩
    simp [wfVal]
    omega
  case bool =>
    have : ty = .byte := by
      have h : tyOfNumpyChar "?" = some .byte := by decide
      rw [h] at hty; exact (Option.some.inj hty).symm
    subst this
    have := itemNat_lt a.big _ 1 (hlen 1)
    refine ⟨_, by simp [readElem, hc, NChar.kind, NpArr.itemsize, NChar.size]; rfl, ?_⟩
    simp [wfVal]
    omega
  case f =>
    have : ty = .float32 := by
      have h : tyOfNumpyChar "f" = some .float32 := by decide
      rw [h] at hty; exact (Option.some.inj hty).symm
    subst this
    have := itemNat_lt a.big _ 4 (hlen 4)
    refine ⟨_, by simp [readElem, hc, NChar.kind, NpArr.itemsize, NChar.size]; rfl, ?_⟩
    simp [wfVal]
    omega
  case d =>
    have : ty = .float64 := by
      have h : tyOfNumpyChar "d" = some .float64 := by decide
      rw [h] at hty; exact (Option.some.inj hty).symm
    subst this
    have := itemNat_lt a.big _ 8 (hlen 8)
    refine ⟨_, by simp [readElem, hc, NChar.kind, NpArr.itemsize, NChar.size]; rfl, ?_⟩
    simp [wfVal]
    omega

/-! ### records of a sequence source: the flat path on cells = the flat path on their values -/

theorem encCellFlat_of_val (ty : Ty) (c : Cell) (v : Val) (hv : c.val? = some v) (hw : wfVal ty v = true) :
    encCellFlat ty c = .ok (flatField ty v) := by
  cases c with
  | num ch n =>
    simp [Cell.val?] at hv; subst hv
    have hs : ty ≠ .string := by intro e; subst e; simp [wfVal] at hw
    have hS : ¬ wireChar ty = 'S' := by rw [wireChar_S]; exact hs
    simp [encCellFlat, flatField, hS]
  | ustr cps =>
    simp only [Cell.val?] at hv
    split at hv
    · rename_i h
      simp at hv; subst hv
      have : ty = .string := by cases ty <;> simp [wfVal] at hw; rfl
      subst this
      have hS : wireChar .string = 'S' := by decide
      simp [encCellFlat, h, flatField, hS, strField]
    · simp at hv
  | bstr b =>
    simp [Cell.val?] at hv; subst hv
    have : ty = .string := by cases ty <;> simp [wfVal] at hw; rfl
    subst this
    have hS : wireChar .string = 'S' := by decide
    simp [encCellFlat, flatField, hS, strField]

theorem encCellsFlat_of_vals : ∀ (tys : List Ty) (cs : List Cell) (vs : List Val), cellVals? cs = some vs →
    WFs (tys.map fun ty => .base ty []) (vs.map Data.scalar) = true →
    encCellsFlat tys cs = .ok (flatRecord (tys.map fun ty => .base ty []) (vs.map Data.scalar))
  | [], [], vs, hv, _ => by simp [cellVals?] at hv; subst hv; simp [encCellsFlat, flatRecord]
  | [], _ :: _, vs, hv, hw => by
    cases vs with
    | nil => simp [encCellsFlat, flatRecord]
    | cons v vs => simp [WFs] at hw
  | _ :: _, [], vs, hv, hw => by simp [cellVals?] at hv; subst hv; simp [WFs] at hw
  | ty :: tys, c :: cs, vs, hv, hw => by
    simp only [cellVals?] at hv
    cases h1 : c.val? with
    | none => simp [h1] at hv
    | some v =>
      cases h2 : cellVals? cs with
      | none => simp [h1, h2] at hv
      | some vs' =>
        simp [h1, h2] at hv
        subst hv
        simp only [List.map_cons, WFs, WF, Bool.and_eq_true] at hw
        simp [encCellsFlat, flatRecord, encCellFlat_of_val ty c v h1 hw.1,
          encCellsFlat_of_vals tys cs vs' h2 hw.2]

/-! ### a tree of sources -/

mutual
theorem encSrc_eq : ∀ (s : Src) (t : Tmpl) (d : Data), s.view? = some (t, d) → WF t d = true →
    encSrc s = .ok (XdrSpec.enc t d)
  | .arr a, t, d, hv, hw => by
    simp only [Src.view?] at hv
    cases h1 : a.ty? with
    | none => simp [h1] at hv
    | some ty =>
      cases h2 : a.data? with
      | none => simp [h1, h2] at hv
      | some d' =>
        simp [h1, h2] at hv
        obtain ⟨rfl, rfl⟩ := hv
        simp only [encSrc]
        exact encArr_eq_spec a ty d' h1 h2 hw
  | .val t' d', t, d, hv, hw => by
    simp [Src.view?] at hv
    obtain ⟨rfl, rfl⟩ := hv
    simp [encSrc, encImpl_eq _ _ hw]
  | .struct cs, t, d, hv, hw => by
    simp only [Src.view?] at hv
    cases h1 : Src.views? cs with
    | none => simp [h1] at hv
    | some p =>
      simp [h1] at hv
      obtain ⟨rfl, rfl⟩ := hv
      simp only [WF, Bool.and_eq_true] at hw
      simp only [encSrc, XdrSpec.enc]
      exact encSrcs_eq cs p.1 p.2 (by rw [h1]) hw.2
theorem encSrcs_eq : ∀ (cs : List Src) (ts : List Tmpl) (ds : List Data), Src.views? cs = some (ts, ds) →
    WFs ts ds = true → encSrcs cs = .ok (XdrSpec.encs ts ds)
  | [], ts, ds, hv, _ => by
    simp [Src.views?] at hv
    obtain ⟨rfl, rfl⟩ := hv
    simp [encSrcs, XdrSpec.encs]
  | c :: cs, ts, ds, hv, hw => by
    simp only [Src.views?] at hv
    cases h1 : c.view? with
    | none => simp [h1] at hv
    | some p =>
      cases h2 : Src.views? cs with
      | none => simp [h1, h2] at hv
      | some q =>
        simp [h1, h2] at hv
        obtain ⟨rfl, rfl⟩ := hv
        simp only [WFs, Bool.and_eq_true] at hw
        simp [encSrcs, XdrSpec.encs, encSrc_eq c p.1 p.2 (by rw [h1]) hw.1,
          encSrcs_eq cs q.1 q.2 (by rw [h2]) hw.2]
end

end Pydap.Xdr
