/-
  C05/C01: the encoder's dispatch on the source representation (`Xdr.encArr`, PydapModel/XdrSrc.lean) produces the
  value-level encoding `encBase` of the data the array holds, whatever dtype char, byte order, strides, offset and
  memory hold it.
-/
import Proofs.XdrBasic
import Proofs.XdrEnc
import Proofs.XdrDec
import PydapModel.XdrSrc
import Mathlib.Tactic.Ring
namespace Pydap.Xdr

/-! ### the loop over blocks is the logical order -/

theorem blocks_flatten (a : NpArr) (sh : List Nat) (st : List Int) (n : Nat) :
    (blocks a (n :: sh) st).flatten = elemsAt a (n :: sh) st a.offset := by
  cases st with
  | nil => simp [blocks, elemsAt]
  | cons s st => simp [blocks, elemsAt, List.flatMap_def]

theorem blocksWire_flatten (ty : Ty) (bl : List (List Elem)) :
    blocksWire ty bl = (bl.flatten.map (castWire ty)).flatten := by
  induction bl with
  | nil => simp [blocksWire]
  | cons b bl ih =>
    simp only [blocksWire] at ih
    simp [blocksWire, ih]

/-! ### items and their values -/

theorem castWire_of_val (ty : Ty) (hs : ty ≠ .string) (e : Elem) (v : Val) (hv : e.val? = some v)
    (hw : wfVal ty v = true) : castWire ty e = toWire ty v := by
  cases e with
  | num n => simp [Elem.val?] at hv; subst hv; rfl
  | ustr cps =>
    simp only [Elem.val?] at hv
    split at hv
    · simp at hv; subst hv; cases ty <;> simp [wfVal] at hw; exact absurd rfl hs
    · simp at hv
  | bstr b =>
    simp [Elem.val?] at hv; subst hv; cases ty <;> simp [wfVal] at hw; exact absurd rfl hs

theorem map_castWire (ty : Ty) (hs : ty ≠ .string) (es : List Elem) (vs : List Val) (hv : valsOf? es = some vs)
    (hw : vs.all (wfVal ty) = true) : es.map (castWire ty) = vs.map (toWire ty) := by
  induction es generalizing vs with
  | nil => simp [valsOf?] at hv; subst hv; rfl
  | cons e es ih =>
    simp only [valsOf?] at hv
    cases h1 : e.val? with
    | none => simp [h1] at hv
    | some v =>
      cases h2 : valsOf? es with
      | none => simp [h1, h2] at hv
      | some vs' =>
        simp [h1, h2] at hv
        subst hv
        simp only [List.all_cons, Bool.and_eq_true] at hw
        simp [castWire_of_val ty hs e v h1 hw.1, ih vs' h2 hw.2]

theorem encWord_of_val (e : Elem) (v : Val) (hv : e.val? = some v) (hw : wfVal .string v = true) :
    encWord e = .ok (strField v) := by
  cases e with
  | num n => simp [Elem.val?] at hv; subst hv; simp [wfVal] at hw
  | ustr cps =>
    simp only [Elem.val?] at hv
    split at hv
    · rename_i h
      simp at hv; subst hv
      simp [encWord, h, strField]
    · simp at hv
  | bstr b => simp [Elem.val?] at hv; subst hv; simp [encWord, strField]

theorem encWords_of_vals (es : List Elem) (vs : List Val) (hv : valsOf? es = some vs)
    (hw : vs.all (wfVal .string) = true) : encWords es = .ok (vs.map strField).flatten := by
  induction es generalizing vs with
  | nil => simp [valsOf?] at hv; subst hv; rfl
  | cons e es ih =>
    simp only [valsOf?] at hv
    cases h1 : e.val? with
    | none => simp [h1] at hv
    | some v =>
      cases h2 : valsOf? es with
      | none => simp [h1, h2] at hv
      | some vs' =>
        simp [h1, h2] at hv
        subst hv
        simp only [List.all_cons, Bool.and_eq_true] at hw
        simp [encWords, encWord_of_val e v h1 hw.1, ih vs' h2 hw.2]

/-! ### `_basetype` on an array = the value-level encoder on the data it holds -/

theorem encArr_eq_encBase (a : NpArr) (ty : Ty) (d : Data) (hty : a.ty? = some ty) (hd : a.data? = some d)
    (hwf : WF (.base ty a.shape) d = true) : encArr a = .ok (encBase ty d) := by
  unfold NpArr.ty? at hty
  unfold encArr
  rw [hty]
  simp only
  unfold NpArr.data? at hd
  cases hsh : a.shape with
  | nil =>
    simp only [hsh, List.isEmpty_nil, if_true] at hd ⊢
    cases hv : (readElem a a.offset).val? with
    | none => simp [hv] at hd
    | some v =>
      simp [hv] at hd
      subst hd
      rw [hsh] at hwf
      simp only [WF] at hwf
      have hb : blocks a [1] [0] = [[readElem a a.offset]] := by
        simp [blocks, elemsAt]
      rw [hb]
      by_cases hs : ty = .string
      · subst hs
        have hS : wireChar .string = 'S' := by decide
        have hB : ¬ wireStr .string = "B" := by decide
        simp [hS, hB, encWords, encWord_of_val _ v hv hwf, encBase, encElems]
      · have hS : ¬ wireChar ty = 'S' := by rw [wireChar_S]; exact hs
        have hc := castWire_of_val ty hs _ v hv hwf
        by_cases hB : wireStr ty = "B"
        · simp [hB, blocksWire, hc, encBase, encElems, prod]
        · simp [hB, hS, blocksWire, hc, encBase, encElems]
  | cons n sh =>
    simp only [hsh, List.isEmpty_cons, Bool.false_eq_true, if_false] at hd ⊢
    cases hv : valsOf? a.elems with
    | none => simp [hv] at hd
    | some vs =>
      simp [hv] at hd
      subst hd
      rw [hsh] at hwf
      simp only [WF, Bool.and_eq_true, beq_iff_eq, decide_eq_true_eq] at hwf
      obtain ⟨⟨hlen, hall⟩, _⟩ := hwf
      have hfl : (blocks a (n :: sh) a.strides).flatten = a.elems := by
        rw [blocks_flatten]; simp [NpArr.elems, hsh]
      by_cases hs : ty = .string
      · subst hs
        have hS : wireChar .string = 'S' := by decide
        have hB : ¬ wireStr .string = "B" := by decide
        simp [hS, hB, hfl, encWords_of_vals _ vs hv hall, encBase, encElems, hlen]
      · have hS : ¬ wireChar ty = 'S' := by rw [wireChar_S]; exact hs
        have hc := map_castWire ty hs _ vs hv hall
        by_cases hB : wireStr ty = "B"
        · simp [hB, hS, blocksWire_flatten, hfl, hc, encBase, encElems, hlen]
        · simp [hB, hS, blocksWire_flatten, hfl, hc, encBase, encElems, hlen]

/-- … hence the reference encoding -/
theorem encArr_eq_spec (a : NpArr) (ty : Ty) (d : Data) (hty : a.ty? = some ty) (hd : a.data? = some d)
    (hwf : WF (.base ty a.shape) d = true) : encArr a = .ok (XdrSpec.enc (.base ty a.shape) d) := by
  rw [encArr_eq_encBase a ty d hty hd hwf, ← encImpl_eq _ _ hwf]
  simp [encImpl]

/-! ### items no wider than their wire type are in range, whatever the memory holds -/

theorem foldl_be_lt (bs : Bytes) (acc : Nat) :
    bs.foldl (fun a b => a * 256 + b.toNat) acc < (acc + 1) * 256 ^ bs.length := by
  induction bs generalizing acc with
  | nil => simp
  | cons b bs ih =>
    simp only [List.foldl_cons, List.length_cons]
    have h1 := ih (acc * 256 + b.toNat)
    have hb : b.toNat < 256 := b.toNat_lt
    have h2 : (acc * 256 + b.toNat + 1) * 256 ^ bs.length ≤ ((acc + 1) * 256) * 256 ^ bs.length :=
      Nat.mul_le_mul_right _ (by omega)
    calc _ < _ := h1
      _ ≤ _ := h2
      _ = _ := by rw [Nat.pow_succ]; simp [Nat.mul_assoc, Nat.mul_comm]

theorem beNat_lt (bs : Bytes) : beNat bs < 256 ^ bs.length := by
  have := foldl_be_lt bs 0
  simpa [beNat] using this

theorem itemNat_lt (big : Bool) (bs : Bytes) (w : Nat) (h : bs.length ≤ w) : itemNat big bs < 256 ^ w := by
  have h1 : itemNat big bs < 256 ^ bs.length := by
    unfold itemNat
    split
    · exact beNat_lt bs
    · have := beNat_lt bs.reverse
      simpa using this
  exact Nat.lt_of_lt_of_le h1 (Nat.pow_le_pow_right (by omega) h)

/-- dtype chars whose items are no wider than the wire type of their DAP2 type -/
def NChar.narrow : NChar → Bool
  | .b | .h | .i | .B | .H | .I | .bool | .f | .d => true
  | _ => false

theorem readElem_in_range (a : NpArr) (ty : Ty) (hty : a.ty? = some ty) (hn : a.char.narrow = true) (addr : Int) :
    ∃ v, readElem a addr = .num v ∧ wfVal ty (.num v) = true := by
  have hlen : ∀ w, ((a.buf.drop addr.toNat).take w).length ≤ w := by
    intro w; rw [List.length_take]; exact Nat.min_le_left _ _
  unfold NpArr.ty? at hty
  cases hc : a.char <;> simp [hc, NChar.narrow] at hn
  all_goals
    rw [hc] at hty
    simp only [NChar.code] at hty
  case b =>
    have : ty = .int16 := by
      have h : tyOfNumpyChar "b" = some .int16 := by decide
      rw [h] at hty; exact (Option.some.inj hty).symm
    subst this
    have := itemNat_lt a.big _ 1 (hlen 1)
    refine ⟨_, by simp [readElem, hc, NChar.kind, NpArr.itemsize, NChar.size]; rfl, ?_⟩
    simp [wfVal, toSigned]
    split <;> omega
  case h =>
    have : ty = .int16 := by
      have h : tyOfNumpyChar "h" = some .int16 := by decide
      rw [h] at hty; exact (Option.some.inj hty).symm
    subst this
    have := itemNat_lt a.big _ 2 (hlen 2)
    refine ⟨_, by simp [readElem, hc, NChar.kind, NpArr.itemsize, NChar.size]; rfl, ?_⟩
    simp [wfVal, toSigned]
    split <;> omega
  case i =>
    have : ty = .int32 := by
      have h : tyOfNumpyChar "i" = some .int32 := by decide
      rw [h] at hty; exact (Option.some.inj hty).symm
    subst this
    have := itemNat_lt a.big _ 4 (hlen 4)
    refine ⟨_, by simp [readElem, hc, NChar.kind, NpArr.itemsize, NChar.size]; rfl, ?_⟩
    simp [wfVal, toSigned]
    split <;> omega
  case B =>
    have : ty = .byte := by
      have h : tyOfNumpyChar "B" = some .byte := by decide
      rw [h] at hty; exact (Option.some.inj hty).symm
    subst this
    have := itemNat_lt a.big _ 1 (hlen 1)
    refine ⟨_, by simp [readElem, hc, NChar.kind, NpArr.itemsize, NChar.size]; rfl, ?_⟩
    simp [wfVal]
    omega
  case H =>
    have : ty = .uint16 := by
      have h : tyOfNumpyChar "H" = some .uint16 := by decide
      rw [h] at hty; exact (Option.some.inj hty).symm
    subst this
    have := itemNat_lt a.big _ 2 (hlen 2)
    refine ⟨_, by simp [readElem, hc, NChar.kind, NpArr.itemsize, NChar.size]; rfl, ?_⟩
    simp [wfVal]
    omega
  case I =>
    have : ty = .uint32 := by
      have h : tyOfNumpyChar "I" = some .uint32 := by decide
      rw [h] at hty; exact (Option.some.inj hty).symm
    subst this
    have := itemNat_lt a.big _ 4 (hlen 4)
    refine ⟨_, by simp [readElem, hc, NChar.kind, NpArr.itemsize, NChar.size]; rfl, ?_⟩
    simp [wfVal]
    omega
  case bool =>
    have : ty = .byte := by
      have h : tyOfNumpyChar "?" = some .byte := by decide
      rw [h] at hty; exact (Option.some.inj hty).symm
    subst this
    have := itemNat_lt a.big _ 1 (hlen 1)
    refine ⟨_, by simp [readElem, hc, NChar.kind, NpArr.itemsize, NChar.size]; rfl, ?_⟩
    simp [wfVal]
    omega
  case f =>
    have : ty = .float32 := by
      have h : tyOfNumpyChar "f" = some .float32 := by decide
      rw [h] at hty; exact (Option.some.inj hty).symm
    subst this
    have := itemNat_lt a.big _ 4 (hlen 4)
    refine ⟨_, by simp [readElem, hc, NChar.kind, NpArr.itemsize, NChar.size]; rfl, ?_⟩
    simp [wfVal]
    omega
  case d =>
    have : ty = .float64 := by
      have h : tyOfNumpyChar "d" = some .float64 := by decide
      rw [h] at hty; exact (Option.some.inj hty).symm
    subst this
    have := itemNat_lt a.big _ 8 (hlen 8)
    refine ⟨_, by simp [readElem, hc, NChar.kind, NpArr.itemsize, NChar.size]; rfl, ?_⟩
    simp [wfVal]
    omega

/-! ### records of a sequence source: the flat path on cells = the flat path on their values -/

theorem encCellFlat_of_val (ty : Ty) (c : Cell) (v : Val) (hv : c.val? = some v) (hw : wfVal ty v = true) :
    encCellFlat ty c = .ok (flatField ty v) := by
  cases c with
  | num ch n =>
    simp [Cell.val?] at hv; subst hv
    have hs : ty ≠ .string := by intro e; subst e; simp [wfVal] at hw
    have hS : ¬ wireChar ty = 'S' := by rw [wireChar_S]; exact hs
    simp [encCellFlat, flatField, hS]
  | ustr cps =>
    simp only [Cell.val?] at hv
    split at hv
    · rename_i h
      simp at hv; subst hv
      have : ty = .string := by cases ty <;> simp [wfVal] at hw; rfl
      subst this
      have hS : wireChar .string = 'S' := by decide
      simp [encCellFlat, h, flatField, hS, strField]
    · simp at hv
  | bstr b =>
    simp [Cell.val?] at hv; subst hv
    have : ty = .string := by cases ty <;> simp [wfVal] at hw; rfl
    subst this
    have hS : wireChar .string = 'S' := by decide
    simp [encCellFlat, flatField, hS, strField]

theorem encCellsFlat_of_vals : ∀ (tys : List Ty) (cs : List Cell) (vs : List Val), cellVals? cs = some vs →
    WFs (tys.map fun ty => .base ty []) (vs.map Data.scalar) = true →
    encCellsFlat tys cs = .ok (flatRecord (tys.map fun ty => .base ty []) (vs.map Data.scalar))
  | [], [], vs, hv, _ => by simp [cellVals?] at hv; subst hv; simp [encCellsFlat, flatRecord]
  | [], _ :: _, vs, hv, hw => by
    cases vs with
    | nil => simp [encCellsFlat, flatRecord]
    | cons v vs => simp [WFs] at hw
  | _ :: _, [], vs, hv, hw => by simp [cellVals?] at hv; subst hv; simp [WFs] at hw
  | ty :: tys, c :: cs, vs, hv, hw => by
    simp only [cellVals?] at hv
    cases h1 : c.val? with
    | none => simp [h1] at hv
    | some v =>
      cases h2 : cellVals? cs with
      | none => simp [h1, h2] at hv
      | some vs' =>
        simp [h1, h2] at hv
        subst hv
        simp only [List.map_cons, WFs, WF, Bool.and_eq_true] at hw
        simp [encCellsFlat, flatRecord, encCellFlat_of_val ty c v h1 hw.1,
          encCellsFlat_of_vals tys cs vs' h2 hw.2]

/-! ### a tree of sources -/

mutual
theorem encSrc_eq : ∀ (s : Src) (t : Tmpl) (d : Data), s.view? = some (t, d) → WF t d = true →
    encSrc s = .ok (XdrSpec.enc t d)
  | .arr a, t, d, hv, hw => by
    simp only [Src.view?] at hv
    cases h1 : a.ty? with
    | none => simp [h1] at hv
    | some ty =>
      cases h2 : a.data? with
      | none => simp [h1, h2] at hv
      | some d' =>
        simp [h1, h2] at hv
        obtain ⟨rfl, rfl⟩ := hv
        simp only [encSrc]
        exact encArr_eq_spec a ty d' h1 h2 hw
  | .val t' d', t, d, hv, hw => by
    simp [Src.view?] at hv
    obtain ⟨rfl, rfl⟩ := hv
    simp [encSrc, encImpl_eq _ _ hw]
  | .struct cs, t, d, hv, hw => by
    simp only [Src.view?] at hv
    cases h1 : Src.views? cs with
    | none => simp [h1] at hv
    | some p =>
      simp [h1] at hv
      obtain ⟨rfl, rfl⟩ := hv
      simp only [WF, Bool.and_eq_true] at hw
      simp only [encSrc, XdrSpec.enc]
      exact encSrcs_eq cs p.1 p.2 (by rw [h1]) hw.2
theorem encSrcs_eq : ∀ (cs : List Src) (ts : List Tmpl) (ds : List Data), Src.views? cs = some (ts, ds) →
    WFs ts ds = true → encSrcs cs = .ok (XdrSpec.encs ts ds)
  | [], ts, ds, hv, _ => by
    simp [Src.views?] at hv
    obtain ⟨rfl, rfl⟩ := hv
    simp [encSrcs, XdrSpec.encs]
  | c :: cs, ts, ds, hv, hw => by
    simp only [Src.views?] at hv
    cases h1 : c.view? with
    | none => simp [h1] at hv
    | some p =>
      cases h2 : Src.views? cs with
      | none => simp [h1, h2] at hv
      | some q =>
        simp [h1, h2] at hv
        obtain ⟨rfl, rfl⟩ := hv
        simp only [WFs, Bool.and_eq_true] at hw
        simp [encSrcs, XdrSpec.encs, encSrc_eq c p.1 p.2 (by rw [h1]) hw.1,
          encSrcs_eq cs q.1 q.2 (by rw [h2]) hw.2]
end

/-! ### the builder `storeC`: a C-contiguous array holds what it was given -/

theorem range_mul_flatMap {α : Type} (g : Nat → α) (m : Nat) : ∀ n,
    (List.range n).flatMap (fun i => (List.range m).map fun j => g (i * m + j)) = (List.range (n * m)).map g
  | 0 => by simp
  | n + 1 => by
    rw [List.range_succ, List.flatMap_append, range_mul_flatMap g m n, Nat.succ_mul, List.range_add]
    simp

/-- C strides of items of `w` bytes -/
def cstrides (w : Nat) : List Nat → List Int
  | [] => []
  | _ :: sh => ((w * prod sh : Nat) : Int) :: cstrides w sh

theorem elemsAt_cstrides (a : NpArr) (w : Nat) : ∀ (sh : List Nat) (k : Nat),
    elemsAt a sh (cstrides w sh) ((k * w : Nat) : Int) =
      (List.range (prod sh)).map fun j => readElem a (((k + j) * w : Nat) : Int)
  | [], k => by simp [elemsAt, prod]
  | n :: sh, k => by
    simp only [elemsAt, cstrides, prod]
    have : ∀ i : Nat, ((k * w : Nat) : Int) + (i : Int) * ((w * prod sh : Nat) : Int)
        = (((k + i * prod sh) * w : Nat) : Int) := by
      intro i; push_cast; ring
    simp only [this, elemsAt_cstrides a w sh]
    have := range_mul_flatMap (fun r => readElem a (((k + r) * w : Nat) : Int)) (prod sh) n
    simp only [Nat.add_assoc] at this ⊢
    exact this

theorem storeC_strides (w : Nat) : ∀ sh : List Nat,
    (List.range sh.length).map (fun k => ((w * prod (sh.drop (k + 1)) : Nat) : Int)) = cstrides w sh
  | [] => rfl
  | n :: sh => by
    rw [List.length_cons, List.range_succ_eq_map]
    simp only [List.map_cons, List.map_map, cstrides]
    congr 1
    rw [← storeC_strides w sh]
    apply List.map_congr_left
    intro k _
    simp

theorem drop_take_flatten (w : Nat) : ∀ (items : List Bytes) (j : Nat) (hj : j < items.length),
    (∀ it ∈ items, it.length = w) → (items.flatten.drop (j * w)).take w = items[j]
  | [], j, hj, _ => by simp at hj
  | it :: items, 0, _, h => by
    have := h it (by simp)
    simp [← this]
  | it :: items, j + 1, hj, h => by
    have h0 := h it (by simp)
    have : (j + 1) * w = it.length + j * w := by rw [h0]; ring
    have ih := drop_take_flatten w items j (by simpa using hj) (fun x hx => h x (by simp [hx]))
    simp only [List.flatten_cons, this, List.getElem_cons_succ]
    rw [← List.drop_drop, List.drop_left]
    exact ih

theorem itemBytes_length (big : Bool) (w : Nat) (v : Int) : (itemBytes big w v).length = w := by
  unfold itemBytes; split <;> simp

theorem itemNat_itemBytes (big : Bool) (w : Nat) (v : Int) :
    itemNat big (itemBytes big w v) = (v % ((256 : Int) ^ w)).toNat % 256 ^ w := by
  unfold itemNat itemBytes
  cases big <;> simp [beNat_be]

theorem decode_itemBytes (c : NChar) (big : Bool) (v : Int) (hv : c.holds v = true) :
    (match c.kind with
     | .int => Elem.num (toSigned c.size (itemNat big (itemBytes big c.size v)))
     | .uint => Elem.num (itemNat big (itemBytes big c.size v))
     | .float => Elem.num (itemNat big (itemBytes big c.size v))
     | _ => Elem.num 0) = Elem.num v := by
  cases c <;> simp [NChar.holds, NChar.kind, NChar.size] at hv ⊢
  all_goals
    first
      | (have hv2 := of_decide_eq_true hv
         rw [itemNat_itemBytes]
         simp [toSigned]
         try split
         all_goals omega)
      | (rw [itemNat_itemBytes]
         simp [toSigned]
         try split
         all_goals omega)

theorem readElem_storeC (c : NChar) (big : Bool) (sh : List Nat) (vs : List Int) (j : Nat) (hj : j < vs.length)
    (hv : c.holds vs[j] = true) :
    readElem (storeC c big sh vs) (((0 + j) * c.size : Nat) : Int) = .num vs[j] := by
  have hsz : (storeC c big sh vs).itemsize = c.size := by
    cases c <;> simp [NChar.holds, NChar.kind] at hv <;> rfl
  have hbuf : ((storeC c big sh vs).buf.drop (j * c.size)).take c.size = itemBytes big c.size vs[j] := by
    have := drop_take_flatten c.size (vs.map (itemBytes big c.size)) j (by simpa using hj)
      (by intro it hit; simp at hit; obtain ⟨v, _, rfl⟩ := hit; exact itemBytes_length _ _ _)
    simpa [storeC] using this
  unfold readElem
  simp only [hsz, Nat.zero_add, Int.toNat_natCast, hbuf]
  have hd := decode_itemBytes c big vs[j] hv
  have hk : (storeC c big sh vs).char = c := rfl
  have hb : (storeC c big sh vs).big = big := rfl
  rw [hk, hb]
  cases c <;> simp [NChar.holds, NChar.kind] at hv <;> simpa [NChar.kind] using hd

/-- **the builder holds what it was given**: a C-contiguous array of dtype char `c` (any numeric char, either byte
    order, any shape) built from in-range values reads back exactly those values in logical order -/
theorem storeC_elems (c : NChar) (big : Bool) (sh : List Nat) (vs : List Int) (hlen : vs.length = prod sh)
    (hv : ∀ v ∈ vs, c.holds v = true) : (storeC c big sh vs).elems = vs.map Elem.num := by
  unfold NpArr.elems
  have hs : (storeC c big sh vs).strides = cstrides c.size sh := storeC_strides c.size sh
  have ho : (((storeC c big sh vs).offset : Nat) : Int) = ((0 * c.size : Nat) : Int) := by simp [storeC]
  have hsh : (storeC c big sh vs).shape = sh := rfl
  rw [hs, ho, hsh, elemsAt_cstrides, ← hlen]
  apply List.ext_getElem
  · simp
  · intro j h1 h2
    simp only [List.getElem_map, List.getElem_range]
    have hj : j < vs.length := by simpa using h1
    exact readElem_storeC c big sh vs j hj (hv _ (List.getElem_mem hj))

/-! ### `Rep.build`: strided / offset / contiguous, any dtype char and byte order -/

theorem elemsAt_cstrides_base (a : NpArr) (w base : Nat) : ∀ (sh : List Nat) (k : Nat),
    elemsAt a sh (cstrides w sh) ((base + k * w : Nat) : Int) =
      (List.range (prod sh)).map fun j => readElem a ((base + (k + j) * w : Nat) : Int)
  | [], k => by simp [elemsAt, prod]
  | n :: sh, k => by
    simp only [elemsAt, cstrides, prod]
    have : ∀ i : Nat, ((base + k * w : Nat) : Int) + (i : Int) * ((w * prod sh : Nat) : Int)
        = ((base + (k + i * prod sh) * w : Nat) : Int) := by
      intro i; push_cast; ring
    simp only [this, elemsAt_cstrides_base a w base sh]
    have := range_mul_flatMap (fun r => readElem a ((base + (k + r) * w : Nat) : Int)) (prod sh) n
    simp only [Nat.add_assoc] at this ⊢
    exact this

theorem readElem_build (r : Rep) (sh : List Nat) (vs : List Int) (j : Nat) (hj : j < vs.length)
    (hs : 1 ≤ r.step) (hv : r.char.holds vs[j] = true) :
    readElem (r.build sh vs) ((r.pre + (0 + j) * (r.char.size * r.step) : Nat) : Int) = .num vs[j] := by
  have hsz : (r.build sh vs).itemsize = r.char.size := by
    cases hc : r.char <;> simp [hc, NChar.holds, NChar.kind] at hv <;> simp [NpArr.itemsize, Rep.build, hc]
  have hitem : ∀ it ∈ (vs.map fun v => itemBytes r.big r.char.size v ++ List.replicate ((r.step - 1) * r.char.size) r.fill),
      it.length = r.char.size * r.step := by
    intro it hit
    obtain ⟨v, _, rfl⟩ := List.mem_map.mp hit
    simp [itemBytes_length]
    have : r.step = (r.step - 1) + 1 := by omega
    conv => rhs; rw [this, Nat.mul_add, Nat.mul_one, Nat.mul_comm]
    omega
  have hbuf : ((r.build sh vs).buf.drop (r.pre + j * (r.char.size * r.step))).take r.char.size
      = itemBytes r.big r.char.size vs[j] := by
    have h1 := drop_take_flatten (r.char.size * r.step) _ j (by simpa using hj) hitem
    simp only [Rep.build]
    rw [List.drop_append, List.drop_of_length_le (by simp), List.nil_append]
    simp only [List.length_replicate, Nat.add_sub_cancel_left]
    have hle : r.char.size ≤ r.char.size * r.step := Nat.le_mul_of_pos_right _ hs
    have h3 : ∀ l : Bytes, l.take r.char.size = (l.take (r.char.size * r.step)).take r.char.size := by
      intro l; rw [List.take_take, Nat.min_eq_left hle]
    rw [h3, h1]
    simp [List.take_append_of_le_length, itemBytes_length, List.take_of_length_le]
  unfold readElem
  simp only [hsz, Nat.zero_add, Int.toNat_natCast, hbuf]
  have hd := decode_itemBytes r.char r.big vs[j] hv
  have hk : (r.build sh vs).char = r.char := rfl
  have hb : (r.build sh vs).big = r.big := rfl
  rw [hk, hb]
  cases hc : r.char <;> simp [hc, NChar.holds, NChar.kind] at hv <;> simpa [hc, NChar.kind] using hd

theorem build_elems (r : Rep) (sh : List Nat) (vs : List Int) (hs : 1 ≤ r.step) (hlen : vs.length = prod sh)
    (hv : ∀ v ∈ vs, r.char.holds v = true) : (r.build sh vs).elems = vs.map Elem.num := by
  unfold NpArr.elems
  have hst : (r.build sh vs).strides = cstrides (r.char.size * r.step) sh := storeC_strides (r.char.size * r.step) sh
  have ho : (((r.build sh vs).offset : Nat) : Int) = ((r.pre + 0 * (r.char.size * r.step) : Nat) : Int) := by
    simp [Rep.build]
  have hsh : (r.build sh vs).shape = sh := rfl
  rw [hst, ho, hsh, elemsAt_cstrides_base, ← hlen]
  apply List.ext_getElem
  · simp
  · intro j h1 h2
    simp only [List.getElem_map, List.getElem_range]
    have hj : j < vs.length := by simpa using h1
    exact readElem_build r sh vs j hj hs (hv _ (List.getElem_mem hj))

/-! ### scalars in every form and the general path of `_sequencetype` -/

theorem rstrip0_append_zeros (b : Bytes) (k : Nat) : rstrip0 (b ++ zeros k) = rstrip0 b := by
  unfold rstrip0 zeros
  simp only [List.reverse_append, List.reverse_replicate]
  congr 1
  induction k with
  | zero => simp
  | succ k ih => simp [List.replicate_succ, ih]

theorem rstripZ_append_zeros (l : List Nat) (k : Nat) : rstripZ (l ++ List.replicate k 0) = rstripZ l := by
  unfold rstripZ
  simp only [List.reverse_append, List.reverse_replicate]
  congr 1
  induction k with
  | zero => simp
  | succ k ih => simp [List.replicate_succ, ih]

theorem rstripZ_nonzero (l : List Nat) (h : ∀ x ∈ l, x ≠ 0) : rstripZ l = l := by
  unfold rstripZ
  cases hr : l.reverse with
  | nil => simp at hr; simp [hr]
  | cons x xs =>
    have hx : x ≠ 0 := h x (by rw [← List.mem_reverse, hr]; simp)
    have : l = (x :: xs).reverse := by rw [← hr, List.reverse_reverse]
    simp [hx, this]

theorem groups4_flatten : ∀ (items : List Bytes), (∀ it ∈ items, it.length = 4) → groups4 items.flatten = items
  | [], _ => by simp [groups4]
  | it :: items, h => by
    have h0 := h it (by simp)
    match it, h0 with
    | [a, b, c, d], _ =>
      simp only [List.flatten_cons, List.cons_append, List.nil_append, groups4]
      rw [groups4_flatten items (fun x hx => h x (by simp [hx]))]

theorem take_all {α : Type} (l : List α) (n : Nat) (h : l.length = n) : l.take n = l := by
  subst h; simp

theorem printable_nonzero (cps : List Nat) (ha : cps.all (· < 128) = true)
    (hp : (cps.map UInt8.ofNat).all printable = true) : ∀ x ∈ cps, x ≠ 0 := by
  intro x hx h0
  subst h0
  have := (List.all_eq_true.mp hp) (UInt8.ofNat 0) (List.mem_map.mpr ⟨0, hx, rfl⟩)
  simp [printable] at this

theorem itemNat_unit (big : Bool) (cp : Nat) (h : cp < 4294967296) : itemNat big (itemBytes big 4 (cp : Int)) = cp := by
  rw [itemNat_itemBytes]
  omega

theorem flatten_length_const (w : Nat) : ∀ (items : List Bytes), (∀ it ∈ items, it.length = w) →
    items.flatten.length = w * items.length
  | [], _ => by simp
  | it :: items, h => by
    simp only [List.flatten_cons, List.length_append, List.length_cons, h it (by simp),
      flatten_length_const w items (fun x hx => h x (by simp [hx]))]
    rw [Nat.mul_succ, Nat.add_comm]

theorem toArr_data (big : Bool) (c : Cell) (ty : Ty) (v : Val) (hv : c.val? = some v) (hok : c.ok = true)
    (hty : c.ty? = some ty) (hw : wfVal ty v = true) :
    (c.toArr big).ty? = some ty ∧ (c.toArr big).shape = [] ∧ (c.toArr big).data? = some (.scalar v) := by
  cases c with
  | num ch n =>
    simp [Cell.val?] at hv; subst hv
    refine ⟨hty, rfl, ?_⟩
    have h := readElem_storeC ch big [] [n] 0 (by simp) (by simpa [Cell.ok] using hok)
    simp only [Nat.zero_add, Nat.zero_mul, List.getElem_cons_zero] at h
    show (storeC ch big [] [n]).data? = _
    unfold NpArr.data?
    simp only [show (storeC ch big [] [n]).shape = [] from rfl, List.isEmpty_nil, if_true,
      show (storeC ch big [] [n]).offset = 0 from rfl]
    rw [h]
    rfl
  | bstr b =>
    simp [Cell.val?] at hv; subst hv
    have hS : tyOfNumpyChar "S" = some .string := by decide
    have : ty = .string := by
      simp only [Cell.ty?, Cell.char, NChar.code, hS] at hty; exact (Option.some.inj hty).symm
    subst this
    simp only [wfVal, Bool.and_eq_true] at hw
    refine ⟨by simp [NpArr.ty?, Cell.toArr, NChar.code, hS], rfl, ?_⟩
    simp only [NpArr.data?, Cell.toArr, List.isEmpty_nil, if_true, readElem, NChar.kind, NpArr.itemsize,
      Int.toNat_natCast, List.drop_zero]
    rw [take_all _ _ (by simp [sItem]; try omega)]
    simp [sItem, rstrip0_append_zeros, rstrip0_printable b hw.1, Elem.val?]
  | ustr cps =>
    simp only [Cell.val?] at hv
    split at hv
    · rename_i ha
      simp at hv; subst hv
      have hU : tyOfNumpyChar "U" = some .string := by decide
      have : ty = .string := by
        simp only [Cell.ty?, Cell.char, NChar.code, hU] at hty; exact (Option.some.inj hty).symm
      subst this
      simp only [wfVal, Bool.and_eq_true] at hw
      refine ⟨by simp [NpArr.ty?, Cell.toArr, NChar.code, hU], rfl, ?_⟩
      simp only [NpArr.data?, Cell.toArr, List.isEmpty_nil, if_true, readElem, NChar.kind, NpArr.itemsize,
        Int.toNat_natCast, List.drop_zero]
      have hlen : (uItem big (max cps.length 1) cps).length = 4 * max cps.length 1 := by
        unfold uItem
        rw [flatten_length_const 4 _ (by intro it hit; obtain ⟨cp, _, rfl⟩ := List.mem_map.mp hit; exact itemBytes_length _ _ _)]
        simp
        try omega
      rw [take_all _ _ hlen]
      unfold uItem
      rw [groups4_flatten _ (by intro it hit; obtain ⟨cp, _, rfl⟩ := List.mem_map.mp hit; exact itemBytes_length _ _ _)]
      have hmap : ((cps ++ List.replicate (max cps.length 1 - cps.length) 0).map
          fun (cp : Nat) => itemBytes big 4 (cp : Int)).map (itemNat big)
          = cps ++ List.replicate (max cps.length 1 - cps.length) 0 := by
        rw [List.map_map]
        conv => rhs; rw [← List.map_id (cps ++ _)]
        apply List.map_congr_left
        intro cp hcp
        simp only [Function.comp, id]
        apply itemNat_unit
        rcases List.mem_append.mp hcp with h | h
        · have := (List.all_eq_true.mp ha) cp h
          simp at this; omega
        · simp at h; omega
      rw [hmap, rstripZ_append_zeros, rstripZ_nonzero cps (printable_nonzero cps ha hw.1)]
      simp [Elem.val?, ha]
    · simp at hv

/-- a scalar in any of its forms is sent as the reference encoding of its value -/
theorem encArr_toArr (big : Bool) (c : Cell) (ty : Ty) (v : Val) (hv : c.val? = some v) (hok : c.ok = true)
    (hty : c.ty? = some ty) (hw : wfVal ty v = true) :
    encArr (c.toArr big) = .ok (XdrSpec.enc (.base ty []) (.scalar v)) := by
  obtain ⟨h1, h2, h3⟩ := toArr_data big c ty v hv hok hty hw
  have := encArr_eq_spec (c.toArr big) ty (.scalar v) h1 h3 (by rw [h2]; simpa [WF] using hw)
  rw [h2] at this
  exact this

theorem encCellsGeneral_of_vals : ∀ (tys : List Ty) (cs : List (Bool × Cell)) (vs : List Val),
    cellVals? (cs.map (·.2)) = some vs → (∀ c ∈ cs, c.2.ok = true) → cs.map (·.2.ty?) = tys.map some →
    WFs (tys.map fun ty => .base ty []) (vs.map Data.scalar) = true →
    encCellsGeneral cs = .ok (XdrSpec.encs (tys.map fun ty => .base ty []) (vs.map Data.scalar))
  | [], [], vs, hv, _, _, _ => by simp [cellVals?] at hv; subst hv; simp [encCellsGeneral, XdrSpec.encs]
  | [], _ :: _, _, _, _, ht, _ => by simp at ht
  | _ :: _, [], _, _, _, ht, _ => by simp at ht
  | ty :: tys, c :: cs, vs, hv, hok, ht, hw => by
    simp only [List.map_cons, cellVals?] at hv
    cases h1 : c.2.val? with
    | none => simp [h1] at hv
    | some v =>
      cases h2 : cellVals? (cs.map (·.2)) with
      | none => simp [h1, h2] at hv
      | some vs' =>
        simp [h1, h2] at hv
        subst hv
        simp only [List.map_cons, List.cons.injEq] at ht
        simp only [List.map_cons, WFs, WF, Bool.and_eq_true] at hw
        have e1 := encArr_toArr c.1 c.2 ty v h1 (hok c (by simp)) ht.1 hw.1
        have e2 := encCellsGeneral_of_vals tys cs vs' h2 (fun x hx => hok x (by simp [hx])) ht.2 hw.2
        simp [encCellsGeneral, e1, e2, XdrSpec.encs]

theorem valsOf_nums : ∀ vs : List Int, valsOf? (vs.map Elem.num) = some (vs.map Val.num)
  | [] => rfl
  | v :: vs => by simp [valsOf?, Elem.val?, valsOf_nums vs]

/-! ### whole sequences -/

theorem encRowsCells_eq (tys : List Ty) : ∀ (rows : List (List (Bool × Cell))) (vss : List (List Val)),
    rowsVals? rows = some vss → (∀ r ∈ rows, ∀ c ∈ r, c.2.ok = true) →
    (∀ r ∈ rows, r.map (·.2.ty?) = tys.map some) →
    seqCols (tys.map fun ty => Tmpl.base ty []) = true →
    WFrows (tys.map fun ty => .base ty []) (vss.map fun vs => .tuple (vs.map Data.scalar)) = true →
    encRowsCells tys rows
      = .ok (XdrSpec.encRows (tys.map fun ty => .base ty []) (vss.map fun vs => .tuple (vs.map Data.scalar)))
  | [], vss, hv, _, _, _, _ => by
    simp [rowsVals?] at hv; subst hv
    simp [encRowsCells, XdrSpec.encRows, end_eq]
  | r :: rows, vss, hv, hok, ht, hc, hw => by
    simp only [rowsVals?] at hv
    cases h1 : cellVals? (r.map (·.2)) with
    | none => simp [h1] at hv
    | some vs =>
      cases h2 : rowsVals? rows with
      | none => simp [h1, h2] at hv
      | some vss' =>
        simp [h1, h2] at hv
        subst hv
        simp only [List.map_cons, WFrows, Bool.and_eq_true] at hw
        have ih := encRowsCells_eq tys rows vss' h2 (fun x hx => hok x (by simp [hx])) (fun x hx => ht x (by simp [hx]))
          hc hw.2
        have hrec : (if flatCols (tys.map fun ty => Tmpl.base ty []) = true then encCellsFlat tys (r.map (·.2))
            else encCellsGeneral r) = .ok (XdrSpec.encs (tys.map fun ty => .base ty []) (vs.map Data.scalar)) := by
          split
          · next hf =>
            rw [encCellsFlat_of_vals tys _ vs h1 hw.1, flatRecord_eq _ _ hf hc hw.1]
          · exact encCellsGeneral_of_vals tys r vs h1 (hok r (by simp)) (ht r (by simp)) hw.1
        simp only [encRowsCells, hrec, ih, List.map_cons, XdrSpec.encRows, start_eq]

end Pydap.Xdr
