/-
  C12 — separation: object identities.  Every structure-changing function is characterised by how often an
  identity can occur in its result (`List.count`): edits never duplicate an identity, `copy.copy` and tuple
  selection only allocate identities from the allocation counter upwards.  `Nodup` of all identities of
  the store and `identity < next` are then invariants of every history (`Proofs/TreeHist.lean`).
-/
import PydapModel.Heap
import Proofs.Quote
import Proofs.Tree
import Proofs.TreeCopy
namespace Pydap.Tree
open Pydap.Quote

theorem setIdKids_oids (pk : Kind) (pid : Str) (vis : List Str) (f : Forest) :
    (setIdKids pk pid vis f).oids = f.oids := by
  induction f generalizing pk pid vis with
  | nil => rfl
  | cons h kids rest ihk ihr =>
    simp only [setIdKids]
    split
    · simp only [Forest.oids, ihk, ihr]
    · simp only [Forest.oids, ihr]

theorem remove_count (i : Nat) (k : Str) (f : Forest) : (f.remove k).oids.count i ≤ f.oids.count i := by
  induction f with
  | nil => exact Nat.le_refl _
  | cons h kids rest _ ihr =>
    simp only [Forest.remove]
    split
    · simp only [Forest.oids, List.count_cons, List.count_append]; omega
    · simp only [Forest.oids, List.count_cons, List.count_append]; omega

theorem put_count (i : Nat) (o : Obj) (f : Forest) :
    (f.put o).oids.count i ≤ f.oids.count i + o.oids.count i := by
  induction f with
  | nil => simp [Forest.put, Forest.oids, Obj.oids, List.count_cons]
  | cons h kids rest _ ihr =>
    simp only [Forest.put]
    split
    · simp only [Forest.oids, Obj.oids, List.count_cons, List.count_append]; omega
    · simp only [Forest.oids, Obj.oids, List.count_cons, List.count_append] at ihr ⊢; omega

theorem delItem_count (i : Nat) (o r : Obj) (key : Str) (h : delItem o key = .ok r) :
    r.oids.count i ≤ o.oids.count i := by
  rw [delItem_eq o r key h]
  have := remove_count i key o.kids
  simp only [Obj.oids, List.count_cons]; omega

theorem insertItem_count (i : Nat) (o item r : Obj) (key : Str) (h : insertItem o key item = .ok r) :
    r.oids.count i ≤ o.oids.count i + item.oids.count i := by
  obtain ⟨o1, h1, rfl⟩ := insertItem_eq o item r key h
  have h2 : o1.oids.count i ≤ o.oids.count i := by
    rcases h1 with rfl | h1
    · exact Nat.le_refl _
    · exact delItem_count i o o1 key h1
  have := put_count i item o1.kids
  simp only [Obj.oids, List.count_cons] at h2 this ⊢; omega

theorem setId_oids (item r : Obj) (nid : Str) (h : setId item nid = .ok r) : r.oids = item.oids := by
  rw [setId_eq item r nid h]
  simp only [Obj.oids, setIdKids_oids]

/-- `container[key] = item` moves the item's objects into the container and drops the replaced ones -/
theorem setItem_count (i : Nat) (o item r : Obj) (key : Str) (h : setItem o key item = .ok r) :
    r.oids.count i ≤ o.oids.count i + item.oids.count i := by
  obtain ⟨_, _, nid, it, hs, hins⟩ := setItem_decomp o item r key h
  have := insertItem_count i o it r _ hins
  rw [setId_oids item it nid hs] at this
  exact this

theorem update_count (i c : Nat) (k : Str) (g : Obj → Except Err Obj) (f f' : Forest)
    (hg : ∀ o r, g o = .ok r → r.oids.count i ≤ o.oids.count i + c)
    (h : f.update k g = .ok f') : f'.oids.count i ≤ f.oids.count i + c := by
  induction f generalizing f' with
  | nil => simp [Forest.update] at h
  | cons h0 kids rest _ ihr =>
    simp only [Forest.update] at h
    split at h
    · cases hg0 : g ⟨h0, kids⟩ with
      | error e => rw [hg0] at h; cases h
      | ok r =>
        rw [hg0] at h; cases h
        have := hg _ r hg0
        simp only [Forest.oids, Obj.oids, List.count_cons, List.count_append] at this ⊢; omega
    · cases hu : Forest.update k g rest with
      | error e => rw [hu] at h; cases h
      | ok r =>
        rw [hu] at h; cases h
        have := ihr r hu
        simp only [Forest.oids, List.count_cons, List.count_append] at this ⊢; omega

theorem modifyAt_count (i c : Nat) (g : Obj → Except Err Obj)
    (hg : ∀ o r, g o = .ok r → r.oids.count i ≤ o.oids.count i + c) (path : List Str) :
    ∀ o r, modifyAt g path o = .ok r → r.oids.count i ≤ o.oids.count i + c := by
  induction path with
  | nil => intro o r h; exact hg o r h
  | cons k ks ih =>
    intro o r h
    simp only [modifyAt] at h
    split at h; · cases h
    split at h; · cases h
    cases hu : o.kids.update (quote k) (modifyAt g ks) with
    | error e => rw [hu] at h; cases h
    | ok kids' =>
      rw [hu] at h; cases h
      have := update_count i c _ _ _ _ ih hu
      simp only [Obj.oids, List.count_cons] at this ⊢; omega

/-! ### allocation: `copy.copy` and tuple selection -/

/-- every identity of `l` occurs once and was allocated in `[lo, hi)` -/
def Fresh (lo hi : Nat) (l : List Nat) : Prop := ∀ i, l.count i ≤ 1 ∧ (l.count i ≠ 0 → lo ≤ i ∧ i < hi)

theorem foldSet_count (i : Nat) (cs : List Obj) : ∀ o r,
    cs.foldlM (fun o c => setItem o c.hdr.name c) o = .ok r →
    r.oids.count i ≤ o.oids.count i + (cs.flatMap Obj.oids).count i := by
  induction cs with
  | nil =>
    intro o r h
    simp only [List.foldlM, pure, Except.pure] at h
    cases h; simp
  | cons c cs ih =>
    intro o r h
    rw [List.foldlM_cons] at h
    cases h1 : setItem o c.hdr.name c with
    | error e => rw [h1] at h; cases h
    | ok o1 =>
      rw [h1] at h
      have a := setItem_count i o c o1 _ h1
      have b := ih o1 r h
      simp only [List.flatMap_cons, List.count_append]; omega

theorem copyF_fresh (f : Forest) : ∀ next cs n, copyF next f = .ok (cs, n) →
    next ≤ n ∧ Fresh next n (cs.flatMap Obj.oids) := by
  induction f with
  | nil =>
    intro next cs n h
    simp only [copyF] at h
    cases h
    exact ⟨Nat.le_refl _, fun i => by simp⟩
  | cons h0 kids rest ihk ihr =>
    intro next cs n h
    simp only [copyF, bind, Except.bind] at h
    cases hk : copyF (next + 1) kids with
    | error e => rw [hk] at h; cases h
    | ok p =>
      obtain ⟨cs1, n1⟩ := p
      rw [hk] at h; simp only at h
      cases hf : cs1.foldlM (fun o c => setItem o c.hdr.name c) (shallow next h0) with
      | error e => rw [hf] at h; cases h
      | ok out =>
        rw [hf] at h; simp only at h
        cases hr : copyF n1 rest with
        | error e => rw [hr] at h; cases h
        | ok q =>
          obtain ⟨rs, n2⟩ := q
          rw [hr] at h; simp only [pure, Except.pure] at h
          cases h
          obtain ⟨k1, k2⟩ := ihk _ _ _ hk
          obtain ⟨r1, r2⟩ := ihr _ _ _ hr
          refine ⟨by omega, ?_⟩
          intro i
          have a := foldSet_count i cs1 _ out hf
          have b := k2 i
          have c := r2 i
          rw [show (shallow next h0).oids = [next] from rfl] at a
          simp only [List.count_singleton] at a
          simp only [List.flatMap_cons, List.count_append]
          by_cases hi : next = i
          · subst hi; simp only [beq_self_eq_true, if_true] at a; omega
          · have : (next == i) = false := by simpa using hi
            simp only [this, Bool.false_eq_true, if_false] at a
            omega

theorem copyObj_fresh (next : Nat) (o c : Obj) (n : Nat) (h : copyObj next o = .ok (c, n)) :
    next ≤ n ∧ Fresh next n c.oids := by
  unfold copyObj at h
  simp only [bind, Except.bind] at h
  cases hk : copyF next (.cons o.hdr o.kids .nil) with
  | error e => rw [hk] at h; cases h
  | ok p =>
    obtain ⟨cs, n1⟩ := p
    rw [hk] at h; simp only at h
    obtain ⟨k1, k2⟩ := copyF_fresh _ _ _ _ hk
    match cs, h, k2 with
    | [c'], h, k2 =>
      simp only [pure, Except.pure] at h
      cases h
      exact ⟨k1, by simpa using k2⟩

theorem selectInto_count (keys : List Str) : ∀ next shell o r n, selectInto next shell o keys = .ok (r, n) →
    next ≤ n ∧ ∀ i, r.oids.count i ≤ shell.oids.count i + 1 ∧
      (¬ (next ≤ i ∧ i < n) → r.oids.count i ≤ shell.oids.count i) := by
  induction keys with
  | nil =>
    intro next shell o r n h
    simp only [selectInto] at h; cases h
    exact ⟨Nat.le_refl _, fun i => ⟨by omega, fun _ => Nat.le_refl _⟩⟩
  | cons k ks ih =>
    intro next shell o r n h
    simp only [selectInto, bind, Except.bind] at h
    cases hg : getItem o k with
    | error e => rw [hg] at h; cases h
    | ok c =>
      rw [hg] at h; simp only at h
      cases hc : copyObj next c with
      | error e => rw [hc] at h; cases h
      | ok p =>
        obtain ⟨cc, n1⟩ := p
        rw [hc] at h; simp only at h
        cases hset : setItem shell k cc with
        | error e => rw [hset] at h; cases h
        | ok shell' =>
          rw [hset] at h; simp only at h
          obtain ⟨c1, c2⟩ := copyObj_fresh next c cc n1 hc
          obtain ⟨d1, d2⟩ := ih _ _ _ _ _ h
          refine ⟨by omega, fun i => ?_⟩
          have a := setItem_count i shell cc shell' k hset
          have b := c2 i
          have c := d2 i
          constructor
          · by_cases hi : n1 ≤ i ∧ i < n
            · omega
            · have := c.2 hi; omega
          · intro hi
            have := c.2 (by omega)
            omega

/-- **tuple selection allocates**: every object of the result is new -/
theorem select_fresh (next : Nat) (o r : Obj) (keys : List Str) (n : Nat)
    (h : select next o keys = .ok (r, n)) : next ≤ n ∧ Fresh next n r.oids := by
  unfold select at h
  split at h
  · cases h
  · unfold selectSeq at h
    simp only [bind, Except.bind] at h
    cases hi : selectInto (next + 1) (mkObj next .seq o.hdr.name o.hdr.attrs o.hdr.data) o keys with
    | error e => rw [hi] at h; cases h
    | ok p =>
      obtain ⟨out, n1⟩ := p
      rw [hi] at h; simp only at h
      split at h; · cases h
      cases hd : setData out (.copy (.items o.hdr.data keys)) with
      | error e => rw [hd] at h; cases h
      | ok out' =>
        rw [hd] at h; simp only [pure, Except.pure] at h; cases h
        obtain ⟨a, b⟩ := selectInto_count keys _ _ _ _ _ hi
        refine ⟨by omega, fun i => ?_⟩
        rw [setData_oids out r _ hd]
        have := b i
        rw [show (mkObj next .seq o.hdr.name o.hdr.attrs o.hdr.data).oids = [next] from rfl] at this
        simp only [List.count_singleton] at this
        by_cases hi : next = i
        · subst hi; simp only [beq_self_eq_true, if_true] at this; omega
        · have e : (next == i) = false := by simpa using hi
          simp only [e, Bool.false_eq_true, if_false] at this
          have := this.2
          omega
  · unfold selectGrid at h
    simp only [bind, Except.bind] at h
    split at h; · cases h
    split at h; · cases h
    cases hch : children o with
    | error e => rw [hch] at h; cases h
    | ok ds =>
      rw [hch] at h; simp only at h
      split at h
      · cases h
      · rename_i p hi
        obtain ⟨out, n1⟩ := p
        simp only at h
        split at h; · cases h
        simp only [pure, Except.pure] at h; cases h
        obtain ⟨a, b⟩ := selectInto_count keys _ _ _ _ _ hi
        refine ⟨by omega, fun i => ?_⟩
        have := b i
        have hsh : ∀ (a : List (Str × AVal)) k v, (setAttr (mkObj next .grid o.hdr.name a .none) k v).oids = [next] :=
          fun _ _ _ => rfl
        rw [hsh] at this
        simp only [List.count_singleton] at this
        by_cases hi : next = i
        · subst hi; simp only [beq_self_eq_true, if_true] at this; omega
        · have e : (next == i) = false := by simpa using hi
          simp only [e, Bool.false_eq_true, if_false] at this
          have := this.2
          omega
  · obtain ⟨c, hc, hk, hv⟩ := selectStruct_spec next o r keys n h
    obtain ⟨a, b⟩ := copyObj_fresh next o c n hc
    refine ⟨a, ?_⟩
    have : r.oids = c.oids := by
      have e : r.hdr.oid = c.hdr.oid := by have := congrArg Hdr.oid hv; simpa [stripV] using this
      simp only [Obj.oids, e, hk]
    rw [this]; exact b

end Pydap.Tree
