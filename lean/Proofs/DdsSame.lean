import Proofs.DdsOrder
namespace Pydap.Dds
open Pydap

/-! ### "the same tree of variables", said without `normDs`

`C07_parse_print` states `parseDds (print d) = normDs d`; `normDs` is a function of the model file, so the theorem says
what the property says only as far as one reads `normDs`.  `SameDs d d'` below is the property's first sentence as a
relation between the printed dataset `d` and any other dataset `d'`, defined without reference to `normT`/`normBase`:
kinds, names and order (node by node, members of a Grid included), element type (the DAP2 type both dtypes are declared
as), shape (what a DDS can declare: the whole shape of a variable without data, the shape minus one record axis per
enclosing Sequence of a variable holding data) and dimension names (the given ones; an unnamed 1-d array has its own
name, as every DAP2 server and pydap itself print it). -/

/-- the DAP2 type a numpy dtype is declared as (`NUMPY_TO_DAP2_TYPEMAP[np.dtype(dt).char]`) -/
def dap2Of (dt : Text) : Option Text := lookup Gen.NUMPY_TO_DAP2_TYPEMAP (dtypeChar dt)

/-- `b'` is the variable `b` (held at sequence depth `sq`) as far as a DDS can say -/
structure SameBase (b : BaseV) (sq : Nat) (b' : BaseV) : Prop where
  name : b'.name = b.name
  type : dap2Of b'.dt = dap2Of b.dt
  shape : b'.shape = effShape b sq
  dims : b'.dims = if b.dims ≠ [] then b.dims else if (effShape b sq).length = 1 then [b.name] else []

inductive SameBases : List BaseV → Nat → List BaseV → Prop
  | nil (sq : Nat) : SameBases [] sq []
  | cons {b b' bs bs' sq} : SameBase b sq b' → SameBases bs sq bs' → SameBases (b :: bs) sq (b' :: bs')

mutual
inductive SameT : Tmpl → Nat → Tmpl → Prop
  | base {b b' sq} : SameBase b sq b' → SameT (.base b) sq (.base b')
  | struct {n kids kids' sq} : SameL kids sq kids' → SameT (.struct n kids) sq (.struct n kids')
  | seq {n kids kids' sq} : SameL kids (sq + 1) kids' → SameT (.seq n kids) sq (.seq n kids')
  | grid {n bs bs' sq} : SameBases bs sq bs' → SameT (.grid n bs) sq (.grid n bs')
inductive SameL : List Tmpl → Nat → List Tmpl → Prop
  | nil (sq : Nat) : SameL [] sq []
  | cons {t t' ts ts' sq} : SameT t sq t' → SameL ts sq ts' → SameL (t :: ts) sq (t' :: ts')
end

def SameDs (d d' : Dataset) : Prop := d'.name = d.name ∧ SameL d.kids 0 d'.kids

/-- the property's trees: dimension names absent or one per declared extent -/
def DimsFitB (b : BaseV) (sq : Nat) : Prop := b.dims = [] ∨ b.dims.length = (effShape b sq).length

mutual
def DimsFitT : Tmpl → Nat → Prop
  | .base b, sq => DimsFitB b sq
  | .struct _ kids, sq => DimsFitL kids sq
  | .seq _ kids, sq => DimsFitL kids (sq + 1)
  | .grid _ bs, sq => ∀ b ∈ bs, DimsFitB b sq
def DimsFitL : List Tmpl → Nat → Prop
  | [], _ => True
  | t :: ts, sq => DimsFitT t sq ∧ DimsFitL ts sq
end

def DimsFitDs (d : Dataset) : Prop := DimsFitL d.kids 0

/-! ### the element type survives: the parser dtype of a DAP2 type is declared as that DAP2 type again -/

theorem dap2Of_normTy (dt : Text) : dap2Of (normTy dt) = dap2Of dt := by
  unfold dap2Of
  cases hl : lookup Gen.NUMPY_TO_DAP2_TYPEMAP (dtypeChar dt) with
  | none =>
    have : normTy dt = [] := by simp [normTy, hl]
    rw [this]
    have : dtypeChar [] = [] := by decide
    rw [this, lookup_nil_none]
  | some ty =>
    obtain ⟨d, tf⟩ := tyFacts _ _ hl
    have : normTy dt = d := by simp [normTy, hl, tf.parser]
    rw [this, tf.back]

theorem normBase_fields (b : BaseV) (sq : Nat) (sh : List Int) (he : effShape b sq = sh)
    (h : b.dims = [] ∨ b.dims.length = sh.length) :
    (normBase b sq).name = b.name ∧ (normBase b sq).shape = sh ∧ (normBase b sq).dt = normTy b.dt ∧
    (normBase b sq).dims = (if b.dims ≠ [] then b.dims else if sh.length = 1 then [b.name] else []) ∧
    (normBase b sq).nodata = true := by
  unfold normBase
  rw [he]
  simp only
  by_cases h1 : b.dims ≠ []
  · have hl : b.dims.length = sh.length := by
      rcases h with h | h
      · exact absurd h h1
      · exact h
    rw [if_pos h1, if_pos h1]
    refine ⟨rfl, ?_, rfl, ?_, rfl⟩
    · exact List.map_snd_zip (by omega)
    · exact List.map_fst_zip (by omega)
  · rw [if_neg h1, if_neg h1]
    by_cases h2 : sh.length = 1
    · rw [if_pos h2, if_pos h2]
      refine ⟨rfl, rfl, rfl, ?_, rfl⟩
      match sh, h2 with
      | [n], _ => simp
    · rw [if_neg h2, if_neg h2]
      exact ⟨rfl, rfl, rfl, rfl, rfl⟩

theorem sameBase_norm (b : BaseV) (sq : Nat) (h : DimsFitB b sq) : SameBase b sq (normBase b sq) := by
  obtain ⟨h1, h2, h3, h4, _⟩ := normBase_fields b sq (effShape b sq) rfl h
  exact ⟨h1, by rw [h3]; exact dap2Of_normTy _, h2, h4⟩

theorem sameBases_norm (bs : List BaseV) (sq : Nat) (h : ∀ b ∈ bs, DimsFitB b sq) :
    SameBases bs sq (bs.map fun b => normBase b sq) := by
  induction bs with
  | nil => exact .nil sq
  | cons b bs ih =>
    exact .cons (sameBase_norm b sq (h b (by simp))) (ih fun x hx => h x (by simp [hx]))

mutual
theorem sameT_norm : (t : Tmpl) → (sq : Nat) → DimsFitT t sq → SameT t sq (normT t sq)
  | .base b, sq, h => by
    simp only [normT]; exact .base (sameBase_norm b sq h)
  | .struct n kids, sq, h => by
    simp only [normT]; exact .struct (sameL_norm kids sq h)
  | .seq n kids, sq, h => by
    simp only [normT]; exact .seq (sameL_norm kids (sq + 1) h)
  | .grid n bs, sq, h => by
    simp only [normT]; exact .grid (sameBases_norm bs sq h)
theorem sameL_norm : (ts : List Tmpl) → (sq : Nat) → DimsFitL ts sq → SameL ts sq (normL ts sq)
  | [], sq, _ => by simp only [normL]; exact .nil sq
  | t :: ts, sq, h => by
    simp only [normL]; exact .cons (sameT_norm t sq h.1) (sameL_norm ts sq h.2)
end

theorem sameDs_norm (d : Dataset) (h : DimsFitDs d) : SameDs d (normDs d) :=
  ⟨rfl, sameL_norm d.kids 0 h⟩

/-! ### `SameDs` is as strong as it reads: it fixes everything of `d'` but the spelling of the dtypes -/

/-- what `SameDs` leaves open: the dtype string (only its DAP2 type is fixed) and the data flag -/
def eraseB (b : BaseV) : BaseV := ⟨b.name, [], b.shape, b.dims, true⟩

mutual
def eraseT : Tmpl → Tmpl
  | .base b => .base (eraseB b)
  | .struct n kids => .struct n (eraseL kids)
  | .seq n kids => .seq n (eraseL kids)
  | .grid n bs => .grid n (bs.map eraseB)
def eraseL : List Tmpl → List Tmpl
  | [] => []
  | t :: ts => eraseT t :: eraseL ts
end

theorem sameBase_unique {b : BaseV} {sq : Nat} {b₁ b₂ : BaseV} (h₁ : SameBase b sq b₁) (h₂ : SameBase b sq b₂) :
    eraseB b₁ = eraseB b₂ ∧ dap2Of b₁.dt = dap2Of b₂.dt := by
  refine ⟨?_, by rw [h₁.type, h₂.type]⟩
  unfold eraseB
  rw [h₁.name, h₂.name, h₁.shape, h₂.shape, h₁.dims, h₂.dims]

theorem sameBases_unique {bs : List BaseV} {sq : Nat} {l₁ l₂ : List BaseV} (h₁ : SameBases bs sq l₁)
    (h₂ : SameBases bs sq l₂) : l₁.map eraseB = l₂.map eraseB := by
  induction h₁ generalizing l₂ with
  | nil => cases h₂; rfl
  | cons hb _ ih =>
    cases h₂ with
    | cons hb' hr' =>
      simp only [List.map_cons]
      rw [(sameBase_unique hb hb').1, ih hr']

mutual
theorem sameT_unique : {t : Tmpl} → {sq : Nat} → {t₁ t₂ : Tmpl} → SameT t sq t₁ → SameT t sq t₂ → eraseT t₁ = eraseT t₂
  | _, _, _, _, .base h₁, .base h₂ => by simp only [eraseT, (sameBase_unique h₁ h₂).1]
  | _, _, _, _, .struct h₁, .struct h₂ => by simp only [eraseT, sameL_unique h₁ h₂]
  | _, _, _, _, .seq h₁, .seq h₂ => by simp only [eraseT, sameL_unique h₁ h₂]
  | _, _, _, _, .grid h₁, .grid h₂ => by simp only [eraseT, sameBases_unique h₁ h₂]
theorem sameL_unique : {ts : List Tmpl} → {sq : Nat} → {l₁ l₂ : List Tmpl} → SameL ts sq l₁ → SameL ts sq l₂ →
    eraseL l₁ = eraseL l₂
  | _, _, _, _, .nil _, .nil _ => rfl
  | _, _, _, _, .cons a₁ r₁, .cons a₂ r₂ => by simp only [eraseL, sameT_unique a₁ a₂, sameL_unique r₁ r₂]
end

/-- `SameDs d · ` determines the other dataset up to the spelling of dtypes (and the data flag) -/
theorem sameDs_unique {d d₁ d₂ : Dataset} (h₁ : SameDs d d₁) (h₂ : SameDs d d₂) :
    d₁.name = d₂.name ∧ eraseL d₁.kids = eraseL d₂.kids :=
  ⟨by rw [h₁.1, h₂.1], sameL_unique h₁.2 h₂.2⟩

/-- `SameDs` implies equal skeletons (kinds, names, order) -/
theorem sameBases_names {bs : List BaseV} {sq : Nat} {l : List BaseV} (h : SameBases bs sq l) :
    l.map (·.name) = bs.map (·.name) := by
  induction h with
  | nil => rfl
  | cons hb _ ih => simp only [List.map_cons, hb.name, ih]

mutual
theorem sameT_skel : {t : Tmpl} → {sq : Nat} → {t' : Tmpl} → SameT t sq t' → skelT t' = skelT t
  | _, _, _, .base h => by simp only [skelT, h.name]
  | _, _, _, .struct h => by simp only [skelT, sameL_skel h]
  | _, _, _, .seq h => by simp only [skelT, sameL_skel h]
  | _, _, _, .grid h => by simp only [skelT, sameBases_names h]
theorem sameL_skel : {ts : List Tmpl} → {sq : Nat} → {l : List Tmpl} → SameL ts sq l → skelL l = skelL ts
  | _, _, _, .nil _ => rfl
  | _, _, _, .cons a r => by simp only [skelL, sameT_skel a, sameL_skel r]
end

theorem sameDs_skel {d d' : Dataset} (h : SameDs d d') : skelDs d' = skelDs d := by
  simp only [skelDs, h.1, sameL_skel h.2]

/-! ### foreign texts: the declared structure is always one of the property's trees

Since the repair of the parser (a declaration naming only some of its dimensions keeps its shape and gets no dimension
names, `fitDims`) the structure a foreign text declares has, for every variable, dimension names for all extents or none. -/

theorem declBase_dimsFit (b : FBase) (sq : Nat) : DimsFitB (declBase b) sq := by
  have he : effShape (declBase b) sq = b.dims.map (·.2) := by simp [effShape, declBase]
  unfold DimsFitB
  rw [he]
  simp only [declBase, fitDims]
  split
  · right; assumption
  · left; rfl

mutual
theorem declT_dimsFit : (t : FTmpl) → (sq : Nat) → DimsFitT (declT t) sq
  | .base b, sq => by
    simp only [declT, DimsFitT]; exact declBase_dimsFit b sq
  | .cont isSeq kw name gs kids, sq => by
    cases isSeq <;> simp only [declT, Bool.false_eq_true, if_false, if_true, DimsFitT]
    · exact declL_dimsFit kids sq
    · exact declL_dimsFit kids (sq + 1)
  | .grid kw kwA kwM name gs arr maps, sq => by
    simp only [declT, DimsFitT]
    intro b hb
    simp only [List.mem_cons, List.mem_map] at hb
    rcases hb with rfl | ⟨m, _, rfl⟩
    · exact declBase_dimsFit arr sq
    · exact declBase_dimsFit m sq
theorem declL_dimsFit : (ts : List FTmpl) → (sq : Nat) → DimsFitL (declL ts) sq
  | [], _ => by simp [declL, DimsFitL]
  | t :: ts, sq => by
    simp only [declL, DimsFitL]
    exact ⟨declT_dimsFit t sq, declL_dimsFit ts sq⟩
end

theorem declDs_dimsFit (d : FDataset) : DimsFitDs (declDs d) := declL_dimsFit d.kids 0

/-- `Dataset { Int32 a[x = 2][3]; } d;` — one dimension named, one anonymous (legal DAP2) -/
def partNamedWitness : FDataset :=
  ⟨"Dataset".toList, ['d'], [[' '], [' '], [' ']],
   [.base ⟨"Int32".toList, ['a'], [(some ['x'], 2), (none, 3)], []⟩]⟩

theorem partNamedWitness_wf : FWFds partNamedWitness := by
  have b1 : FBaseOk ⟨"Int32".toList, ['a'], [(some ['x'], 2), (none, 3)], []⟩ :=
    { ty := ⟨by decide, by decide, by decide, by decide, by decide, ⟨">i".toList, by decide⟩⟩
      name := (nameOk_of_decide _ (by decide)).raw
      dims := by
        intro e he
        simp only [List.mem_cons, List.not_mem_nil, or_false] at he
        rcases he with rfl | rfl
        · exact entryOk_some _ 2 (by decide) (nameOk_of_decide _ (by decide))
        · exact entryOk_none 3 (by decide)
      gs := gsOk_of_decide _ (by decide) }
  exact
    { hkw := ⟨by decide⟩
      hname := (nameOk_of_decide _ (by decide)).raw
      hgs := gsOk_of_decide _ (by decide)
      hkids := by
        simp only [partNamedWitness, FWFL, FWFT, and_true]
        exact b1
      hnodup := by decide }

/-- what it declares for pydap: the shape (2, 3), no dimension names -/
theorem partNamedWitness_decl :
    declDs partNamedWitness = ⟨['d'], [.base ⟨['a'], ">i".toList, [2, 3], [], true⟩]⟩ := by
  have n1 : quoteName ['d'] = ['d'] := by decide
  have n2 : quoteName ['a'] = ['a'] := by decide
  have t1 : declTy "Int32".toList = ">i".toList := by decide
  simp only [partNamedWitness, declDs, declL, declT, declBase, n1, n2, t1, List.map_cons, List.map_nil,
    List.filterMap_cons, List.filterMap_nil]
  rfl

/-! ### the boundary of the foreign-style domain: white space after a name -/

/-- the names of the top-level variables of a parse result (a decidable observation of it) -/
def kidNames : Except Err Dataset → Option (List Text)
  | .ok d => some (d.kids.map Tmpl.name)
  | .error _ => none

/-- `Dataset { Int32 a ; } d;` — white space between a name and `;` — is read as a variable named `a%20`:
    pydap's name token is `[^;\[]+` and is not stripped -/
theorem space_after_name_kept :
    kidNames (parseDds ("Dataset { Int32 a".toList ++ [' '] ++ "; } d;".toList)) = some ["a%20".toList] := by
  decide +kernel

theorem space_before_bracket_kept :
    kidNames (parseDds ("Dataset { Int32 a".toList ++ [' '] ++ "[2]; } d;".toList)) = some ["a%20".toList] := by
  decide +kernel

/-! ### every DAP2 type is in the domain -/

/-- every DAP2 base type pydap can declare is the declared type of some numpy dtype, and the parser knows it -/
theorem dap2_types_covered :
    ∀ ty ∈ ["Byte", "Int16", "UInt16", "Int32", "UInt32", "Float32", "Float64", "String"],
      (∃ p ∈ Gen.NUMPY_TO_DAP2_TYPEMAP, p.2 = ty ∧ dap2Of p.1.toList = some ty.toList) ∧
      (lookup Gen.LOWER_DAP2_TO_NUMPY_PARSER_TYPEMAP (lower ty.toList)).isSome = true := by
  decide

end Pydap.Dds
