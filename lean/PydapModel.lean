import PydapModel.Generated.Tables
import PydapModel.HandlerSteps
import PydapModel.Sched
import PydapModel.Sexp
import PydapModel.Slice
