import PydapModel.Generated.Tables
import PydapModel.IterData
import PydapModel.Sexp
import PydapModel.Slice
import PydapModel.TableVal
