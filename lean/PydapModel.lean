import PydapModel.Generated.Tables
import PydapModel.Sexp
import PydapModel.Slice
import PydapModel.Xdr
import PydapModel.XdrSpec
import PydapModel.XdrTypes
