import PydapModel.Generated.SliceSrc
import PydapModel.Generated.Tables
import PydapModel.Heap
import PydapModel.MiniPy
import PydapModel.Quote
import PydapModel.Sexp
import PydapModel.Slice
import PydapModel.Tree
