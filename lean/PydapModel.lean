import PydapModel.FileHandlers
import PydapModel.Generated.Tables
import PydapModel.Path
import PydapModel.Sexp
import PydapModel.Slice
