import PydapModel.DasForeign
import PydapModel.DasText
import PydapModel.DdsForeign
import PydapModel.DdsText
import PydapModel.Generated.Tables
import PydapModel.Sexp
import PydapModel.Slice
