import PydapModel.Generated.SliceSrc
import PydapModel.Generated.Tables
import PydapModel.MiniPy
import PydapModel.Sexp
import PydapModel.Slice
