import PydapModel.Generated.Tables
import PydapModel.Sexp
import PydapModel.Slice
import PydapModel.Stream
import PydapModel.StreamTree
