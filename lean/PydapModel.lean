import PydapModel.Sexp
import PydapModel.Slice
