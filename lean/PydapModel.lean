import PydapModel.Dap4
import PydapModel.Dap4Index
import PydapModel.Dmr
import PydapModel.Generated.Tables
import PydapModel.Sexp
import PydapModel.Slice
