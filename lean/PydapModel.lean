import PydapModel.CE
import PydapModel.Generated.Tables
import PydapModel.IterData
import PydapModel.Seq
import PydapModel.Sexp
import PydapModel.Slice
import PydapModel.TableVal
