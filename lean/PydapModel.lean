import PydapModel.Generated.Tables
import PydapModel.Handler
import PydapModel.Sexp
import PydapModel.Slice
import PydapModel.Ssf
