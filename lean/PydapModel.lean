import PydapModel.CacheKey
import PydapModel.Generated.Tables
import PydapModel.Proxy
import PydapModel.Sexp
import PydapModel.Slice
import PydapModel.Subset
